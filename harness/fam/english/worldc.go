package english

import (
	"fmt"
	"sort"
	"time"

	sdk "github.com/cosmos/cosmos-sdk/types"

	"github.com/comdex-official/comdex/app/wasm/bindings"
	auctionsV2types "github.com/comdex-official/comdex/x/auctionsV2/types"
	lockertypes "github.com/comdex-official/comdex/x/locker/types"
	vaulttypes "github.com/comdex-official/comdex/x/vault/types"

	"vh/sim"
)

// ---------------------------------------------------------------------------------------------
// World C: lockers, savings rewards, collector net fees fed by real vault messages (Locker.tla, Collector.tla)
// ---------------------------------------------------------------------------------------------

type LockerRec struct {
	ID    int64  `json:"id"`
	Owner string `json:"owner"`
	App   string `json:"app"`
	Net   int64  `json:"net"`
}

type VaultRec struct {
	ID      int64  `json:"id"`
	Owner   string `json:"owner"`
	App     string `json:"app"`
	In      int64  `json:"in"`
	Out     int64  `json:"out"`
	Closing int64  `json:"closing"`
}

type StC struct {
	T       int64                       `json:"t"`
	Lockers []LockerRec                 `json:"lockers"`
	Dep     map[string]int64            `json:"dep"`
	IDs     map[string][]int64          `json:"ids"`
	Vaults  []VaultRec                  `json:"vaults"`
	VInt    []int64                     `json:"vint"` // InterestAccumulated per vault (same order), environment amounts
	LAge    []int64                     `json:"lage"` // seconds since each locker's savings were last settled (same order as lockers)
	Nf      map[string]map[string]int64 `json:"nf"`
	Bal     map[string]map[string]int64 `json:"bal"`
	NL      int64                       `json:"nl"`
	NV      int64                       `json:"nv"`
	Dutch   int64                       `json:"dutch"` // live generation-2 Dutch auctions
	Eng     []EngRec                    `json:"eng"`   // live generation-2 English (surplus / debt) auctions fed by the same collector
	Px      int64                       `json:"px"`    // oracle price of the collateral in stable units
	LsrOn   map[string]bool             `json:"lsrOn"` // locker saving rate of the app's collector lookup is > 0
	Root    int                         `json:"root"`
	Ev      EvC                         `json:"ev"`
}

// EvC labels steps for known-finding keys (derived from the recorded pre/post states).
type EvC struct {
	Penalty bool `json:"penalty"` // a Dutch bid closed a liquidation auction and coins reached the collector
}

var actorsC = []string{"u1", "u2", "u3", "col", "lock"}
var denomsC = []string{"ucmst", "uatom", "uharbor"}
var appName = map[uint64]string{App1: "a1", App2: "a2"}
var appID = map[string]uint64{"a1": App1, "a2": App2}
var extPair = map[uint64]uint64{App1: 1, App2: 2} // extended pair vault ids in creation order

func (w *World) ProjectC() StC {
	s := StC{T: w.T(), Lockers: []LockerRec{}, Dep: map[string]int64{}, IDs: map[string][]int64{}, Vaults: []VaultRec{}, VInt: []int64{}, LAge: []int64{},
		Nf: map[string]map[string]int64{}, Bal: w.Balances(actorsC, denomsC), LsrOn: map[string]bool{}}
	ls := w.App.LockerKeeper.GetLockers(w.Ctx)
	sort.SliceStable(ls, func(i, j int) bool { return ls[i].LockerId < ls[j].LockerId })
	for _, l := range ls {
		s.Lockers = append(s.Lockers, LockerRec{ID: int64(l.LockerId), Owner: actorOf(l.Depositor), App: appName[l.AppId], Net: l.NetBalance.Int64()})
		s.LAge = append(s.LAge, int64(w.Ctx.BlockTime().Sub(l.BlockTime)/time.Second))
	}
	for app, name := range appName {
		s.IDs[name] = []int64{}
		if lk, ok := w.App.CollectorKeeper.GetCollectorLookupTable(w.Ctx, app, AssetCmst); ok {
			s.LsrOn[name] = lk.LockerSavingRate.IsPositive()
		} else {
			s.LsrOn[name] = false
		}
		if lt, ok := w.App.LockerKeeper.GetLockerLookupTable(w.Ctx, app, AssetCmst); ok {
			s.Dep[name] = lt.DepositedAmount.Int64()
			for _, id := range lt.LockerIds {
				s.IDs[name] = append(s.IDs[name], int64(id))
			}
		} else {
			s.Dep[name] = 0
		}
		m := map[string]int64{}
		for _, as := range []uint64{AssetCmst, AssetAtom, AssetHarbor} {
			m[Denoms[as]] = 0
			if nf, ok := w.App.CollectorKeeper.GetNetFeeCollectedData(w.Ctx, app, as); ok {
				m[Denoms[as]] = nf.NetFeesCollected.Int64()
			}
		}
		s.Nf[name] = m
	}
	vs := w.App.VaultKeeper.GetVaults(w.Ctx)
	sort.SliceStable(vs, func(i, j int) bool { return vs[i].Id < vs[j].Id })
	for _, v := range vs {
		s.Vaults = append(s.Vaults, VaultRec{ID: int64(v.Id), Owner: actorOf(v.Owner), App: appName[v.AppId], In: v.AmountIn.Int64(), Out: v.AmountOut.Int64(),
			Closing: v.ClosingFeeAccumulated.Int64()})
		s.VInt = append(s.VInt, v.InterestAccumulated.Int64())
	}
	if twa, ok := w.App.MarketKeeper.GetTwa(w.Ctx, AssetAtom); ok {
		s.Px = int64(twa.Twa / 1000000)
	}
	s.NL = int64(w.App.LockerKeeper.GetIDForLocker(w.Ctx))
	s.NV = int64(w.App.VaultKeeper.GetIDForVault(w.Ctx))
	s.Eng = []EngRec{}
	for _, a := range w.App.NewaucKeeper.GetAuctions(w.Ctx) {
		if a.AuctionType {
			s.Dutch++
			continue
		}
		lv, _ := w.App.NewliqKeeper.GetLockedVault(w.Ctx, a.AppId, a.LockedVaultId)
		if lv.InitiatorType == "surplus" || lv.InitiatorType == "debt" {
			s.Eng = append(s.Eng, EngRec{ID: int64(a.AuctionId), Kind: lv.InitiatorType, App: appName[a.AppId], Lot: a.CollateralToken.Amount.Int64(),
				Pay: a.DebtToken.Amount.Int64(), NB: int64(len(a.BiddingIds)), EndT: secs(w, a.EndTime)})
		}
	}
	return s
}

// EngRec: a live generation-2 English auction as far as the collector book is concerned.
type EngRec struct {
	ID   int64  `json:"id"`
	Kind string `json:"kind"`
	App  string `json:"app"`
	Lot  int64  `json:"lot"` // surplus: stable units that leave the collector at the close; debt: gov units minted
	Pay  int64  `json:"pay"` // debt: stable units that enter the collector at the close
	NB   int64  `json:"nb"`
	EndT int64  `json:"endT"`
}

type runnerC struct {
	lg  *sim.Log
	run string
}

func (r *runnerC) preOf(parent int) StC { return r.lg.Nodes[parent-1].St.(StC) }

func (r *runnerC) add(w *World, parent int, a string, args, res map[string]interface{}) int {
	st := w.ProjectC()
	if parent == 0 {
		st.Root = len(r.lg.Nodes) + 1
	} else {
		p := r.preOf(parent)
		st.Root = p.Root
		if a == "DutchBid" && st.Dutch < p.Dutch && st.Bal["col"]["ucmst"] > p.Bal["col"]["ucmst"] {
			st.Ev.Penalty = true
		}
	}
	if res == nil {
		res = map[string]interface{}{"ok": true}
	}
	return r.lg.Add(parent, r.run, a, args, res, st)
}

func (r *runnerC) execC(w *World, parent int, a string, args map[string]interface{}) int {
	var res map[string]interface{}
	u := sim.Addr(argS(args, "u")).String()
	app := appID[argS(args, "app")]
	amt := sdk.NewInt(argI(args, "amt"))
	id := uint64(argI(args, "id"))
	asset := uint64(AssetCmst)
	for aid, d := range Denoms {
		if d == argS(args, "asset") {
			asset = aid
		}
	}
	switch a {
	case "CreateLocker":
		res = resMap(w.Deliver(&lockertypes.MsgCreateLockerRequest{Depositor: u, Amount: amt, AssetId: asset, AppId: app}))
	case "DepositLocker":
		res = resMap(w.Deliver(&lockertypes.MsgDepositAssetRequest{Depositor: u, LockerId: id, Amount: amt, AssetId: asset, AppId: app}))
	case "WithdrawLocker":
		res = resMap(w.Deliver(&lockertypes.MsgWithdrawAssetRequest{Depositor: u, LockerId: id, Amount: amt, AssetId: asset, AppId: app}))
	case "CloseLocker":
		res = resMap(w.Deliver(&lockertypes.MsgCloseLockerRequest{Depositor: u, AppId: app, AssetId: asset, LockerId: id}))
	case "RewardCalc":
		res = resMap(w.Deliver(&lockertypes.MsgLockerRewardCalcRequest{From: u, AppId: app, LockerId: id}))
	case "VaultCreate":
		res = resMap(w.Deliver(&vaulttypes.MsgCreateRequest{From: u, AppId: app, ExtendedPairVaultId: extPair[app], AmountIn: sdk.NewInt(argI(args, "in")), AmountOut: sdk.NewInt(argI(args, "out"))}))
	case "VaultDraw":
		res = resMap(w.Deliver(&vaulttypes.MsgDrawRequest{From: u, AppId: app, ExtendedPairVaultId: extPair[app], UserVaultId: id, Amount: amt}))
	case "VaultRepay":
		res = resMap(w.Deliver(&vaulttypes.MsgRepayRequest{From: u, AppId: app, ExtendedPairVaultId: extPair[app], UserVaultId: id, Amount: amt}))
	case "VaultClose":
		res = resMap(w.Deliver(&vaulttypes.MsgCloseRequest{From: u, AppId: app, ExtendedPairVaultId: extPair[app], UserVaultId: id}))
	case "InterestCalc":
		res = resMap(w.Deliver(&vaulttypes.MsgVaultInterestCalcRequest{From: u, AppId: app, UserVaultId: id}))
	case "Block":
		br := w.Block(argI(args, "dt"))
		res = map[string]interface{}{"ok": !br.Panic, "panic": br.Panic, "err": trunc(br.Err, 120)}
	case "SetPrice":
		w.SetPrice(AssetAtom, uint64(argI(args, "p")))
	case "EnglishBid":
		res = resMap(w.BidV2(argS(args, "u"), int64(id), argI(args, "amt"), argS(args, "denom")))
	case "DutchBid":
		res = resMap(w.Deliver(&auctionsV2types.MsgPlaceMarketBidRequest{AuctionId: id, Bidder: u, Amount: coin("ucmst", argI(args, "amt"))}))
	case "LsrChange":
		// governance changes the locker saving rate: rewards of every locker of the app are settled first
		lk, _ := w.App.CollectorKeeper.GetCollectorLookupTable(w.Ctx, app, AssetCmst)
		cctx, write := w.Ctx.CacheContext()
		err := w.App.CollectorKeeper.WasmUpdateCollectorLookupTable(cctx, &bindings.MsgUpdateCollectorLookupTable{AppID: app, AssetID: AssetCmst,
			DebtThreshold: lk.DebtThreshold, SurplusThreshold: lk.SurplusThreshold, LotSize: lk.LotSize, DebtLotSize: lk.DebtLotSize, BidFactor: lk.BidFactor,
			LSR: sdk.MustNewDecFromStr(argS(args, "lsr"))})
		if err == nil {
			write()
		}
		res = map[string]interface{}{"ok": err == nil, "err": errStr(err)}
	default:
		panic("unknown action " + a)
	}
	return r.add(w, parent, a, args, res)
}

func cfgFromInitC(args map[string]interface{}) Cfg {
	c := DefaultCfg()
	c.Sur, c.Debt, c.Dist, c.Nf0 = false, false, false, -1
	if m, ok := args["c"].(map[string]interface{}); ok {
		c.DdN, c.DdD, c.VcN, c.VcD = argI(m, "ddn"), argI(m, "ddd"), argI(m, "vcn"), argI(m, "vcd")
	}
	c.Fund = argI(args, "fund")
	c.Lsr, c.Sf = "0", "0"
	return c
}

// WalkC executes the transition graphs of MC_Locker on the real message servers.
func WalkC(lg *sim.Log, graphs []*Graph) (edges int) {
	for gi, g := range graphs {
		c := cfgFromInitC(g.Init.Args)
		w := NewWorld(c)
		r := &runnerC{lg: lg, run: fmt.Sprintf("walk:%d", gi)}
		root := r.add(w, 0, "Init", cfgArgs(c), nil)
		wk := &Walker{Lg: lg, Run: r.run, Exec: func(b *World, parent int, e Edge) int { return r.execC(b, parent, e.A, e.Args) }}
		wk.Walk(w, root, g)
		edges += wk.Edges
	}
	return
}

// DriveC: seeded behaviours with savings rate and stability fee > 0 (rewards and interest are the code's float
// amounts), two apps, three users, long time gaps, saving-rate changes, and a liquidation whose penalty the
// Dutch auction pays into the collector.
func DriveC(lg *sim.Log, seed int64, runs, steps int) {
	rng := sim.NewRng(seed*15485863 + 3)
	for k := 0; k < runs; k++ {
		c := DefaultCfg()
		c.Sur, c.Debt, c.Dist, c.Nf0 = false, false, false, -1
		c.Lsr = rng.PickS([]string{"0", "0.05", "0.5", "3"})
		c.Sf = rng.PickS([]string{"0", "0.1", "0.9"})
		x := [][2]int64{{1, 10}, {1, 4}, {3, 100}, {0, 1}}[rng.Pick(4)]
		c.DdN, c.DdD = x[0], x[1]
		x = [][2]int64{{1, 20}, {1, 10}, {0, 1}}[rng.Pick(3)]
		c.VcN, c.VcD = x[0], x[1]
		c.Fund = rng.PickI64([]int64{200, 1000})
		directed := k%3 == 0
		if directed {
			c.Lsr, c.DdN, c.DdD, c.Fund = "0.05", 1, 10, 1000
		}
		// combined profile: locker savings (and every other consumer / producer of net fees) run WHILE a generation-2
		// surplus or debt auction of the same (app, asset) is live, a second app holding fees in the same collector denom
		combined := k%3 == 1
		if combined {
			c.DdN, c.DdD, c.Fund, c.A2 = 1, 10, 1000, 200
			if k%2 == 0 {
				c.Sur, c.Lsr, c.ST, c.L = true, "0.25", 20, 10
			} else {
				c.Debt, c.Lsr, c.DT, c.L, c.DL = true, "0.05", 60, 10, 20
			}
		}
		w := NewWorld(c)
		r := &runnerC{lg: lg, run: fmt.Sprintf("drive:%d:%d", seed, k)}
		cur := r.add(w, 0, "Init", cfgArgs(c), nil)
		apps := []string{"a1", "a2"}
		price := int64(2000000)
		if combined {
			step := func(a string, m map[string]interface{}) {
				for k, v := range map[string]interface{}{"u": "", "app": "", "asset": "ucmst", "id": int64(0), "amt": int64(0)} {
					if _, ok := m[k]; !ok {
						m[k] = v
					}
				}
				cur = r.execC(w, cur, a, m)
			}
			step("VaultCreate", map[string]interface{}{"u": "u1", "app": "a1", "in": int64(450), "out": int64(300)}) // 30 fees in app 1
			step("VaultCreate", map[string]interface{}{"u": "u2", "app": "a2", "in": int64(450), "out": int64(300)}) // 30 fees in app 2
			step("CreateLocker", map[string]interface{}{"u": "u3", "app": "a1", "amt": int64(100)})
			step("Block", map[string]interface{}{"dt": int64(365 * 86400)}) // the auction of app 1 starts; a year of savings is due
			if st := r.preOf(cur); len(st.Eng) > 0 {
				au := st.Eng[0]
				if au.Kind == "surplus" {
					step("EnglishBid", map[string]interface{}{"u": "u2", "id": au.ID, "amt": int64(7), "denom": "uharbor"})
				} else {
					step("EnglishBid", map[string]interface{}{"u": "u2", "id": au.ID, "amt": au.Lot - 2, "denom": "uharbor"})
				}
				step("RewardCalc", map[string]interface{}{"u": "u1", "app": "a1", "id": st.Lockers[0].ID}) // savings paid out of app 1's net fees
				step("Block", map[string]interface{}{"dt": c.A2 + 1})                                      // the auction is due
				step("Block", map[string]interface{}{"dt": int64(6)})
				step("VaultCreate", map[string]interface{}{"u": "u3", "app": "a1", "in": int64(450), "out": int64(300)}) // fresh fees
				step("Block", map[string]interface{}{"dt": int64(6)})
			}
		}
		if directed {
			// both apps earn fees, several lockers per (app, asset) accrue savings for a year; then the entry points that
			// touch the books with arguments that do not belong together, and the governance saving-rate changes
			step := func(a string, m map[string]interface{}) {
				for k, v := range map[string]interface{}{"u": "", "app": "", "asset": "ucmst", "id": int64(0), "amt": int64(0)} {
					if _, ok := m[k]; !ok {
						m[k] = v
					}
				}
				cur = r.execC(w, cur, a, m)
			}
			step("VaultCreate", map[string]interface{}{"u": "u1", "app": "a1", "in": int64(450), "out": int64(300)})
			step("VaultCreate", map[string]interface{}{"u": "u2", "app": "a2", "in": int64(450), "out": int64(300)})
			owners := [][2]string{{"u1", "a1"}, {"u2", "a1"}, {"u3", "a2"}, {"u1", "a2"}, {"u3", "a1"}}
			for _, o := range owners[:3+rng.Pick(3)] {
				step("CreateLocker", map[string]interface{}{"u": o[0], "app": o[1], "amt": rng.PickI64([]int64{60, 100})})
			}
			step("Block", map[string]interface{}{"dt": int64(365 * 86400)})
			st := r.preOf(cur)
			for _, l := range st.Lockers {
				other := "a1"
				if l.App == "a1" {
					other = "a2"
				}
				switch rng.Pick(4) {
				case 0:
					step("RewardCalc", map[string]interface{}{"u": rng.PickS(Users), "app": other, "id": l.ID})
				case 1:
					step("WithdrawLocker", map[string]interface{}{"u": l.Owner, "app": other, "id": l.ID, "amt": int64(7)})
				case 2:
					step("DepositLocker", map[string]interface{}{"u": l.Owner, "app": l.App, "asset": "uharbor", "id": l.ID, "amt": int64(7)})
				}
			}
			step("RewardCalc", map[string]interface{}{"u": "u2", "app": "a2", "id": st.Lockers[0].ID}) // locker of a1 named under a2
			step("LsrChange", map[string]interface{}{"app": "a1", "lsr": "0.07", "u": "u1"})
			step("Block", map[string]interface{}{"dt": int64(365 * 86400)})
			step("LsrChange", map[string]interface{}{"app": rng.PickS(apps), "lsr": rng.PickS([]string{"0", "0.02"}), "u": "u1"})
		}
		for i := 0; i < steps; i++ {
			st := r.preOf(cur)
			args := map[string]interface{}{}
			var a string
			// 0 create locker, 1 deposit, 2 withdraw, 3 close, 4 reward calc, 5 vault create, 6 draw, 7 repay, 8 vault close,
			// 9 interest calc, 10 block, 11 lsr change, 12 price move, 13 dutch bid
			wts := []int{4, 0, 0, 0, 0, 5, 0, 0, 0, 0, 6, 1, 1, 0}
			if len(st.Lockers) > 0 {
				wts[1], wts[2], wts[3], wts[4] = 5, 6, 2, 3
			}
			if len(st.Vaults) > 0 {
				wts[6], wts[7], wts[8], wts[9] = 4, 4, 2, 2
			}
			if st.Dutch > 0 {
				wts[13] = 8
			}
			if len(st.Eng) > 0 && rng.Pick(4) == 0 {
				au := st.Eng[rng.Pick(len(st.Eng))]
				amt := rng.PickI64([]int64{3, 8, 15})
				if au.Kind == "debt" {
					amt = au.Lot - rng.PickI64([]int64{1, 4, 9})
				}
				if amt < 1 {
					amt = 1
				}
				cur = r.execC(w, cur, "EnglishBid", map[string]interface{}{"u": rng.PickS(Users), "app": "", "asset": "ucmst", "id": au.ID, "amt": amt, "denom": "uharbor"})
				continue
			}
			pickLocker := func() {
				l := st.Lockers[rng.Pick(len(st.Lockers))]
				args["u"], args["app"], args["id"] = l.Owner, l.App, l.ID
				if rng.Pick(10) == 0 {
					args["u"] = rng.PickS(Users) // somebody else's locker
				}
				if rng.Pick(6) == 0 {
					args["app"] = rng.PickS(apps) // a locker id together with an app it may not belong to
				}
				if rng.Pick(12) == 0 {
					args["asset"] = rng.PickS([]string{"uatom", "uharbor"}) // ... or with another asset id
				}
				net := l.Net
				cand := []int64{1, net / 2, net - 1, net, net + 1, net + 50, 7}
				amt := cand[rng.Pick(len(cand))]
				if amt <= 0 {
					amt = 1
				}
				args["amt"] = amt
			}
			pickVault := func() {
				v := st.Vaults[rng.Pick(len(st.Vaults))]
				args["u"], args["app"], args["id"] = v.Owner, v.App, v.ID
				args["amt"] = rng.PickI64([]int64{1, 5, 10, 11, 30, v.Out / 2, v.Out - 10})
				if argI(args, "amt") <= 0 {
					args["amt"] = int64(1)
				}
			}
			switch rng.Weighted(wts) {
			case 0:
				a = "CreateLocker"
				args["u"], args["app"], args["amt"], args["id"] = rng.PickS(Users), rng.PickS(apps), rng.PickI64([]int64{1, 10, 25, 100}), int64(0)
				if rng.Pick(15) == 0 {
					args["asset"] = rng.PickS([]string{"uatom", "uharbor"})
				}
			case 1:
				a = "DepositLocker"
				pickLocker()
			case 2:
				a = "WithdrawLocker"
				pickLocker()
			case 3:
				a = "CloseLocker"
				pickLocker()
			case 4:
				a = "RewardCalc"
				pickLocker()
				args["u"] = rng.PickS(Users)
			case 5:
				a = "VaultCreate"
				in := rng.PickI64([]int64{30, 75, 150})
				args["u"], args["app"], args["in"], args["out"] = rng.PickS(Users), rng.PickS(apps), in, rng.PickI64([]int64{in * 4 / 3, in*4/3 + 1, in, in / 2, 9})
				args["id"], args["amt"] = int64(0), int64(0)
			case 6:
				a = "VaultDraw"
				pickVault()
			case 7:
				a = "VaultRepay"
				pickVault()
			case 8:
				a = "VaultClose"
				pickVault()
			case 9:
				a = "InterestCalc"
				pickVault()
				args["u"] = rng.PickS(Users)
			case 10:
				a, args["dt"] = "Block", rng.PickI64([]int64{6, 3600, 86400, 30 * 86400, 365 * 86400})
			case 11:
				a = "LsrChange"
				args["app"], args["lsr"], args["u"], args["id"], args["amt"] = rng.PickS(apps), rng.PickS([]string{"0", "0.05", "0.5", "2"}), "u1", int64(0), int64(0)
			case 12:
				if price == 2000000 {
					price = 1000000 // collateral loses half its value: vaults near the minimum ratio become unsafe
				} else {
					price = 2000000
				}
				a, args["p"] = "SetPrice", price
			case 13:
				a = "DutchBid"
				args["u"], args["id"], args["amt"] = rng.PickS(Users), int64(1+rng.Pick(int(st.Dutch)+1)), rng.PickI64([]int64{5, 50, 500})
				for _, au := range w.App.NewaucKeeper.GetAuctions(w.Ctx) {
					if au.AuctionType && rng.Pick(2) == 0 {
						args["id"] = int64(au.AuctionId)
					}
				}
			}
			for _, k := range []string{"u", "app"} {
				if _, ok := args[k]; !ok {
					args[k] = ""
				}
			}
			if _, ok := args["asset"]; !ok {
				args["asset"] = "ucmst"
			}
			for _, k := range []string{"id", "amt"} {
				if _, ok := args[k]; !ok {
					args[k] = int64(0)
				}
			}
			cur = r.execC(w, cur, a, args)
		}
	}
}
