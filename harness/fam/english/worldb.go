package english

import (
	"fmt"
	"sort"

	sdk "github.com/cosmos/cosmos-sdk/types"

	auctionsV2types "github.com/comdex-official/comdex/x/auctionsV2/types"
	liqV2types "github.com/comdex-official/comdex/x/liquidationsV2/types"

	"vh/sim"
)

// ---------------------------------------------------------------------------------------------
// World B: the limit-bid book (LimitBid.tla), market debt = stable asset, collateral = atom
// ---------------------------------------------------------------------------------------------

type Dep struct {
	Prem  int64  `json:"prem"`
	U     string `json:"u"`
	Amt   int64  `json:"amt"`
	Denom string `json:"denom"`
}

type DutchRec struct {
	ID     int64 `json:"id"`
	Coll   int64 `json:"coll"`   // collateral left
	Debt   int64 `json:"debt"`   // debt still to be collected
	Target int64 `json:"target"` // target debt of the locked vault
}

type StB struct {
	T          int64                       `json:"t"`
	Dep        []Dep                       `json:"dep"`
	Total      int64                       `json:"total"`
	TotalFound bool                        `json:"totalFound"`
	Bal        map[string]map[string]int64 `json:"bal"`
	Held       map[string]int64            `json:"held"`
	Dutch      []DutchRec                  `json:"dutch"`
	Root       int                         `json:"root"`
	Ev         EvB                         `json:"ev"`
}

// EvB labels automatic fills (derived from the recorded pre/post states): a deposit that shrank or vanished in a
// block step, compared with the remaining debt of the Dutch auctions before the step.
type EvB struct {
	FillEq    bool `json:"fillEq"`    // a consumed deposit was exactly the remaining debt of an auction that closed
	FillOver  bool `json:"fillOver"`  // a deposit larger than the remaining debt was partly consumed
	FillUnder bool `json:"fillUnder"` // a deposit smaller than the remaining debt was consumed entirely
	Unchecked bool `json:"unchecked"` // a withdraw message asking for more than the signer's deposit or for another denomination
}

func eventsB(pre, post StB) EvB {
	var ev EvB
	live := map[int64]bool{}
	for _, d := range post.Dutch {
		live[d.ID] = true
	}
	pd := map[string]int64{}
	for _, d := range post.Dep {
		pd[sprintf("%d/%s", d.Prem, d.U)] = d.Amt
	}
	for _, d := range pre.Dep {
		after, still := pd[sprintf("%d/%s", d.Prem, d.U)]
		if still && after >= d.Amt {
			continue
		}
		for _, a := range pre.Dutch {
			switch {
			case !still && d.Amt == a.Debt && !live[a.ID]:
				ev.FillEq = true
			case still && d.Amt > a.Debt && !live[a.ID]:
				ev.FillOver = true
			case !still && d.Amt < a.Debt && live[a.ID]:
				ev.FillUnder = true
			}
		}
	}
	return ev
}

var actorsB = []string{"u1", "u2", "u3", "a2"}
var denomsB = []string{"ucmst", "uatom", "uother"}

func (w *World) ProjectB() StB {
	s := StB{T: w.T(), Dep: []Dep{}, Bal: w.Balances(actorsB, denomsB), Held: map[string]int64{"ucmst": 0, "uatom": 0, "uother": 0}, Dutch: []DutchRec{}}
	k := w.App.NewaucKeeper
	for p := int64(0); p <= 30; p++ {
		bids, _ := k.GetUserLimitBidDataByPremium(w.Ctx, AssetCmst, AssetAtom, sdk.NewInt(p))
		for _, b := range bids {
			s.Dep = append(s.Dep, Dep{Prem: p, U: actorOf(b.BidderAddress), Amt: b.DebtToken.Amount.Int64(), Denom: b.DebtToken.Denom})
		}
	}
	sort.SliceStable(s.Dep, func(i, j int) bool {
		if s.Dep[i].Prem != s.Dep[j].Prem {
			return s.Dep[i].Prem < s.Dep[j].Prem
		}
		return s.Dep[i].U < s.Dep[j].U
	})
	if pd, ok := k.GetLimitBidProtocolDataByAssetID(w.Ctx, AssetCmst, AssetAtom); ok {
		s.TotalFound = true
		s.Total = pd.BidValue.Int64()
	}
	for _, a := range k.GetAuctions(w.Ctx) {
		if !a.AuctionType {
			continue
		}
		lv, _ := w.App.NewliqKeeper.GetLockedVault(w.Ctx, a.AppId, a.LockedVaultId)
		d := DutchRec{ID: int64(a.AuctionId), Coll: a.CollateralToken.Amount.Int64(), Debt: a.DebtToken.Amount.Int64(), Target: lv.TargetDebt.Amount.Int64()}
		s.Dutch = append(s.Dutch, d)
		if _, ok := s.Held[a.CollateralToken.Denom]; ok {
			s.Held[a.CollateralToken.Denom] += d.Coll
		}
		if _, ok := s.Held[a.DebtToken.Denom]; ok {
			s.Held[a.DebtToken.Denom] += d.Target - d.Debt
		}
	}
	return s
}

func (w *World) LbDeposit(u string, coll, debt uint64, prem, amt int64, denom string) sim.Result {
	return w.Deliver(&auctionsV2types.MsgDepositLimitBidRequest{CollateralTokenId: coll, DebtTokenId: debt, PremiumDiscount: sdk.NewInt(prem),
		Bidder: sim.Addr(u).String(), Amount: coin(denom, amt)})
}
func (w *World) LbCancel(u string, coll, debt uint64, prem int64) sim.Result {
	return w.Deliver(&auctionsV2types.MsgCancelLimitBidRequest{CollateralTokenId: coll, DebtTokenId: debt, PremiumDiscount: sdk.NewInt(prem), Bidder: sim.Addr(u).String()})
}
func (w *World) LbWithdraw(u string, coll, debt uint64, prem, amt int64, denom string) sim.Result {
	return w.Deliver(&auctionsV2types.MsgWithdrawLimitBidRequest{CollateralTokenId: coll, DebtTokenId: debt, PremiumDiscount: sdk.NewInt(prem),
		Bidder: sim.Addr(u).String(), Amount: coin(denom, amt)})
}

// OpenDutch: the external initiator funds the app reserve once and liquidates an external position: a Dutch
// auction of coll atom for debt stable units (+ penalty) whose collateral is escrowed in the auction module.
func (w *World) OpenDutch(coll, debt int64) sim.Result {
	if _, found := w.App.NewliqKeeper.GetAppReserveFunds(w.Ctx, App1, AssetCmst); !found {
		r := w.Deliver(&liqV2types.MsgAppReserveFundsRequest{AppId: App1, AssetId: AssetCmst, TokenQuantity: coin("ucmst", 500), From: sim.Addr(External).String()})
		if !r.OK {
			return r
		}
	}
	return w.Deliver(&liqV2types.MsgLiquidateExternalKeeperRequest{From: sim.Addr(External).String(), AppId: App1, Owner: sim.Addr(External).String(),
		CollateralToken: coin("uatom", coll), DebtToken: coin("ucmst", debt), CollateralAssetId: AssetAtom, DebtAssetId: AssetCmst, IsDebtCmst: true})
}

type runnerB struct {
	lg  *sim.Log
	run string
}

func (r *runnerB) preOf(parent int) StB { return r.lg.Nodes[parent-1].St.(StB) }

func (r *runnerB) add(w *World, parent int, a string, args, res map[string]interface{}) int {
	st := w.ProjectB()
	if parent == 0 {
		st.Root = len(r.lg.Nodes) + 1
	} else {
		st.Root = r.preOf(parent).Root
		if a == "Block" {
			st.Ev = eventsB(r.preOf(parent), st)
		}
		if a == "Withdraw" {
			for _, d := range r.preOf(parent).Dep {
				if d.U == argS(args, "u") && d.Prem == argI(args, "prem") && (argI(args, "amt") > d.Amt || argS(args, "denom") != d.Denom) {
					st.Ev.Unchecked = true
				}
			}
		}
	}
	if res == nil {
		res = map[string]interface{}{"ok": true}
	}
	return r.lg.Add(parent, r.run, a, args, res, st)
}

func (r *runnerB) execB(w *World, parent int, a string, args map[string]interface{}) int {
	var res map[string]interface{}
	coll, debt := uint64(argI(args, "coll")), uint64(argI(args, "debt"))
	switch a {
	case "Deposit":
		res = resMap(w.LbDeposit(argS(args, "u"), coll, debt, argI(args, "prem"), argI(args, "amt"), argS(args, "denom")))
	case "Cancel":
		res = resMap(w.LbCancel(argS(args, "u"), coll, debt, argI(args, "prem")))
	case "Withdraw":
		res = resMap(w.LbWithdraw(argS(args, "u"), coll, debt, argI(args, "prem"), argI(args, "amt"), argS(args, "denom")))
	case "Block":
		br := w.Block(argI(args, "dt"))
		res = map[string]interface{}{"ok": !br.Panic, "panic": br.Panic, "err": trunc(br.Err, 120)}
	case "OpenDutch":
		res = resMap(w.OpenDutch(argI(args, "collAmt"), argI(args, "debtAmt")))
	default:
		panic("unknown action " + a)
	}
	return r.add(w, parent, a, args, res)
}

func cfgFromInitB(args map[string]interface{}) Cfg {
	c := DefaultCfg()
	c.Sur, c.Debt, c.Dist, c.Nf0 = false, false, false, -1
	if m, ok := args["c"].(map[string]interface{}); ok {
		c.WfN, c.WfD, c.CfN, c.CfD = argI(m, "wfn"), argI(m, "wfd"), argI(m, "cfn"), argI(m, "cfd")
	}
	c.Fund = argI(args, "fund")
	return c
}

// WalkB executes the transition graphs of MC_LimitBid on the real message server.
func WalkB(lg *sim.Log, graphs []*Graph) (edges int) {
	for gi, g := range graphs {
		c := cfgFromInitB(g.Init.Args)
		w := NewWorld(c)
		if argB(g.Init.Args, "dutch") {
			if r := w.OpenDutch(50, 40); !r.OK {
				panic("OpenDutch: " + r.Err)
			}
		}
		r := &runnerB{lg: lg, run: fmt.Sprintf("walk:%d", gi)}
		root := r.add(w, 0, "Init", cfgArgs(c), nil)
		wk := &Walker{Lg: lg, Run: r.run, Exec: func(b *World, parent int, e Edge) int { return r.execB(b, parent, e.A, e.Args) }}
		wk.Walk(w, root, g)
		edges += wk.Edges
	}
	return
}

// DriveB: three depositors, several premiums, fee rates incl. 0, attacker-chosen withdraw contents, and Dutch
// auctions whose falling price sweeps over the premiums so that deposits are filled automatically
// (exactly / more than / less than the auction's remaining debt).
func DriveB(lg *sim.Log, seed int64, runs, steps int) {
	rng := sim.NewRng(seed*104729 + 5)
	fees := [][2]int64{{0, 1}, {1, 10}, {1, 5}, {3, 100}, {1, 2}}
	for k := 0; k < runs; k++ {
		c := DefaultCfg()
		c.Sur, c.Debt, c.Dist, c.Nf0 = false, false, false, -1
		x := fees[rng.Pick(len(fees))]
		c.WfN, c.WfD = x[0], x[1]
		x = fees[rng.Pick(len(fees))]
		c.CfN, c.CfD = x[0], x[1]
		c.Fund = rng.PickI64([]int64{60, 300, 1000})
		c.A2 = 100
		w := NewWorld(c)
		r := &runnerB{lg: lg, run: fmt.Sprintf("drive:%d:%d", seed, k)}
		cur := r.add(w, 0, "Init", cfgArgs(c), nil)
		prems := []int64{0, 2, 5, 10, 17, 30}
		if k%2 == 0 {
			// directed prefix: one Dutch auction and a deposit exactly equal to / above / below its remaining debt at a
			// premium the falling price will pass; then jump to the moment the premium is reached
			cur = r.execB(w, cur, "OpenDutch", map[string]interface{}{"collAmt": rng.PickI64([]int64{50, 80}), "debtAmt": rng.PickI64([]int64{20, 40})})
			st := r.preOf(cur)
			if len(st.Dutch) > 0 {
				debt := st.Dutch[0].Debt
				p := rng.PickI64([]int64{0, 2, 5, 10})
				amt := debt + []int64{0, 0, 7, -9}[k/2%4]
				u := rng.PickS(Users)
				cur = r.execB(w, cur, "Deposit", map[string]interface{}{"coll": int64(AssetAtom), "debt": int64(AssetCmst), "u": u, "prem": p, "amt": amt, "denom": "ucmst"})
				if k/2%4 == 1 { // exact deposit with a second depositor at the same premium (k/2%4 == 0: the exact deposit is alone there)
					cur = r.execB(w, cur, "Deposit", map[string]interface{}{"coll": int64(AssetAtom), "debt": int64(AssetCmst), "u": rng.PickS(Users), "prem": p, "amt": int64(5), "denom": "ucmst"})
				}
				// price(t) = 1.2 * oracle * (T0 - t) / T0, T0 = trunc(A2 / 0.3); premium p is reached at t = T0 * (0.2 + p/100) / 1.2
				t0 := c.A2 * 10 / 3
				tp := (t0*(20+p) + 119) / 120
				cur = r.execB(w, cur, "Block", map[string]interface{}{"dt": tp})
				for j := 0; j < 3; j++ {
					cur = r.execB(w, cur, "Block", map[string]interface{}{"dt": int64(1)})
				}
			}
		}
		for i := 0; i < steps; i++ {
			st := r.preOf(cur)
			args := map[string]interface{}{"coll": int64(AssetAtom), "debt": int64(AssetCmst)}
			var a string
			wts := []int{6, 3, 8, 4, 1}
			if len(st.Dep) == 0 {
				wts[1], wts[2] = 1, 1
			}
			if len(st.Dutch) >= 2 {
				wts[4] = 0
			}
			if len(st.Dutch) == 0 {
				wts[3] = 1
				wts[4] = 3
			}
			switch rng.Weighted(wts) {
			case 0:
				a = "Deposit"
				args["u"], args["prem"], args["denom"] = rng.PickS(Users), prems[rng.Pick(len(prems))], "ucmst"
				amt := rng.PickI64([]int64{1, 7, 10, 25, 40, 44, 60})
				if len(st.Dutch) > 0 && rng.Pick(3) == 0 {
					amt = st.Dutch[rng.Pick(len(st.Dutch))].Debt + rng.PickI64([]int64{-5, 0, 0, 5}) // around the remaining debt
					if amt <= 0 {
						amt = 1
					}
				}
				args["amt"] = amt
				if rng.Pick(15) == 0 {
					args["denom"] = rng.PickS([]string{"uatom", "uother"})
				}
				if rng.Pick(20) == 0 {
					args["prem"] = int64(31)
				}
			case 1:
				a = "Cancel"
				if len(st.Dep) > 0 && rng.Pick(5) != 0 {
					d := st.Dep[rng.Pick(len(st.Dep))]
					args["u"], args["prem"] = d.U, d.Prem
					if rng.Pick(6) == 0 {
						args["u"] = rng.PickS(Users) // somebody else's key
					}
				} else {
					args["u"], args["prem"] = rng.PickS(Users), prems[rng.Pick(len(prems))]
				}
			case 2:
				a = "Withdraw"
				var dep int64
				if len(st.Dep) > 0 && rng.Pick(8) != 0 {
					d := st.Dep[rng.Pick(len(st.Dep))]
					args["u"], args["prem"] = d.U, d.Prem
					dep = d.Amt
					if rng.Pick(8) == 0 {
						args["u"] = rng.PickS(Users)
					}
				} else {
					args["u"], args["prem"] = rng.PickS(Users), prems[rng.Pick(len(prems))]
				}
				cand := []int64{1, dep / 2, dep - 1, dep, dep, dep + 1, dep + 10, 900}
				amt := cand[rng.Pick(len(cand))]
				if amt <= 0 {
					amt = 1
				}
				args["amt"] = amt
				args["denom"] = "ucmst"
				if rng.Pick(5) == 0 {
					args["denom"] = rng.PickS([]string{"uatom", "uother"})
				}
			case 3:
				a, args = "Block", map[string]interface{}{"dt": rng.PickI64([]int64{1, 3, 5, 7, 11, 20})}
			case 4:
				a, args = "OpenDutch", map[string]interface{}{"collAmt": rng.PickI64([]int64{30, 50, 80}), "debtAmt": rng.PickI64([]int64{20, 40, 60})}
			}
			cur = r.execB(w, cur, a, args)
		}
	}
}
