package english

import (
	"encoding/json"
	"flag"
	"fmt"
	"os"
	"time"

	"vh/sim"
)

func pj(v interface{}) string { b, _ := json.Marshal(v); return string(b) }

func probe() int {
	// --- V2 surplus lifecycle
	c := DefaultCfg()
	w := NewWorld(c)
	fmt.Println("init   ", pj(w.ProjectA()))
	br := w.Block(6)
	fmt.Println("block  ", br, pj(w.ProjectA()))
	r := w.BidV2("u1", 1, 5, "uharbor")
	fmt.Println("bid u1 5", r.OK, r.Err, pj(w.ProjectA()))
	r = w.BidV2("u2", 1, 5, "uharbor")
	fmt.Println("bid u2 5", r.OK, r.Err)
	r = w.BidV2("u2", 1, 6, "uharbor")
	fmt.Println("bid u2 6", r.OK, r.Err, pj(w.ProjectA()))
	br = w.Block(201)
	fmt.Println("block  ", br, pj(w.ProjectA()))
	// --- V1 surplus lifecycle
	w = NewWorld(c)
	p, ps := w.HookV1()
	fmt.Println("hookv1 ", p, ps, pj(w.ProjectA()))
	r = w.BidV1Surplus("u1", 1, 5, "uharbor")
	fmt.Println("bid u1 5", r.OK, r.Err, pj(w.ProjectA()))
	r = w.BidV1Surplus("u2", 1, 5, "uharbor")
	fmt.Println("bid u2 5", r.OK, r.Err)
	r = w.BidV1Surplus("u2", 1, 6, "uharbor")
	fmt.Println("bid u2 6", r.OK, r.Err, pj(w.ProjectA()))
	w.Block(31)
	p, ps = w.HookV1()
	fmt.Println("hookv1 ", p, ps, pj(w.ProjectA()))
	// --- V2 debt
	c.Sur, c.Debt, c.Nf0 = false, true, 5
	w = NewWorld(c)
	br = w.Block(6)
	fmt.Println("D2 block  ", br, pj(w.ProjectA()))
	r = w.BidV2("u1", 1, 20, "uharbor")
	fmt.Println("bid u1 20", r.OK, r.Err, pj(w.ProjectA()))
	r = w.BidV2("u2", 1, 17, "uharbor")
	fmt.Println("bid u2 17", r.OK, r.Err)
	r = w.BidV2("u2", 1, 16, "uharbor")
	fmt.Println("bid u2 16", r.OK, r.Err, pj(w.ProjectA()))
	br = w.Block(201)
	fmt.Println("block  ", br, pj(w.ProjectA()))
	// --- V1 debt
	w = NewWorld(c)
	p, ps = w.HookV1()
	fmt.Println("D1 hookv1 ", p, ps, pj(w.ProjectA()))
	r = w.BidV1Debt("u1", 1, 20, "uharbor", 10, "ucmst")
	fmt.Println("bid u1 20", r.OK, r.Err, pj(w.ProjectA()))
	r = w.BidV1Debt("u2", 1, 19, "uharbor", 10, "ucmst")
	fmt.Println("bid u2 19", r.OK, r.Err)
	r = w.BidV1Debt("u2", 1, 18, "uharbor", 10, "ucmst")
	fmt.Println("bid u2 18", r.OK, r.Err, pj(w.ProjectA()))
	w.Block(31)
	p, ps = w.HookV1()
	fmt.Println("hookv1 ", p, ps, pj(w.ProjectA()))
	// --- generic
	c.Debt = false
	w = NewWorld(c)
	fmt.Println("G start", w.StartGeneric(7, 12), pj(w.ProjectA()))
	r = w.BidV2("u1", 1, 11, "ucmst")
	fmt.Println("bid u1 11", r.OK, r.Err)
	r = w.BidV2("u1", 1, 12, "ucmst")
	fmt.Println("bid u1 12", r.OK, r.Err, pj(w.ProjectA()))
	r = w.BidV2("u2", 1, 15, "ucmst")
	fmt.Println("bid u2 15", r.OK, r.Err, pj(w.ProjectA()))
	br = w.Block(201)
	fmt.Println("block  ", br, pj(w.ProjectA()))
	return 0
}

func secDur(s int64) time.Duration { return time.Duration(s) * time.Second }

func Main(args []string) int {
	fs := flag.NewFlagSet("english", flag.ExitOnError)
	mode := fs.String("mode", "run", "run | probe")
	world := fs.String("world", "A", "A (english auctions) | B (limit bids) | C (locker, collector)")
	tfile := fs.String("tfile", "", "TLC transition dump (T lines) of the world's MC_ model")
	out := fs.String("out", "english.ndjson", "output tree log")
	seed := fs.Int64("seed", 1, "seed")
	runs := fs.Int("runs", 20, "seeded behaviours")
	steps := fs.Int("steps", 40, "steps per behaviour")
	fs.Parse(args)
	if *mode == "probe" {
		return probe()
	}
	lg := &sim.Log{}
	edges := 0
	var graphs []*Graph
	if *tfile != "" {
		var err error
		graphs, err = LoadGraphs(*tfile)
		if err != nil {
			fmt.Fprintln(os.Stderr, err)
			return 2
		}
	}
	switch *world {
	case "A":
		edges = WalkA(lg, graphs)
		DriveA(lg, *seed, *runs, *steps)
	default:
		fmt.Fprintln(os.Stderr, "unknown world", *world)
		return 2
	}
	if err := lg.Write(*out); err != nil {
		fmt.Fprintln(os.Stderr, err)
		return 2
	}
	fmt.Printf("english: world=%s graphs=%d edges=%d nodes=%d\n", *world, len(graphs), edges, len(lg.Nodes))
	return 0
}
