package english

import (
	"encoding/json"
	"flag"
	"fmt"
	"os"
	"time"

	"vh/sim"
)

func pj(v interface{}) string { b, _ := json.Marshal(v); return string(b) }

func probe() int {
	c := DefaultCfg()
	c.Sur, c.Nf0, c.A2 = false, -1, 100
	w := NewWorld(c)
	fmt.Println(w.OpenDutch(50, 40))
	fmt.Println(w.LbDeposit("u1", 1, 2, 5, 44, "ucmst").OK, w.LbDeposit("u2", 1, 2, 7, 10, "ucmst").OK)
	last := ""
	for i := 0; i < 110; i++ {
		br := w.Block(1)
		p := w.ProjectB()
		cur := pj(p.Dep) + pj(p.Bal) + fmt.Sprint(p.Total, br.Panic)
		if cur != last {
			for _, a := range w.App.NewaucKeeper.GetAuctions(w.Ctx) {
				fmt.Println(i, a.CollateralTokenAuctionPrice, a.DebtToken, a.CollateralToken)
			}
			fmt.Println(i, cur, pj(p.Held))
		}
		last = cur
	}
	return 0
}

func secDur(s int64) time.Duration { return time.Duration(s) * time.Second }

func Main(args []string) int {
	fs := flag.NewFlagSet("english", flag.ExitOnError)
	mode := fs.String("mode", "run", "run | probe")
	world := fs.String("world", "A", "A (english auctions) | B (limit bids) | C (locker, collector)")
	tfile := fs.String("tfile", "", "TLC transition dump (T lines) of the world's MC_ model")
	out := fs.String("out", "english.ndjson", "output tree log")
	seed := fs.Int64("seed", 1, "seed")
	runs := fs.Int("runs", 20, "seeded behaviours")
	steps := fs.Int("steps", 40, "steps per behaviour")
	fs.Parse(args)
	if *mode == "probe" {
		return probe()
	}
	lg := &sim.Log{}
	edges := 0
	var graphs []*Graph
	if *tfile != "" {
		var err error
		graphs, err = LoadGraphs(*tfile)
		if err != nil {
			fmt.Fprintln(os.Stderr, err)
			return 2
		}
	}
	switch *world {
	case "A":
		edges = WalkA(lg, graphs)
		DriveA(lg, *seed, *runs, *steps)
	case "B":
		edges = WalkB(lg, graphs)
		DriveB(lg, *seed, *runs, *steps)
	case "C":
		edges = WalkC(lg, graphs)
		DriveC(lg, *seed, *runs, *steps)
	default:
		fmt.Fprintln(os.Stderr, "unknown world", *world)
		return 2
	}
	if err := lg.Write(*out); err != nil {
		fmt.Fprintln(os.Stderr, err)
		return 2
	}
	fmt.Printf("english: world=%s graphs=%d edges=%d nodes=%d\n", *world, len(graphs), edges, len(lg.Nodes))
	return 0
}
