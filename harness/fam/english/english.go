package english

import (
	"sort"
	"time"

	sdk "github.com/cosmos/cosmos-sdk/types"

	"github.com/comdex-official/comdex/x/auction"
	auctiontypes "github.com/comdex-official/comdex/x/auction/types"
	auctionsV2types "github.com/comdex-official/comdex/x/auctionsV2/types"
	collectortypes "github.com/comdex-official/comdex/x/collector/types"
	esmtypes "github.com/comdex-official/comdex/x/esm/types"

	"vh/sim"
)

// ---------------------------------------------------------------------------------------------
// World A: projection onto the variables of English.tla
// ---------------------------------------------------------------------------------------------

// Auc is one live English auction (either generation) in the shape of English.tla's auction record.
//
//	kind "surplus": lot = stable units sold, bid = gov units offered (rising), pay = bid
//	kind "debt"   : lot = bid = gov units requested (falling), pay = fixed stable units (the collector lot size)
//	kind "generic": lot = collateral sold, bid = debt units offered (rising), pay = bid
type Auc struct {
	Gen     int64  `json:"gen"`
	Kind    string `json:"kind"`
	ID      int64  `json:"id"`
	Lot     int64  `json:"lot"`
	Bid     int64  `json:"bid"`
	Pay     int64  `json:"pay"`
	Bidder  string `json:"bidder"` // "" = none
	NB      int64  `json:"nb"`     // number of accepted bids so far
	EndT    int64  `json:"endT"`
	BidEndT int64  `json:"bidEndT"`
	LotD    string `json:"lotD"`
	PayD    string `json:"payD"`
	BidD    string `json:"bidD"`
}

type Flags struct {
	Sur    bool `json:"sur"`
	Debt   bool `json:"debt"`
	Dist   bool `json:"dist"`
	Active bool `json:"active"`
}

type StA struct {
	T     int64                       `json:"t"`
	Nf    int64                       `json:"nf"` // net fees (app 1, stable asset)
	NfOK  bool                        `json:"nfFound"`
	Fl    Flags                       `json:"fl"`
	Bal   map[string]map[string]int64 `json:"bal"`
	Auc   []Auc                       `json:"auc"`
	N1    int64                       `json:"n1"` // generation-1 auction id counter
	N2    int64                       `json:"n2"` // generation-2 auction id counter
	Tm    bool                        `json:"tm"`
	Esm   bool                        `json:"esm"` // emergency shutdown of app 1 executed
	Nfo   map[string]int64            `json:"nfo"` // recorded net fees of app 1 in its other assets
	Panic bool                        `json:"panic"`
}

var actorsA = []string{"u1", "u2", "u3", "ext", "col", "a1", "a2"}
var denomsA = []string{"uatom", "ucmst", "uharbor"}

func secs(w *World, t interface{ Unix() int64 }) int64 { return t.Unix() - sim.GenesisTime.Unix() }

func (w *World) ProjectA() StA {
	s := StA{T: w.T(), Bal: w.Balances(actorsA, denomsA), Auc: []Auc{}}
	nf, found := w.App.CollectorKeeper.GetNetFeeCollectedData(w.Ctx, App1, AssetCmst)
	s.NfOK = found
	if found {
		s.Nf = nf.NetFeesCollected.Int64()
	}
	if m, ok := w.App.CollectorKeeper.GetAuctionMappingForApp(w.Ctx, App1, AssetCmst); ok {
		s.Fl = Flags{Sur: m.IsSurplusAuction, Debt: m.IsDebtAuction, Dist: m.IsDistributor, Active: m.IsAuctionActive}
	}
	for _, a := range w.App.AuctionKeeper.GetSurplusAuctions(w.Ctx, App1) {
		s.Auc = append(s.Auc, Auc{Gen: 1, Kind: "surplus", ID: int64(a.AuctionId), Lot: a.SellToken.Amount.Int64(), Bid: a.Bid.Amount.Int64(),
			Pay: a.Bid.Amount.Int64(), Bidder: actorOf(a.Bidder.String()), NB: int64(len(a.BiddingIds)), EndT: secs(w, a.EndTime), BidEndT: secs(w, a.BidEndTime),
			LotD: a.SellToken.Denom, PayD: a.Bid.Denom, BidD: a.Bid.Denom})
	}
	for _, a := range w.App.AuctionKeeper.GetDebtAuctions(w.Ctx, App1) {
		pay := int64(0)
		if len(a.BiddingIds) > 0 {
			pay = a.ExpectedUserToken.Amount.Int64()
		}
		s.Auc = append(s.Auc, Auc{Gen: 1, Kind: "debt", ID: int64(a.AuctionId), Lot: a.ExpectedMintedToken.Amount.Int64(), Bid: a.ExpectedMintedToken.Amount.Int64(),
			Pay: pay, Bidder: actorOf(a.Bidder.String()), NB: int64(len(a.BiddingIds)), EndT: secs(w, a.EndTime), BidEndT: secs(w, a.BidEndTime),
			LotD: a.ExpectedMintedToken.Denom, PayD: a.ExpectedUserToken.Denom, BidD: a.ExpectedMintedToken.Denom})
	}
	for _, a := range w.App.NewaucKeeper.GetAuctions(w.Ctx) {
		if a.AuctionType {
			continue // Dutch
		}
		lv, _ := w.App.NewliqKeeper.GetLockedVault(w.Ctx, a.AppId, a.LockedVaultId)
		bidder := ""
		if a.ActiveBiddingId != 0 {
			if b, err := w.App.NewaucKeeper.GetUserBid(w.Ctx, a.ActiveBiddingId); err == nil {
				bidder = actorOf(b.BidderAddress)
			}
		}
		x := Auc{Gen: 2, ID: int64(a.AuctionId), Bidder: bidder, NB: int64(len(a.BiddingIds)), EndT: secs(w, a.EndTime), BidEndT: secs(w, a.EndTime)}
		switch lv.InitiatorType {
		case "surplus":
			x.Kind, x.Lot, x.Bid, x.Pay = "surplus", a.CollateralToken.Amount.Int64(), a.DebtToken.Amount.Int64(), a.DebtToken.Amount.Int64()
			x.LotD, x.PayD, x.BidD = a.CollateralToken.Denom, a.DebtToken.Denom, a.DebtToken.Denom
		case "debt":
			x.Kind, x.Lot, x.Bid = "debt", a.CollateralToken.Amount.Int64(), a.CollateralToken.Amount.Int64()
			if x.NB > 0 {
				x.Pay = a.DebtToken.Amount.Int64()
			}
			x.LotD, x.PayD, x.BidD = a.CollateralToken.Denom, a.DebtToken.Denom, a.CollateralToken.Denom
		default:
			x.Kind, x.Lot, x.Bid = "generic", a.CollateralToken.Amount.Int64(), a.DebtToken.Amount.Int64()
			if x.NB > 0 {
				x.Pay = x.Bid
			}
			x.LotD, x.PayD, x.BidD = a.CollateralToken.Denom, a.DebtToken.Denom, a.DebtToken.Denom
		}
		s.Auc = append(s.Auc, x)
	}
	sort.SliceStable(s.Auc, func(i, j int) bool {
		if s.Auc[i].Gen != s.Auc[j].Gen {
			return s.Auc[i].Gen < s.Auc[j].Gen
		}
		return s.Auc[i].ID < s.Auc[j].ID
	})
	s.N1 = int64(w.App.AuctionKeeper.GetAuctionID(w.Ctx))
	s.N2 = int64(w.App.NewaucKeeper.GetAuctionID(w.Ctx))
	_, s.Tm = w.App.TokenmintKeeper.GetTokenMint(w.Ctx, App1)
	if es, ok := w.App.EsmKeeper.GetESMStatus(w.Ctx, App1); ok {
		s.Esm = es.Status
	}
	s.Nfo = map[string]int64{}
	for _, as := range []uint64{AssetHarbor, AssetAtom} {
		s.Nfo[Denoms[as]] = 0
		if x, ok := w.App.CollectorKeeper.GetNetFeeCollectedData(w.Ctx, App1, as); ok {
			s.Nfo[Denoms[as]] = x.NetFeesCollected.Int64()
		}
	}
	return s
}

// ---------------------------------------------------------------------------------------------
// World A: actions
// ---------------------------------------------------------------------------------------------

// HookV1 calls the generation-1 begin blocker directly (it is not wired into app.go), like the repository tests.
func (w *World) HookV1() (panicked bool, ps string) {
	defer func() {
		if r := recover(); r != nil {
			panicked, ps = true, sprintf("%v", r)
		}
	}()
	auction.BeginBlocker(w.Ctx, w.App.AuctionKeeper, w.App.AssetKeeper, w.App.CollectorKeeper, w.App.EsmKeeper)
	return
}

func (w *World) BidV1Surplus(u string, id int64, amt int64, denom string) sim.Result {
	return w.Deliver(&auctiontypes.MsgPlaceSurplusBidRequest{AuctionId: uint64(id), Bidder: sim.Addr(u).String(), Amount: coin(denom, amt), AppId: App1, AuctionMappingId: 1})
}

func (w *World) BidV1Debt(u string, id int64, amt int64, denom string, exp int64, expDenom string) sim.Result {
	return w.Deliver(&auctiontypes.MsgPlaceDebtBidRequest{AuctionId: uint64(id), Bidder: sim.Addr(u).String(), Bid: coin(denom, amt),
		ExpectedUserToken: coin(expDenom, exp), AppId: App1, AuctionMappingId: 2})
}

func (w *World) BidV2(u string, id int64, amt int64, denom string) sim.Result {
	return w.Deliver(&auctionsV2types.MsgPlaceMarketBidRequest{AuctionId: uint64(id), Bidder: sim.Addr(u).String(), Amount: coin(denom, amt)})
}

// StartGeneric opens a generation-2 English auction of the "generic" kind (the code's else-branch of
// CloseEnglishAuction: lot to the winner, bid to the external initiator). No message reaches it on the
// unchanged tree (all liquidations are Dutch), so the environment does what MsgLiquidateExternalKeeper does
// for Dutch auctions: escrow the collateral in the auction module and create the locked vault.
func (w *World) StartGeneric(lot, minBid int64) (err error) {
	defer func() {
		if r := recover(); r != nil {
			err = sprintf2err(r)
		}
	}()
	cctx, write := w.Ctx.CacheContext()
	col := coin("uatom", lot)
	if err = w.App.BankKeeper.SendCoinsFromAccountToModule(cctx, sim.Addr(External), auctionsV2types.ModuleName, sdk.NewCoins(col)); err != nil {
		return err
	}
	debt := coin("ucmst", minBid)
	if err = w.App.NewliqKeeper.CreateLockedVault(cctx, 0, 0, sim.Addr(External).String(), col, debt, col, debt, sdk.ZeroDec(), App1, false, "",
		sim.Addr(External).String(), sdk.ZeroInt(), sdk.ZeroInt(), "external", false, true, AssetAtom, AssetCmst); err != nil {
		return err
	}
	write()
	return nil
}

// EsmOn: the app's emergency shutdown is executed (status record set through the esm keeper, like the repository's
// tests; the cool-off end lies far beyond every behaviour so the redemption set-up of x/esm never starts).
func (w *World) EsmOn() {
	w.App.EsmKeeper.SetESMStatus(w.Ctx, esmtypes.ESMStatus{AppId: App1, Executor: sim.Addr(Treasury).String(), Status: true,
		StartTime: w.Ctx.BlockTime(), EndTime: w.Ctx.BlockTime().Add(100000 * time.Hour)})
}

type errS string

func (e errS) Error() string          { return string(e) }
func sprintf2err(r interface{}) error { return errS(sprintf("panic: %v", r)) }

// SeedFees is the environment's stand-in for fee income in world A (world C uses the real vault messages):
// coins enter the collector account together with the record, through the collector keeper's own entry point.
func (w *World) SeedFees(x int64) {
	w.mintTo(nil, collectortypes.ModuleName, coin("ucmst", x))
	must(w.App.CollectorKeeper.UpdateCollector(w.Ctx, App1, AssetCmst, sdk.ZeroInt(), sdk.ZeroInt(), sdk.NewInt(x), sdk.ZeroInt()))
}

// SurplusFund plays a well-behaved distributor contract: ask WasmCheckSurplusRewardQuery, then take that amount.
func (w *World) SurplusFund() (ok bool, amt int64, errS string) {
	c := w.App.CollectorKeeper.WasmCheckSurplusRewardQuery(w.Ctx, App1, AssetCmst)
	amt = c.Amount.Int64()
	if !c.Amount.IsPositive() {
		return false, amt, "nothing to distribute"
	}
	cctx, write := w.Ctx.CacheContext()
	if err := w.App.CollectorKeeper.WasmMsgGetSurplusFund(cctx, App1, AssetCmst, sim.Addr(External), c); err != nil {
		return false, amt, err.Error()
	}
	write()
	return true, amt, ""
}
