// Package liquidity binds spec/liquidity/Liquidity.tla to x/liquidity (C04, C07).
//
// The harness only executes and records: messages go through the msg router (sim.Deliver), blocks
// through the application's End/BeginBlocker; after every step the real state is projected onto the
// variables of Liquidity.tla and written as one tree-log node. Judging is done by TLC (Trace_Liquidity).
package liquidity

import (
	"fmt"
	"sort"
	"time"

	sdkmath "cosmossdk.io/math"
	sdk "github.com/cosmos/cosmos-sdk/types"

	assettypes "github.com/comdex-official/comdex/x/asset/types"
	lkeeper "github.com/comdex-official/comdex/x/liquidity/keeper"
	ltypes "github.com/comdex-official/comdex/x/liquidity/types"

	"vh/sim"
)

const (
	PS       = 10000 // price scale of the log / spec: price = n / PS
	MaxApp   = 2
	MaxPair  = 2
	MaxPool  = 3
	FeeDenom = "ucmdx"
)

var Users = []string{"u1", "u2", "u3", "u4"}
var BaseDenoms = []string{"uaa", "ubb", "ucc", FeeDenom}

// Par mirrors the fields of GenericParams the specification uses (one per app).
type Par struct {
	Fn, Fd   int64 // swap fee rate = Fn/Fd
	Prec     int64
	MaxTicks int64
	PairFee  int64
	PoolFee  int64
	MinDep   int64
	MinPS    int64
	MaxLife  int64 // seconds
	Batch    int64
	MaxPools int64
	Wn, Wd   int64 // withdraw fee rate
}

type World struct {
	Env    *sim.Env
	K      lkeeper.Keeper
	Acct   map[string]sdk.AccAddress // account name -> address (fixed universe)
	Name   map[string]string         // bech32 -> account name
	Denoms []string
	Pars   []Par // index app-1
	// observation ledgers (recorded, never judged here): cumulative matching residue per pair
	Xs map[[2]int64][2]int64 // (app,pair) -> (base excess, quote excess), cumulative over the run
	// the harness's OWN batch clock: per order (app,pair,id) the number of end-of-blocks with a due batch of its app
	// (height % BatchSize = 0, from the configured parameters) that have run since the order was placed
	Og map[[3]int64]int64
}

func decFrac(n, d int64) sdkmath.LegacyDec {
	return sdkmath.LegacyNewDec(n).Quo(sdkmath.LegacyNewDec(d))
}

func DecOfPrice(p int64) sdkmath.LegacyDec { return sdkmath.LegacyNewDecWithPrec(p, 4) }

// OutOfDomain is raised by the projection when the real state leaves the small-number domain of the
// specification (a price that is not a multiple of 1e-4, an amount beyond 2^30): the run ends there.
type OutOfDomain string

// PriceOfDec returns the scaled price.
func PriceOfDec(d sdkmath.LegacyDec) int64 {
	x := d.MulInt64(PS)
	if !x.IsInteger() || x.GT(sdkmath.LegacyNewDec(200000)) {
		panic(OutOfDomain("price not representable at scale 1e4: " + d.String()))
	}
	return x.TruncateInt64()
}

// NewWorld boots the application with 2 apps, 4 assets, small liquidity parameters and funded users.
func NewWorld(pars []Par, rich int64) *World {
	funds := []sim.Fund{}
	for i, u := range Users {
		amt := rich
		if i == 3 {
			amt = 700 // u4 is poor: insufficient-funds paths
		}
		funds = append(funds, sim.Fund{Name: u, Coins: sdk.NewCoins(sdk.NewInt64Coin("uaa", amt), sdk.NewInt64Coin("ubb", amt),
			sdk.NewInt64Coin("ucc", amt), sdk.NewInt64Coin(FeeDenom, amt))})
	}
	e := sim.New(funds)
	w := &World{Env: e, K: e.App.LiquidityKeeper, Acct: map[string]sdk.AccAddress{}, Name: map[string]string{}, Pars: pars, Xs: map[[2]int64][2]int64{}, Og: map[[3]int64]int64{}}
	for _, a := range []struct{ n, d string }{{"AAA", "uaa"}, {"BBB", "ubb"}, {"CCC", "ucc"}, {"CMDX", FeeDenom}} {
		if err := e.App.AssetKeeper.AddAssetRecords(e.Ctx, assettypes.Asset{Name: a.n, Denom: a.d, Decimals: sdk.NewInt(1), IsOnChain: true}); err != nil {
			panic(err)
		}
	}
	for _, n := range []struct{ n, s string }{{"alpha", "alp"}, {"gamma", "gam"}} {
		if err := e.App.AssetKeeper.AddAppRecords(e.Ctx, assettypes.AppData{Name: n.n, ShortName: n.s, MinGovDeposit: sdk.ZeroInt(), GenesisToken: []assettypes.MintGenesisToken{}}); err != nil {
			panic(err)
		}
	}
	w.Denoms = append([]string{}, BaseDenoms...)
	reg := func(name string, a sdk.AccAddress) {
		w.Acct[name] = a
		w.Name[a.String()] = name
	}
	for _, u := range Users {
		reg(u, e.Users[u])
	}
	reg("gesc", ltypes.GlobalEscrowAddress)
	reg("mod", sim.ModAddr(ltypes.ModuleName))
	for app := uint64(1); app <= MaxApp; app++ {
		p := pars[app-1]
		gp := ltypes.DefaultGenericParams(app)
		gp.BatchSize = uint64(p.Batch)
		gp.TickPrecision = uint64(p.Prec)
		gp.MinInitialPoolCoinSupply = sdk.NewInt(p.MinPS)
		gp.PairCreationFee = sdk.NewCoins(sdk.NewInt64Coin(FeeDenom, p.PairFee))
		gp.PoolCreationFee = sdk.NewCoins(sdk.NewInt64Coin(FeeDenom, p.PoolFee))
		gp.MinInitialDepositAmount = sdk.NewInt(p.MinDep)
		gp.MaxOrderLifespan = time.Duration(p.MaxLife) * time.Second
		gp.SwapFeeRate = decFrac(p.Fn, p.Fd)
		gp.WithdrawFeeRate = decFrac(p.Wn, p.Wd)
		gp.MaxNumMarketMakingOrderTicks = uint64(p.MaxTicks)
		gp.MaxNumActivePoolsPerPair = uint64(p.MaxPools)
		w.K.SetGenericParams(e.Ctx, gp)
		fc, _ := sdk.AccAddressFromBech32(gp.FeeCollectorAddress)
		dc, _ := sdk.AccAddressFromBech32(gp.DustCollectorAddress)
		reg(fmt.Sprintf("fc_%d", app), fc)
		reg(fmt.Sprintf("dust_%d", app), dc)
		for pr := uint64(1); pr <= MaxPair; pr++ {
			reg(fmt.Sprintf("esc_%d_%d", app, pr), ltypes.PairEscrowAddress(app, pr))
			reg(fmt.Sprintf("fee_%d_%d", app, pr), ltypes.PairSwapFeeCollectorAddress(app, pr))
		}
		for pl := uint64(1); pl <= MaxPool; pl++ {
			reg(fmt.Sprintf("res_%d_%d", app, pl), ltypes.PoolReserveAddress(app, pl))
			w.Denoms = append(w.Denoms, ltypes.PoolCoinDenom(app, pl))
		}
	}
	return w
}

// Branch: a copy of the world on a cache branch of the context (never written back).
func (w *World) Branch() *World {
	n := *w
	n.Env = w.Env.Branch()
	n.Og = map[[3]int64]int64{}
	for k, v := range w.Og {
		n.Og[k] = v
	}
	n.Xs = map[[2]int64][2]int64{}
	for k, v := range w.Xs {
		n.Xs[k] = v
	}
	return &n
}

func (w *World) nameOf(bech string) string {
	if n, ok := w.Name[bech]; ok {
		return n
	}
	return bech
}

func (w *World) T() int64 { return int64(w.Env.Ctx.BlockTime().Sub(sim.GenesisTime) / time.Second) }

type M = map[string]interface{}

func i64(x sdkmath.Int) int64 {
	if !x.IsInt64() || x.Int64() > 1<<30 || x.Int64() < -(1<<30) {
		panic(OutOfDomain("amount outside the small-mode range: " + x.String()))
	}
	return x.Int64()
}

func ostatus(s ltypes.OrderStatus) string {
	switch s {
	case ltypes.OrderStatusNotExecuted:
		return "NE"
	case ltypes.OrderStatusNotMatched:
		return "NM"
	case ltypes.OrderStatusPartiallyMatched:
		return "PM"
	case ltypes.OrderStatusCompleted:
		return "C"
	case ltypes.OrderStatusCanceled:
		return "X"
	case ltypes.OrderStatusExpired:
		return "E"
	}
	return "?"
}

func rstatus(s ltypes.RequestStatus) string {
	switch s {
	case ltypes.RequestStatusNotExecuted:
		return "N"
	case ltypes.RequestStatusSucceeded:
		return "S"
	case ltypes.RequestStatusFailed:
		return "F"
	}
	return "?"
}

// Project reads the real state and returns it in the shape of the specification's state record.
func (w *World) Project() M {
	ctx := w.Env.Ctx
	k := w.K
	pairs, pools, reqs, orders, qf, af, mmx := []M{}, []M{}, []M{}, []M{}, []M{}, []M{}, []M{}
	lastPair, lastPool, pars := []int64{}, []int64{}, []M{}
	pairDen := map[[2]uint64][2]string{}
	for app := uint64(1); app <= MaxApp; app++ {
		p := w.Pars[app-1]
		pars = append(pars, M{"fn": p.Fn, "fd": p.Fd, "prec": p.Prec, "maxTicks": p.MaxTicks, "pairFee": p.PairFee, "poolFee": p.PoolFee,
			"minDep": p.MinDep, "maxLife": p.MaxLife, "batch": p.Batch, "maxPools": p.MaxPools})
		lastPair = append(lastPair, int64(k.GetLastPairID(ctx, app)))
		lastPool = append(lastPool, int64(k.GetLastPoolID(ctx, app)))
		for _, pr := range k.GetAllPairs(ctx, app) {
			lp := int64(0)
			if pr.LastPrice != nil {
				lp = PriceOfDec(*pr.LastPrice)
			}
			pairDen[[2]uint64{app, pr.Id}] = [2]string{pr.BaseCoinDenom, pr.QuoteCoinDenom}
			pairs = append(pairs, M{"app": int64(pr.AppId), "id": int64(pr.Id), "base": pr.BaseCoinDenom, "quote": pr.QuoteCoinDenom,
				"batch": int64(pr.CurrentBatchId), "lastOid": int64(pr.LastOrderId), "lp": lp})
		}
		for _, pl := range k.GetAllPools(ctx, app) {
			pools = append(pools, M{"app": int64(pl.AppId), "id": int64(pl.Id), "pair": int64(pl.PairId), "ranged": pl.Type == ltypes.PoolTypeRanged,
				"disabled": pl.Disabled, "ps": i64(k.GetPoolCoinSupply(ctx, pl)), "lastDep": int64(pl.LastDepositRequestId), "lastWd": int64(pl.LastWithdrawRequestId)})
			for _, q := range k.GetAllQueuedFarmers(ctx, app, pl.Id) {
				qs := []M{}
				for _, c := range q.QueudCoins {
					qs = append(qs, M{"amt": i64(c.FarmedPoolCoin.Amount), "at": int64(c.CreatedAt.Sub(sim.GenesisTime) / time.Second)})
				}
				qf = append(qf, M{"app": int64(q.AppId), "pool": int64(q.PoolId), "owner": w.nameOf(q.Farmer), "q": qs})
			}
			for _, a := range k.GetAllActiveFarmers(ctx, app, pl.Id) {
				af = append(af, M{"app": int64(a.AppId), "pool": int64(a.PoolId), "owner": w.nameOf(a.Farmer), "amt": i64(a.FarmedPoolCoin.Amount)})
			}
		}
		for _, r := range k.GetAllDepositRequests(ctx, app) {
			pl, _ := k.GetPool(ctx, app, r.PoolId)
			d := pairDen[[2]uint64{app, pl.PairId}]
			reqs = append(reqs, M{"kind": "D", "app": int64(r.AppId), "pool": int64(r.PoolId), "id": int64(r.Id), "owner": w.nameOf(r.Depositor),
				"x": i64(r.DepositCoins.AmountOf(d[1])), "y": i64(r.DepositCoins.AmountOf(d[0])), "pc": int64(0),
				"ax": i64(r.AcceptedCoins.AmountOf(d[1])), "ay": i64(r.AcceptedCoins.AmountOf(d[0])), "mint": i64(r.MintedPoolCoin.Amount),
				"wx": int64(0), "wy": int64(0), "status": rstatus(r.Status)})
		}
		for _, r := range k.GetAllWithdrawRequests(ctx, app) {
			pl, _ := k.GetPool(ctx, app, r.PoolId)
			d := pairDen[[2]uint64{app, pl.PairId}]
			reqs = append(reqs, M{"kind": "W", "app": int64(r.AppId), "pool": int64(r.PoolId), "id": int64(r.Id), "owner": w.nameOf(r.Withdrawer),
				"x": int64(0), "y": int64(0), "pc": i64(r.PoolCoin.Amount), "ax": int64(0), "ay": int64(0), "mint": int64(0),
				"wx": i64(r.WithdrawnCoins.AmountOf(d[1])), "wy": i64(r.WithdrawnCoins.AmountOf(d[0])), "status": rstatus(r.Status)})
		}
		for _, o := range k.GetAllOrders(ctx, app) {
			typ := "L"
			switch o.Type {
			case ltypes.OrderTypeMarket:
				typ = "M"
			case ltypes.OrderTypeMM:
				typ = "MM"
			}
			dir := "B"
			if o.Direction == ltypes.OrderDirectionSell {
				dir = "S"
			}
			orders = append(orders, M{"app": int64(o.AppId), "pair": int64(o.PairId), "id": int64(o.Id), "owner": w.nameOf(o.Orderer), "typ": typ, "dir": dir,
				"od": o.OfferCoin.Denom, "dd": o.ReceivedCoin.Denom, "offer": i64(o.OfferCoin.Amount), "rem": i64(o.RemainingOfferCoin.Amount), "recv": i64(o.ReceivedCoin.Amount),
				"amt": i64(o.Amount), "open": i64(o.OpenAmount), "price": PriceOfDec(o.Price), "batch": int64(o.BatchId),
				"exp": int64(o.ExpireAt.Sub(sim.GenesisTime) / time.Second), "status": ostatus(o.Status)})
		}
		for _, ix := range k.GetAllMMOrderIndexes(ctx, app) {
			ids := []int64{}
			for _, id := range ix.OrderIds {
				ids = append(ids, int64(id))
			}
			mmx = append(mmx, M{"app": int64(ix.AppId), "pair": int64(ix.PairId), "owner": w.nameOf(ix.Orderer), "ids": ids})
		}
	}
	bal := M{}
	names := make([]string, 0, len(w.Acct))
	for n := range w.Acct {
		names = append(names, n)
	}
	sort.Strings(names)
	for _, n := range names {
		row := M{}
		for _, c := range w.Env.App.BankKeeper.GetAllBalances(ctx, w.Acct[n]) {
			row[c.Denom] = i64(c.Amount)
		}
		bal[n] = row
	}
	// SDK module invariants, recorded as a cross-check of the projection (Conf_SdkAgree)
	inv := M{}
	for n, f := range map[string]func(lkeeper.Keeper) sdk.Invariant{"dep": lkeeper.DepositCoinsEscrowInvariant, "pc": lkeeper.PoolCoinEscrowInvariant,
		"rem": lkeeper.RemainingOfferCoinEscrowInvariant, "status": lkeeper.PoolStatusInvariant} {
		_, broken := f(k)(ctx)
		inv[n] = broken
	}
	xs := []M{}
	tainted := false
	taint := int64(0) // largest absolute cumulative matching residue over the pairs of this run
	keys := make([][2]int64, 0, len(w.Xs))
	for kk := range w.Xs {
		keys = append(keys, kk)
	}
	sort.Slice(keys, func(i, j int) bool {
		return keys[i][0] < keys[j][0] || (keys[i][0] == keys[j][0] && keys[i][1] < keys[j][1])
	})
	for _, kk := range keys {
		v := w.Xs[kk]
		xs = append(xs, M{"app": kk[0], "pair": kk[1], "xb": v[0], "xq": v[1]})
		if v[0] != 0 || v[1] != 0 {
			tainted = true
		}
		for _, x := range v {
			if x < 0 {
				x = -x
			}
			if x > taint {
				taint = x
			}
		}
	}
	og := []M{}
	for _, o := range orders {
		kk := [3]int64{o["app"].(int64), o["pair"].(int64), o["id"].(int64)}
		og = append(og, M{"app": kk[0], "pair": kk[1], "id": kk[2], "eb": w.Og[kk]})
	}
	for kk := range w.Og { // forget deleted orders
		found := false
		for _, o := range orders {
			if kk == [3]int64{o["app"].(int64), o["pair"].(int64), o["id"].(int64)} {
				found = true
			}
		}
		if !found {
			delete(w.Og, kk)
		}
	}
	return M{"og": og, "h": ctx.BlockHeight(), "t": w.T(), "bal": bal, "pairs": pairs, "pools": pools, "reqs": reqs, "orders": orders, "qf": qf, "af": af,
		"mmx": mmx, "lastPair": lastPair, "lastPool": lastPool, "par": pars, "inv": inv, "xs": xs, "tainted": tainted, "taint": taint}
}

// ---------------------------------------------------------------------------------------------------
// actions

func geti(a M, k string) int64 {
	switch v := a[k].(type) {
	case int64:
		return v
	case int:
		return int64(v)
	case float64:
		return int64(v)
	case interface{ Int64() (int64, error) }:
		n, _ := v.Int64()
		return n
	}
	return 0
}

func gets(a M, k string) string {
	s, _ := a[k].(string)
	return s
}

func (w *World) pairDenoms(app, pair uint64) (base, quote string) {
	p, ok := w.K.GetPair(w.Env.Ctx, app, pair)
	if !ok {
		return "uaa", "ubb"
	}
	return p.BaseCoinDenom, p.QuoteCoinDenom
}

func (w *World) poolDenoms(app, pool uint64) (base, quote string) {
	p, ok := w.K.GetPool(w.Env.Ctx, app, pool)
	if !ok {
		return "uaa", "ubb"
	}
	return w.pairDenoms(app, p.PairId)
}

func coins2(qd string, x int64, bd string, y int64) sdk.Coins {
	cs := sdk.Coins{}
	if x > 0 {
		cs = cs.Add(sdk.NewInt64Coin(qd, x))
	}
	if y > 0 {
		cs = cs.Add(sdk.NewInt64Coin(bd, y))
	}
	return cs
}

// Msg builds the sdk.Msg of a message action (nil for block actions).
func (w *World) Msg(a string, args M) sdk.Msg {
	u := w.Acct[gets(args, "u")]
	app := uint64(geti(args, "app"))
	switch a {
	case "CreatePair":
		return ltypes.NewMsgCreatePair(app, u, gets(args, "base"), gets(args, "quote"))
	case "CreatePool":
		b, q := w.pairDenoms(app, uint64(geti(args, "pair")))
		return ltypes.NewMsgCreatePool(app, u, uint64(geti(args, "pair")), coins2(q, geti(args, "x"), b, geti(args, "y")))
	case "CreateRangedPool":
		b, q := w.pairDenoms(app, uint64(geti(args, "pair")))
		return ltypes.NewMsgCreateRangedPool(app, u, uint64(geti(args, "pair")), coins2(q, geti(args, "x"), b, geti(args, "y")),
			DecOfPrice(geti(args, "min")), DecOfPrice(geti(args, "max")), DecOfPrice(geti(args, "init")))
	case "Deposit":
		b, q := w.poolDenoms(app, uint64(geti(args, "pool")))
		return ltypes.NewMsgDeposit(app, u, uint64(geti(args, "pool")), coins2(q, geti(args, "x"), b, geti(args, "y")))
	case "DepositAndFarm":
		b, q := w.poolDenoms(app, uint64(geti(args, "pool")))
		return ltypes.NewMsgDepositAndFarm(app, u, uint64(geti(args, "pool")), coins2(q, geti(args, "x"), b, geti(args, "y")))
	case "Withdraw":
		return ltypes.NewMsgWithdraw(app, u, uint64(geti(args, "pool")), sdk.NewInt64Coin(ltypes.PoolCoinDenom(app, uint64(geti(args, "pool"))), geti(args, "pc")))
	case "Farm":
		return ltypes.NewMsgFarm(app, uint64(geti(args, "pool")), u, sdk.NewInt64Coin(ltypes.PoolCoinDenom(app, uint64(geti(args, "pool"))), geti(args, "amt")))
	case "Unfarm":
		return ltypes.NewMsgUnfarm(app, uint64(geti(args, "pool")), u, sdk.NewInt64Coin(ltypes.PoolCoinDenom(app, uint64(geti(args, "pool"))), geti(args, "amt")))
	case "UnfarmAndWithdraw":
		return ltypes.NewMsgUnfarmAndWithdraw(app, uint64(geti(args, "pool")), u, sdk.NewInt64Coin(ltypes.PoolCoinDenom(app, uint64(geti(args, "pool"))), geti(args, "amt")))
	case "LimitOrder", "MarketOrder":
		b, q := w.pairDenoms(app, uint64(geti(args, "pair")))
		dir, od, dd := ltypes.OrderDirectionBuy, q, b
		if gets(args, "dir") == "S" {
			dir, od, dd = ltypes.OrderDirectionSell, b, q
		}
		if x := gets(args, "od"); x != "" { // coins named by the message (default: the pair's)
			od = x
		}
		if x := gets(args, "dd"); x != "" {
			dd = x
		}
		life := time.Duration(geti(args, "life")) * time.Second
		if a == "LimitOrder" {
			return ltypes.NewMsgLimitOrder(app, u, uint64(geti(args, "pair")), dir, sdk.NewInt64Coin(od, geti(args, "offer")), dd,
				DecOfPrice(geti(args, "price")), sdk.NewInt(geti(args, "amt")), life)
		}
		return ltypes.NewMsgMarketOrder(app, u, uint64(geti(args, "pair")), dir, sdk.NewInt64Coin(od, geti(args, "offer")), dd, sdk.NewInt(geti(args, "amt")), life)
	case "MMOrder":
		return ltypes.NewMsgMMOrder(app, u, uint64(geti(args, "pair")),
			DecOfPrice(geti(args, "maxSell")), DecOfPrice(geti(args, "minSell")), sdk.NewInt(geti(args, "sellAmt")),
			DecOfPrice(geti(args, "maxBuy")), DecOfPrice(geti(args, "minBuy")), sdk.NewInt(geti(args, "buyAmt")),
			time.Duration(geti(args, "life"))*time.Second)
	case "CancelOrder":
		return ltypes.NewMsgCancelOrder(app, u, uint64(geti(args, "pair")), uint64(geti(args, "id")))
	case "CancelAll":
		ids := []uint64{}
		switch v := args["pairs"].(type) {
		case []int64:
			for _, x := range v {
				ids = append(ids, uint64(x))
			}
		case []interface{}:
			for _, x := range v {
				ids = append(ids, uint64(geti(M{"x": x}, "x")))
			}
		}
		return ltypes.NewMsgCancelAllOrders(app, u, ids)
	case "CancelMM":
		return ltypes.NewMsgCancelMMOrder(app, u, uint64(geti(args, "pair")))
	}
	panic("unknown action " + a)
}

// Exec executes one action on the real code and returns the recorded result.
func (w *World) Exec(a string, args M) M {
	switch a {
	case "EndBlock":
		pre := w.Project()
		br := sim.EndBlockOn(w.Env.App, w.Env.Ctx)
		w.observeMatch(pre, w.Project())
		for _, o := range pre["orders"].([]M) { // own clock: every order placed before this end-of-block has seen one more due batch
			app := o["app"].(int64)
			if w.Env.Ctx.BlockHeight()%w.Pars[app-1].Batch == 0 {
				w.Og[[3]int64{app, o["pair"].(int64), o["id"].(int64)}]++
			}
		}
		return M{"ok": !br.Panic, "panic": br.Panic, "err": br.Err}
	case "BeginBlock":
		dt := time.Duration(geti(args, "dt")) * time.Second
		w.Env.Height++
		w.Env.Time = w.Env.Time.Add(dt)
		hdr := w.Env.Ctx.BlockHeader()
		hdr.Height = w.Env.Height
		hdr.Time = w.Env.Time
		w.Env.Ctx = w.Env.Ctx.WithBlockHeader(hdr)
		br := sim.BeginBlockOn(w.Env.App, w.Env.Ctx)
		return M{"ok": !br.Panic, "panic": br.Panic, "err": br.Err}
	}
	r := w.Env.Deliver(w.Msg(a, args))
	return M{"ok": r.OK, "code": r.Code, "err": r.Err, "panic": r.Panic}
}

// observeMatch records the residue of the batch-matching step per pair (what takers received minus what
// makers paid, from the order records, pool reserves and dust collector): an observation used to key the
// known amm non-conservation finding; TLC re-derives the same quantity from the two states (Conf_Residue).
func (w *World) observeMatch(pre, post M) {
	ord := func(st M) map[[3]int64]M {
		m := map[[3]int64]M{}
		for _, o := range st["orders"].([]M) {
			m[[3]int64{o["app"].(int64), o["pair"].(int64), o["id"].(int64)}] = o
		}
		return m
	}
	po, qo := ord(pre), ord(post)
	bal := func(st M, acct, d string) int64 {
		row := st["bal"].(M)[acct].(M)
		if v, ok := row[d]; ok {
			return v.(int64)
		}
		return 0
	}
	preReq := map[[4]interface{}]string{}
	for _, r := range pre["reqs"].([]M) {
		preReq[[4]interface{}{r["kind"], r["app"], r["pool"], r["id"]}] = r["status"].(string)
	}
	for _, p := range post["pairs"].([]M) {
		app, id := p["app"].(int64), p["id"].(int64)
		base, quote := p["base"].(string), p["quote"].(string)
		var xb, xq int64
		for k3, o := range po {
			if k3[0] != app || k3[1] != id {
				continue
			}
			n, ok := qo[k3]
			if !ok {
				continue
			}
			paid := o["rem"].(int64) - n["rem"].(int64)
			recv := n["recv"].(int64) - o["recv"].(int64)
			if o["dir"].(string) == "S" {
				xb -= paid
				xq += recv
			} else {
				xq -= paid
				xb += recv
			}
		}
		for _, pl := range post["pools"].([]M) {
			if pl["app"].(int64) != app || pl["pair"].(int64) != id {
				continue
			}
			res := fmt.Sprintf("res_%d_%d", app, pl["id"].(int64))
			db := bal(post, res, base) - bal(pre, res, base)
			dq := bal(post, res, quote) - bal(pre, res, quote)
			for _, r := range post["reqs"].([]M) {
				if r["app"].(int64) != app || r["pool"].(int64) != pl["id"].(int64) || r["status"].(string) != "S" {
					continue
				}
				if preReq[[4]interface{}{r["kind"], r["app"], r["pool"], r["id"]}] != "N" {
					continue
				}
				db += r["wy"].(int64) - r["ay"].(int64)
				dq += r["wx"].(int64) - r["ax"].(int64)
			}
			xb += db
			xq += dq
		}
		// the fixture's pairs of one app have different quote denoms, so the dust delta in the quote denom belongs to this pair
		dust := fmt.Sprintf("dust_%d", app)
		xq += bal(post, dust, quote) - bal(pre, dust, quote)
		if xb != 0 || xq != 0 {
			c := w.Xs[[2]int64{app, id}]
			w.Xs[[2]int64{app, id}] = [2]int64{c[0] + xb, c[1] + xq}
		}
	}
}
