package liquidity

import (
	"bufio"
	"crypto/sha256"
	"encoding/hex"
	"encoding/json"
	"flag"
	"fmt"
	"os"
	"sort"
	"strings"

	"vh/sim"
)

// DefaultPars: app 1 = default fee 0.3 %, every block a batch; app 2 = 10 % fee (large reserves, visible
// truncation), batch every 2nd block. Tick precision 3 keeps every tick price representable at scale 1e4.
func DefaultPars() []Par {
	return []Par{
		{Fn: 3, Fd: 1000, Prec: 3, MaxTicks: 3, PairFee: 50, PoolFee: 70, MinDep: 1000, MinPS: 1000, MaxLife: 86400, Batch: 1, MaxPools: 2, Wn: 0, Wd: 1},
		{Fn: 1, Fd: 10, Prec: 3, MaxTicks: 4, PairFee: 30, PoolFee: 40, MinDep: 500, MinPS: 100, MaxLife: 3600, Batch: 2, MaxPools: 3, Wn: 1, Wd: 100},
	}
}

type runner struct {
	lg      *sim.Log
	w       *World
	run     string
	cur     int                // current node id
	st      M                  // projection at cur
	n       int                // steps executed
	nominal map[[2]int64]int64 // nominal price level of a pair in this run (default 1.0 / 2.0; some runs trade far below 1)
	dead    bool               // the run left the specification's number domain (recorded on stdout, not judged)
}

var outOfDomain = 0

func newRunner(lg *sim.Log, base *World, run string) *runner {
	r := &runner{lg: lg, w: base.Branch(), run: run}
	r.st = r.w.Project()
	r.cur = lg.Add(0, run, "Init", M{}, M{"ok": true}, r.st)
	return r
}

func (r *runner) fork(run string) *runner {
	n := *r
	n.w = r.w.Branch()
	n.run = run
	return &n
}

func (r *runner) step(a string, args M) (res M) {
	if r.dead {
		r.n++
		return M{"ok": false}
	}
	defer func() {
		if x := recover(); x != nil {
			if _, ok := x.(OutOfDomain); ok {
				r.dead = true
				outOfDomain++
				res = M{"ok": false}
				return
			}
			panic(x)
		}
	}()
	if args == nil {
		args = M{}
	}
	// recorded context for narrow known-finding keys (observations, not verdicts)
	switch a {
	case "MMOrder", "CancelMM":
		args["idsDiffer"] = geti(args, "app") != geti(args, "pair")
	case "CancelOrder":
		x := r.w.Xs[[2]int64{geti(args, "app"), geti(args, "pair")}]
		args["pairResidue"] = x[0] // cumulative base residue of the batch matching in this pair (0 = conserving so far)
	}
	res = r.w.Exec(a, args)
	r.st = r.w.Project()
	r.cur = r.lg.Add(r.cur, r.run, a, args, res, r.st)
	r.n++
	return res
}

func (r *runner) block(dt int64) {
	r.step("EndBlock", M{})
	r.step("BeginBlock", M{"dt": dt})
}

// ---------------------------------------------------------------------------------------------------
// random multi-actor driver

var amtGrid = []int64{100, 101, 150, 333, 999, 1000, 2401, 5000, 120, 200}
var badAmt = []int64{1, 99}

func (r *runner) orders(pred func(o M) bool) []M {
	out := []M{}
	for _, o := range r.st["orders"].([]M) {
		if pred(o) {
			out = append(out, o)
		}
	}
	return out
}

func live(o M) bool {
	s := o["status"].(string)
	return s == "NE" || s == "NM" || s == "PM"
}

func (r *runner) balOf(acct, d string) int64 {
	row := r.st["bal"].(M)[acct].(M)
	if v, ok := row[d]; ok {
		return v.(int64)
	}
	return 0
}

// priceNear picks a price around the pair's last price (or its nominal centre), sometimes off-tick, sometimes out of range.
func priceNear(rng *sim.Rng, centre int64) int64 {
	switch x := rng.Intn(20); {
	case x < 12:
		offs := []int64{-500, -300, -200, -100, -50, 0, 0, 50, 100, 200, 300, 500}
		return centre + offs[rng.Intn(len(offs))]*centre/10000
	case x < 15:
		return centre + int64(rng.Intn(1200)) - 600 // arbitrary, mostly off tick
	case x < 17:
		return centre * 9 / 10
	case x < 19:
		return centre * 11 / 10
	default:
		return centre * int64(7+rng.Intn(8)) / 10 // possibly out of the +-10% range
	}
}

func (r *runner) centre(app, pair int64) int64 {
	for _, p := range r.st["pairs"].([]M) {
		if p["app"].(int64) == app && p["id"].(int64) == pair && p["lp"].(int64) > 0 {
			return p["lp"].(int64)
		}
	}
	if v, ok := r.nominal[[2]int64{app, pair}]; ok {
		return v
	}
	if pair == 2 {
		return 20000
	}
	return 10000
}

type cfg struct {
	apps    []int64 // apps used in this run
	pairsOf map[int64][]int64
	pools   bool
	mm      bool
}

// poolsOf returns the ids of the app's pools (enabled first when wantEnabled).
func (r *runner) poolsOf(app int64) (all, enabled []int64) {
	for _, p := range r.st["pools"].([]M) {
		if p["app"].(int64) == app {
			all = append(all, p["id"].(int64))
			if !p["disabled"].(bool) {
				enabled = append(enabled, p["id"].(int64))
			}
		}
	}
	return
}

func (r *runner) farmedBy(u string, app, pool int64) int64 {
	var tot int64
	for _, q := range r.st["qf"].([]M) {
		if q["app"].(int64) == app && q["pool"].(int64) == pool && q["owner"].(string) == u {
			for _, c := range q["q"].([]M) {
				tot += c["amt"].(int64)
			}
		}
	}
	for _, q := range r.st["af"].([]M) {
		if q["app"].(int64) == app && q["pool"].(int64) == pool && q["owner"].(string) == u {
			tot += q["amt"].(int64)
		}
	}
	return tot
}

func (r *runner) randomStep(rng *sim.Rng, c cfg) {
	u := Users[rng.Weighted([]int{5, 5, 4, 1})]
	app := c.apps[rng.Intn(len(c.apps))]
	prs := c.pairsOf[app]
	pair := prs[rng.Intn(len(prs))]
	if rng.Intn(40) == 0 {
		pair = 3 // nonexistent
	}
	pool := int64(1 + rng.Intn(2))
	if all, en := r.poolsOf(app); len(all) > 0 && rng.Intn(12) != 0 {
		pool = all[rng.Intn(len(all))]
		if len(en) > 0 && rng.Intn(4) != 0 {
			pool = en[rng.Intn(len(en))]
		}
	}
	if rng.Intn(30) == 0 {
		pool = 3
	}
	w := []int{ // weights
		18, // 0 limit
		6,  // 1 market
		5,  // 2 mm
		8,  // 3 cancel
		3,  // 4 cancel all
		4,  // 5 cancel mm
		3,  // 6 create pool
		2,  // 7 create ranged
		5,  // 8 deposit
		4,  // 9 withdraw
		4,  // 10 farm
		4,  // 11 unfarm
		3,  // 12 deposit and farm
		3,  // 13 unfarm and withdraw
		22, // 14 block
	}
	if !c.pools {
		for _, i := range []int{6, 7, 8, 9, 10, 11, 12, 13} {
			w[i] = 0
		}
	}
	if !c.mm {
		w[2], w[5] = 0, 0
	}
	amt := amtGrid[rng.Intn(len(amtGrid))]
	if rng.Intn(30) == 0 {
		amt = badAmt[rng.Intn(len(badAmt))]
	}
	maxLife := r.w.Pars[app-1].MaxLife
	life := []int64{0, 6, 60, 600, maxLife, maxLife, 3000, maxLife + 1}[rng.Intn(8)]
	if life > maxLife && rng.Intn(3) != 0 {
		life = maxLife / 2
	}
	ctr := r.centre(app, pair)
	if ctr < 5000 { // far below 1: amounts large enough to be worth the minimum order value
		amt *= 4
	}
	if r.st["lastPool"].([]int64)[app-1] >= MaxPool { // the fixture's account universe has MaxPool reserves per app
		w[6], w[7] = 0, 0
	}
	switch rng.Weighted(w) {
	case 0, 1:
		dir := "B"
		if rng.Intn(2) == 0 {
			dir = "S"
		}
		par := r.w.Pars[app-1]
		lp := r.lastPrice(app, pair)
		market := rng.Intn(4) == 0 && (lp > 0 || rng.Intn(5) == 0)
		price := priceNear(rng, ctr)
		eff := tickDownP(price, par.Prec) // the price the handler will give the order
		if dir == "S" {
			eff = tickUpP(price, par.Prec)
		}
		if market && lp > 0 {
			eff = limHi(lp, par.Prec)
			if dir == "S" {
				eff = limLo(lp, par.Prec)
			}
		}
		if rng.Intn(5) < 2 { // rounding / fee-step boundary amounts for this price and this app's fee rate
			amt = boundaryAmt(rng, dir, eff, par)
		}
		offer := amt
		if dir == "B" {
			offer = (eff*amt + PS - 1) / PS
		}
		need := offer + offer*par.Fn/par.Fd
		switch rng.Intn(6) {
		case 0:
			offer = need // exactly offer coin + reserve
		case 1:
			offer = need + 1
		case 2:
			offer = need - 1 // one short of the reserve
		default:
			offer = need + need/10 + int64(rng.Intn(40))
		}
		if !market && dir == "B" && price != eff {
			offer += (price-eff)*amt/PS + 1 // ValidateBasic sizes the offer with the unrounded price
		}
		if offer < 100 {
			offer = 100
		}
		args := M{"u": u, "app": app, "pair": pair, "dir": dir, "amt": amt, "offer": offer, "life": life}
		if !market {
			args["price"] = price
		}
		if rng.Intn(14) == 0 { // coins that do not belong to the pair
			od, dd := r.foreignCoins(rng, app, pair, dir)
			args["od"], args["dd"] = od, dd
		}
		if market {
			r.step("MarketOrder", args)
		} else {
			r.step("LimitOrder", args)
		}
	case 2:
		tick := func(p int64) int64 { // round to 3 significant digits +1 (prec 3 => 4 digits)
			u := int64(1)
			for q := p; q >= 10000; q /= 10 {
				u *= 10
			}
			return p / u * u
		}
		lo, hi := tick(ctr*95/100), tick(ctr*105/100)
		if rng.Intn(10) == 0 {
			lo += 3 // likely off tick at 5 digits
		}
		mid := tick(ctr)
		sellAmt, buyAmt := amt*2, amtGrid[rng.Intn(len(amtGrid))]*2
		switch rng.Intn(4) {
		case 0:
			sellAmt = 0
		case 1:
			buyAmt = 0
		}
		loS := mid
		if rng.Intn(3) == 0 { // single-tick sides with amounts on the rounding boundary of that tick price
			lo, hi = mid, mid
			if buyAmt > 0 {
				buyAmt = boundaryAmt(rng, "B", mid, r.w.Pars[app-1])
			}
			if sellAmt > 0 {
				sellAmt = boundaryAmt(rng, "S", mid, r.w.Pars[app-1])
			}
		}
		r.step("MMOrder", M{"u": u, "app": app, "pair": pair, "sellAmt": sellAmt, "minSell": loS, "maxSell": hi,
			"buyAmt": buyAmt, "minBuy": lo, "maxBuy": mid, "life": life})
	case 3:
		os := r.orders(func(o M) bool { return o["app"].(int64) == app })
		if len(os) == 0 {
			r.step("CancelOrder", M{"u": u, "app": app, "pair": pair, "id": int64(1 + rng.Intn(3))})
			return
		}
		o := os[rng.Intn(len(os))]
		if lv := r.orders(func(o M) bool { return o["app"].(int64) == app && live(o) }); len(lv) > 0 && rng.Intn(4) != 0 {
			o = lv[rng.Intn(len(lv))]
		}
		who := o["owner"].(string)
		if rng.Intn(8) == 0 {
			who = u // possibly a foreign signer
		}
		if _, ok := r.w.Acct[who]; !ok {
			who = u
		}
		r.step("CancelOrder", M{"u": who, "app": app, "pair": o["pair"].(int64), "id": o["id"].(int64)})
	case 4:
		var ps []int64
		switch rng.Intn(3) {
		case 0:
			ps = []int64{}
		case 1:
			ps = []int64{pair}
		default:
			ps = []int64{1, 2}
		}
		r.step("CancelAll", M{"u": u, "app": app, "pairs": ps})
	case 5:
		// prefer an owner that has an MM index
		for _, ix := range r.st["mmx"].([]M) {
			if ix["app"].(int64) == app && rng.Intn(2) == 0 {
				if _, ok := r.w.Acct[ix["owner"].(string)]; ok {
					u, pair = ix["owner"].(string), ix["pair"].(int64)
					break
				}
			}
		}
		r.step("CancelMM", M{"u": u, "app": app, "pair": pair})
	case 6:
		x := []int64{1000, 5000, 20000, 400, 100000}[rng.Intn(5)]
		y := x * PS / ctr
		if rng.Intn(4) == 0 {
			y = y * int64(85+rng.Intn(31)) / 100 // pool price within +-15% of the book
		}
		r.step("CreatePool", M{"u": u, "app": app, "pair": pair, "x": x, "y": y})
	case 7:
		x := []int64{2000, 10000, 50000, 0}[rng.Intn(4)]
		y := []int64{2000, 10000, 50000, 0}[rng.Intn(4)]
		lo, hi := ctr*8/10/100*100, ctr*12/10/100*100
		ini := []int64{ctr / 100 * 100, lo, hi, ctr * 9 / 10 / 100 * 100}[rng.Intn(4)]
		r.step("CreateRangedPool", M{"u": u, "app": app, "pair": pair, "x": x, "y": y, "min": lo, "max": hi, "init": ini})
	case 8:
		x := []int64{100, 1000, 3333, 10000, 1, 0}[rng.Intn(6)]
		y := []int64{100, 1000, 3333, 10000, 1, 0}[rng.Intn(6)]
		if x == 0 && y == 0 {
			x = 500
		}
		r.step("Deposit", M{"u": u, "app": app, "pool": pool, "x": x, "y": y})
	case 9:
		for _, cand := range Users { // prefer a holder of the pool coin
			if r.balOf(cand, fmt.Sprintf("pool%d-%d", app, pool)) > 0 && rng.Intn(3) != 0 {
				u = cand
				break
			}
		}
		pc := r.balOf(u, fmt.Sprintf("pool%d-%d", app, pool))
		switch rng.Intn(6) {
		case 0: // everything
		case 1:
			pc = pc / 2
		case 2:
			pc = pc / 10
		case 3, 4:
			pc = int64(1 + rng.Intn(3)) // worth nothing: the request fails at the end of the batch and is refunded
		default:
			pc = pc + 1 // more than owned
		}
		if pc <= 0 {
			pc = 1
		}
		r.step("Withdraw", M{"u": u, "app": app, "pool": pool, "pc": pc})
	case 10:
		for _, cand := range Users {
			if r.balOf(cand, fmt.Sprintf("pool%d-%d", app, pool)) > 0 && rng.Intn(3) != 0 {
				u = cand
				break
			}
		}
		pc := r.balOf(u, fmt.Sprintf("pool%d-%d", app, pool))
		a := []int64{pc, pc / 2, pc / 3, 1, pc + 1}[rng.Intn(5)]
		if a <= 0 {
			a = 1
		}
		r.step("Farm", M{"u": u, "app": app, "pool": pool, "amt": a})
	case 11, 13:
		for _, cand := range Users { // prefer a farmer of this pool
			if r.farmedBy(cand, app, pool) > 0 && rng.Intn(4) != 0 {
				u = cand
				break
			}
		}
		tot := r.farmedBy(u, app, pool)
		a := []int64{tot, tot / 2, tot / 3, 1, tot + 1, tot}[rng.Intn(6)]
		if a <= 0 {
			a = 1
		}
		act := "Unfarm"
		if rng.Intn(2) == 0 {
			act = "UnfarmAndWithdraw"
		}
		r.step(act, M{"u": u, "app": app, "pool": pool, "amt": a})
	case 12:
		x := []int64{100, 1000, 3333, 10000, 1}[rng.Intn(5)]
		y := []int64{100, 1000, 3333, 10000, 1}[rng.Intn(5)]
		r.step("DepositAndFarm", M{"u": u, "app": app, "pool": pool, "x": x, "y": y})
	default:
		dt := []int64{6, 6, 6, 6, 6, 60, 3600, 50000, 90000}[rng.Intn(9)]
		r.block(dt)
	}
}

// mmCycle: a market-making order set is placed, partially filled by a smaller crossing order of another user,
// and then replaced or cancelled by its owner (the "earlier MM orders" of C07 in all their states).
func (r *runner) mmCycle(rng *sim.Rng, c cfg) {
	app := c.apps[rng.Intn(len(c.apps))]
	prs := c.pairsOf[app]
	pair := prs[rng.Intn(len(prs))]
	for _, p := range prs { // prefer app id = pair id half of the time (the other half exercises the id-exchange axis)
		if p == app && rng.Intn(2) == 0 {
			pair = p
		}
	}
	ctr := r.centre(app, pair)
	tick := func(p int64) int64 {
		u := int64(1)
		for q := p; q >= 10000; q /= 10 {
			u *= 10
		}
		return p / u * u
	}
	owner, other := Users[rng.Intn(3)], Users[rng.Intn(3)]
	for other == owner {
		other = Users[rng.Intn(3)]
	}
	life := r.w.Pars[app-1].MaxLife
	amt := []int64{600, 1000, 2000}[rng.Intn(3)]
	mid := tick(ctr)
	r.step("MMOrder", M{"u": owner, "app": app, "pair": pair, "sellAmt": amt, "minSell": mid, "maxSell": tick(ctr * 103 / 100),
		"buyAmt": amt, "minBuy": tick(ctr * 97 / 100), "maxBuy": mid, "life": life})
	r.block(6)
	// a smaller crossing order: buys from the cheapest sell tick / sells into the highest buy tick
	q := amt / 7
	if q < 100 {
		q = 100
	}
	if rng.Intn(2) == 0 {
		price := tick(ctr * 102 / 100)
		offer := (price*q+PS-1)/PS*12/10 + 2
		r.step("LimitOrder", M{"u": other, "app": app, "pair": pair, "dir": "B", "price": price, "amt": q, "offer": offer, "life": life})
	} else {
		price := tick(ctr * 98 / 100)
		r.step("LimitOrder", M{"u": other, "app": app, "pair": pair, "dir": "S", "price": price, "amt": q, "offer": q + q/5 + 1, "life": life})
	}
	r.block(6)
	if r.w.Pars[app-1].Batch > 1 {
		r.block(6)
	}
	switch rng.Intn(3) {
	case 0:
		r.step("CancelMM", M{"u": owner, "app": app, "pair": pair})
	case 1:
		r.step("MMOrder", M{"u": owner, "app": app, "pair": pair, "sellAmt": amt / 2, "minSell": mid, "maxSell": tick(ctr * 102 / 100),
			"buyAmt": int64(0), "minBuy": int64(0), "maxBuy": int64(0), "life": life})
	default:
		r.step("MMOrder", M{"u": owner, "app": app, "pair": pair, "sellAmt": amt, "minSell": tick(ctr * 101 / 100), "maxSell": tick(ctr * 104 / 100),
			"buyAmt": amt, "minBuy": tick(ctr * 96 / 100), "maxBuy": tick(ctr * 99 / 100), "life": life})
	}
}

// tick arithmetic of amm/tick.go at an integer price scale (same as TickDown / TickUp / LimLo / LimHi of Liquidity.tla)
func tickUnit(p, prec int64) int64 {
	d := int64(0)
	for q := p; q > 0; q /= 10 {
		d++
	}
	u := int64(1)
	for k := d - 1 - prec; k > 0; k-- {
		u *= 10
	}
	return u
}
func tickDownP(p, prec int64) int64 { u := tickUnit(p, prec); return p / u * u }
func tickUpP(p, prec int64) int64 {
	d := tickDownP(p, prec)
	if d == p {
		return p
	}
	return d + tickUnit(d, prec)
}
func limLo(l, prec int64) int64 { return tickUpP(9*l, prec) / 10 }
func limHi(l, prec int64) int64 { return tickDownP(11*l, prec) / 10 }

// boundaryAmt picks an order amount on the rounding and fee-step boundaries of the handler arithmetic for order
// price p: for a buy, price*amount is fractional and its rounded-up value (the offer coin) is N-1, N or N+1 for a
// fee step N (floor(N*fee) > floor((N-1)*fee)); for a sell the amount itself is N-1, N or N+1.
func boundaryAmt(rng *sim.Rng, dir string, p int64, par Par) int64 {
	k := int64(1 + rng.Intn(12))
	n := (k*par.Fd + par.Fn - 1) / par.Fn // smallest N with floor(N*fn/fd) = k
	for n < 110 {
		k += int64(1 + rng.Intn(12))
		n = (k*par.Fd + par.Fn - 1) / par.Fn
	}
	n += int64(rng.Intn(3)) - 1
	if dir == "S" || p <= 0 {
		return n
	}
	a := (n*PS - 1) / p // largest amount with price*amount < N: the offer coin rounds up to N (or N-1 when exact)
	if a < 100 {
		a = 100
	}
	return a
}

func (r *runner) lastPrice(app, pair int64) int64 {
	for _, p := range r.st["pairs"].([]M) {
		if p["app"].(int64) == app && p["id"].(int64) == pair {
			return p["lp"].(int64)
		}
	}
	return 0
}

func tickOf(p int64) int64 { // tick precision 3 at scale 1e4
	u := int64(1)
	for q := p; q >= 10000; q /= 10 {
		u *= 10
	}
	return p / u * u
}

func (r *runner) batchOf(app int64) {
	r.block(6)
	if r.w.Pars[app-1].Batch > 1 {
		r.block(6)
	}
}

// ladderCycle: with a last price L in the pair, a market-making BUY ladder reaching above L is placed; a limit sell
// below L of exactly (or a little more than) the top tick's amount fills the top tick COMPLETELY at a price better
// than its own, so the tick ends Completed with unspent offer coin while the lower ticks stay live.
func (r *runner) ladderCycle(rng *sim.Rng, c cfg) {
	app := c.apps[rng.Intn(len(c.apps))]
	prs := c.pairsOf[app]
	pair := prs[rng.Intn(len(prs))]
	life := r.w.Pars[app-1].MaxLife
	hasLp := func() bool {
		for _, p := range r.st["pairs"].([]M) {
			if p["app"].(int64) == app && p["id"].(int64) == pair && p["lp"].(int64) > 0 {
				return true
			}
		}
		return false
	}
	if !hasLp() { // establish a last price
		ctr := tickOf(r.centre(app, pair))
		r.step("LimitOrder", M{"u": "u1", "app": app, "pair": pair, "dir": "B", "price": ctr, "amt": int64(300), "offer": (ctr*300+PS-1)/PS*12/10 + 2, "life": life})
		r.step("LimitOrder", M{"u": "u2", "app": app, "pair": pair, "dir": "S", "price": ctr, "amt": int64(300), "offer": int64(400), "life": life})
		r.batchOf(app)
		if !hasLp() {
			return
		}
	}
	L := r.centre(app, pair)
	owner, other := Users[rng.Intn(3)], Users[rng.Intn(3)]
	for other == owner {
		other = Users[rng.Intn(3)]
	}
	amt := []int64{900, 1500, 3000, 1000}[rng.Intn(4)]
	nt := r.w.Pars[app-1].MaxTicks
	hi := tickOf(L * int64(102+rng.Intn(5)) / 100)
	sellAmt, loS, hiS := int64(0), int64(0), int64(0)
	if rng.Intn(2) == 0 { // two-sided: the sell ticks follow the buy ticks in the maker's order index
		sellAmt, loS, hiS = amt, tickOf(L*107/100), tickOf(L*109/100)
	}
	r.step("MMOrder", M{"u": owner, "app": app, "pair": pair, "sellAmt": sellAmt, "minSell": loS, "maxSell": hiS,
		"buyAmt": amt, "minBuy": tickOf(L * 93 / 100), "maxBuy": hi, "life": life})
	if rng.Intn(2) == 0 {
		r.batchOf(app)
	}
	top := amt - (nt-1)*(amt/nt) // amount of the ladder's highest tick
	q := top
	switch rng.Intn(3) {
	case 0:
		q = top + 100 // the next tick is partially filled as well
	case 1:
		q = top + top/2
	}
	sp := tickOf(L * int64(95+rng.Intn(4)) / 100)
	r.step("LimitOrder", M{"u": other, "app": app, "pair": pair, "dir": "S", "price": sp, "amt": q, "offer": q + q/5 + 1, "life": life})
	r.batchOf(app)
	r.block(6)
	// the completed top tick is deleted by now: the maker's index has a hole in front of the remaining ticks
	switch rng.Intn(3) {
	case 0:
		r.step("CancelMM", M{"u": owner, "app": app, "pair": pair})
	case 1:
		L2 := r.centre(app, pair)
		r.step("MMOrder", M{"u": owner, "app": app, "pair": pair, "sellAmt": int64(0), "minSell": int64(0), "maxSell": int64(0),
			"buyAmt": amt / 2, "minBuy": tickOf(L2 * 94 / 100), "maxBuy": tickOf(L2 * 97 / 100), "life": life})
	}
}

// marketCycle: market orders as first-class citizens. With a last price in the pair, market buy and sell orders
// with boundary amounts are placed (next to a resting bystander order offering the same coin), partially filled,
// and ended in the different ways (expiry, cancel, cancel-all, completion).
func (r *runner) marketCycle(rng *sim.Rng, c cfg) {
	app := c.apps[rng.Intn(len(c.apps))]
	prs := c.pairsOf[app]
	pair := prs[rng.Intn(len(prs))]
	par := r.w.Pars[app-1]
	life := par.MaxLife
	if r.lastPrice(app, pair) == 0 {
		ctr := tickOf(r.centre(app, pair))
		r.step("LimitOrder", M{"u": "u1", "app": app, "pair": pair, "dir": "B", "price": ctr, "amt": int64(300), "offer": (ctr*300+PS-1)/PS*12/10 + 2, "life": life})
		r.step("LimitOrder", M{"u": "u2", "app": app, "pair": pair, "dir": "S", "price": ctr, "amt": int64(300), "offer": int64(400), "life": life})
		r.batchOf(app)
		if r.lastPrice(app, pair) == 0 {
			return
		}
	}
	L := r.lastPrice(app, pair)
	us := []string{"u1", "u2", "u3"}
	rng.Shuffle(len(us), func(i, j int) { us[i], us[j] = us[j], us[i] })
	trader, bystander, maker := us[0], us[1], us[2]
	dir, opp := "B", "S"
	if rng.Intn(3) == 0 {
		dir, opp = "S", "B"
	}
	// bystander: a resting order offering the same coin as the market order, far from the book
	bp, ba := tickOf(L*92/100), int64(2000)
	if dir == "S" {
		bp = tickOf(L * 108 / 100)
	}
	boff := ba + ba/5 + 1
	if dir == "B" {
		boff = (bp*ba+PS-1)/PS*12/10 + 2
	}
	r.step("LimitOrder", M{"u": bystander, "app": app, "pair": pair, "dir": dir, "price": bp, "amt": ba, "offer": boff, "life": life})
	eff := limHi(L, par.Prec)
	if dir == "S" {
		eff = limLo(L, par.Prec)
	}
	amt := boundaryAmt(rng, dir, eff, par)
	// a smaller resting order on the other side at the last price: the market order is partially filled
	if rng.Intn(4) != 0 {
		q := amt / int64(2+rng.Intn(3))
		if q < 100 {
			q = 100
		}
		mp := tickOf(L)
		moff := q + q/5 + 1
		if opp == "B" {
			moff = (mp*q+PS-1)/PS*12/10 + 2
		}
		r.step("LimitOrder", M{"u": maker, "app": app, "pair": pair, "dir": opp, "price": mp, "amt": q, "offer": moff, "life": life})
	}
	offer := amt
	if dir == "B" {
		offer = (eff*amt + PS - 1) / PS
	}
	offer += offer * par.Fn / par.Fd
	if rng.Intn(2) == 0 {
		offer += int64(rng.Intn(30))
	}
	mlife := []int64{0, 6, life, life}[rng.Intn(4)]
	r.step("MarketOrder", M{"u": trader, "app": app, "pair": pair, "dir": dir, "amt": amt, "offer": offer, "life": mlife})
	r.batchOf(app)
	switch rng.Intn(3) {
	case 0:
		for _, o := range r.orders(func(o M) bool {
			return live(o) && o["typ"].(string) == "M" && o["owner"].(string) == trader && o["app"].(int64) == app && o["pair"].(int64) == pair
		}) {
			r.step("CancelOrder", M{"u": trader, "app": app, "pair": pair, "id": o["id"].(int64)})
		}
	case 1:
		r.step("CancelAll", M{"u": trader, "app": app, "pairs": []int64{pair}})
	default:
		r.block(6)
	}
	if rng.Intn(2) == 0 {
		r.step("CancelAll", M{"u": bystander, "app": app, "pairs": []int64{}})
	}
}

// foreignCoins returns an (offer denom, demand denom) combination that does NOT fit the pair for an order of
// direction dir: a third coin as offer with the right demand coin, the right offer coin with a wrong demand coin,
// both wrong, or the pair's coins exchanged.
func (r *runner) foreignCoins(rng *sim.Rng, app, pair int64, dir string) (string, string) {
	base, quote := r.w.pairDenoms(uint64(app), uint64(pair))
	third := "ucc"
	for _, d := range []string{"uaa", "ubb", "ucc"} {
		if d != base && d != quote {
			third = d
		}
	}
	od, dd := quote, base
	if dir == "S" {
		od, dd = base, quote
	}
	switch rng.Intn(4) {
	case 0:
		return third, dd
	case 1:
		return od, third
	case 2:
		return dd, od
	default:
		return third, FeeDenom
	}
}

// foreignCoinCycle: victims rest a buy and a sell order in the pair; an adversary sends limit and market orders of
// both directions whose offer coin is a third coin (right demand coin) or whose demand coin is wrong, priced to
// cross the victims; a batch runs. Every such order must be rejected without change.
func (r *runner) foreignCoinCycle(rng *sim.Rng, c cfg) {
	app := c.apps[rng.Intn(len(c.apps))]
	prs := c.pairsOf[app]
	pair := prs[rng.Intn(len(prs))]
	par := r.w.Pars[app-1]
	life := par.MaxLife
	us := []string{"u1", "u2", "u3"}
	rng.Shuffle(len(us), func(i, j int) { us[i], us[j] = us[j], us[i] })
	adv, v1, v2 := us[0], us[1], us[2]
	L := tickOf(r.centre(app, pair))
	amt := int64(3000)
	if L < 5000 {
		amt = 8000
	}
	bp, sp := tickOf(L*98/100), tickOf(L*102/100)
	r.step("LimitOrder", M{"u": v1, "app": app, "pair": pair, "dir": "B", "price": bp, "amt": amt, "offer": (bp*amt+PS-1)/PS*12/10 + 2, "life": life})
	r.step("LimitOrder", M{"u": v2, "app": app, "pair": pair, "dir": "S", "price": sp, "amt": amt, "offer": amt + amt/5 + 1, "life": life})
	base, quote := r.w.pairDenoms(uint64(app), uint64(pair))
	third := "ucc"
	for _, d := range []string{"uaa", "ubb", "ucc"} {
		if d != base && d != quote {
			third = d
		}
	}
	q := amt / 3
	for _, dir := range []string{"B", "S"} {
		od, dd, price := third, base, tickOf(L*103/100) // crosses the resting sell
		if dir == "S" {
			od, dd, price = third, quote, tickOf(L*97/100) // crosses the resting buy
		}
		offer := q + q/5 + 1
		if dir == "B" {
			offer = (price*q+PS-1)/PS*12/10 + 2
		}
		r.step("LimitOrder", M{"u": adv, "app": app, "pair": pair, "dir": dir, "price": price, "amt": q, "offer": offer, "life": life, "od": od, "dd": dd})
		// right offer coin, wrong demand coin
		od2, dd2 := quote, third
		if dir == "S" {
			od2, dd2 = base, third
		}
		r.step("LimitOrder", M{"u": adv, "app": app, "pair": pair, "dir": dir, "price": price, "amt": q, "offer": offer, "life": life, "od": od2, "dd": dd2})
		if r.lastPrice(app, pair) > 0 {
			r.step("MarketOrder", M{"u": adv, "app": app, "pair": pair, "dir": dir, "amt": q, "offer": offer * 12 / 10, "life": life, "od": od, "dd": dd})
		}
	}
	r.batchOf(app)
}

// refillCycle: a sell order is partially filled in one batch; in a later batch the buy demand exceeds what is left
// of it. Afterwards a fresh order is placed, a batch boundary passes (own clock) and its owner cancels it.
func (r *runner) refillCycle(rng *sim.Rng, c cfg) {
	app := c.apps[rng.Intn(len(c.apps))]
	prs := c.pairsOf[app]
	pair := prs[rng.Intn(len(prs))]
	life := r.w.Pars[app-1].MaxLife
	us := []string{"u1", "u2", "u3"}
	rng.Shuffle(len(us), func(i, j int) { us[i], us[j] = us[j], us[i] })
	seller, b1, b2 := us[0], us[1], us[2]
	P := tickOf(r.centre(app, pair))
	k := int64(1)
	if P < 5000 {
		k = 4
	}
	S := k * []int64{3000, 5000, 10000}[rng.Intn(3)]
	buy := func(u string, amt int64) {
		r.step("LimitOrder", M{"u": u, "app": app, "pair": pair, "dir": "B", "price": P, "amt": amt, "offer": (P*amt+PS-1)/PS*12/10 + 2, "life": life})
	}
	r.step("LimitOrder", M{"u": seller, "app": app, "pair": pair, "dir": "S", "price": P, "amt": S, "offer": S + S/5 + 1, "life": life})
	buy(b1, S*2/5)
	r.batchOf(app)
	buy(b2, S*9/10) // more than the 3/5 that are left, less than the original amount
	r.batchOf(app)
	// a fresh order far from the book, one batch boundary, cancel
	fp := tickOf(P * 93 / 100)
	r.step("LimitOrder", M{"u": b1, "app": app, "pair": pair, "dir": "B", "price": fp, "amt": 500 * k, "offer": (fp*500*k+PS-1)/PS*12/10 + 2, "life": life})
	id := int64(0)
	for _, o := range r.orders(func(o M) bool {
		return live(o) && o["owner"].(string) == b1 && o["app"].(int64) == app && o["pair"].(int64) == pair
	}) {
		if o["id"].(int64) > id {
			id = o["id"].(int64)
		}
	}
	r.batchOf(app)
	if id > 0 {
		r.step("CancelOrder", M{"u": b1, "app": app, "pair": pair, "id": id})
	}
	r.step("CancelAll", M{"u": b2, "app": app, "pairs": []int64{}})
}

// lowResidualCycle (pairs trading far below 1): two sell orders at the same price P above the last price, placed in
// different batches, and a buy at P for a little more than one sell's size, where "a little" is worth less than one
// quote unit (r*P < 1): the batch price rises off the last price and the older sell's batch group gets a residual.
func (r *runner) lowResidualCycle(rng *sim.Rng, c cfg) {
	for _, app := range c.apps {
		for _, pair := range c.pairsOf[app] {
			if r.nominal[[2]int64{app, pair}] == 0 || r.nominal[[2]int64{app, pair}] >= 5000 {
				continue
			}
			life := r.w.Pars[app-1].MaxLife
			if r.lastPrice(app, pair) == 0 {
				ctr := tickOf(r.centre(app, pair))
				r.step("LimitOrder", M{"u": "u1", "app": app, "pair": pair, "dir": "B", "price": ctr, "amt": int64(2000), "offer": (ctr*2000+PS-1)/PS*12/10 + 2, "life": life})
				r.step("LimitOrder", M{"u": "u2", "app": app, "pair": pair, "dir": "S", "price": ctr, "amt": int64(2000), "offer": int64(2500), "life": life})
				r.batchOf(app)
				if r.lastPrice(app, pair) == 0 {
					continue
				}
			}
			L := r.lastPrice(app, pair)
			P := tickOf(L * int64(102+rng.Intn(6)) / 100)
			A := []int64{3000, 5000, 10000}[rng.Intn(3)]
			rr := int64(1 + rng.Intn(int((PS-1)/P)))
			us := []string{"u1", "u2", "u3"}
			rng.Shuffle(len(us), func(i, j int) { us[i], us[j] = us[j], us[i] })
			sell := func(u string, amt int64) {
				r.step("LimitOrder", M{"u": u, "app": app, "pair": pair, "dir": "S", "price": P, "amt": amt, "offer": amt + amt/5 + 1, "life": life})
			}
			sell(us[0], A)
			r.batchOf(app)
			sell(us[1], A)
			amt := A + rr
			r.step("LimitOrder", M{"u": us[2], "app": app, "pair": pair, "dir": "B", "price": P, "amt": amt, "offer": (P*amt+PS-1)/PS*12/10 + 2, "life": life})
			r.batchOf(app)
			r.block(6)
			for _, o := range r.orders(func(o M) bool { return live(o) && o["app"].(int64) == app && o["pair"].(int64) == pair }) {
				if _, ok := r.w.Acct[o["owner"].(string)]; ok && rng.Intn(2) == 0 {
					r.step("CancelOrder", M{"u": o["owner"].(string), "app": app, "pair": pair, "id": o["id"].(int64)})
				}
			}
			return
		}
	}
}

// farmCycle: the id-exchange axes of farming (pool id != pair id, pool id != app id) and the life of farm positions
// with several farmers in one pool: staggered farm times (one farmer's entry matures while the other's stays queued,
// in both role assignments), top-up of an ACTIVE position, unfarming an active position down to exactly zero and
// partly, unfarm-and-withdraw.
func (r *runner) farmCycle(rng *sim.Rng, c cfg) {
	if !c.pools {
		return
	}
	app := c.apps[rng.Intn(len(c.apps))]
	pick := func() (M, int) {
		var best M
		score := -1
		for _, p := range r.st["pools"].([]M) {
			if p["app"].(int64) != app || p["disabled"].(bool) {
				continue
			}
			sc := 0
			if p["id"].(int64) != p["pair"].(int64) {
				sc++
			}
			if p["id"].(int64) != app {
				sc++
			}
			if sc > score {
				best, score = p, sc
			}
		}
		return best, score
	}
	pl, score := pick()
	for k := 0; k < 2 && score < 2 && r.st["lastPool"].([]int64)[app-1] < MaxPool; k++ {
		prs := c.pairsOf[app]
		pair := prs[rng.Intn(len(prs))]
		ctr := r.centre(app, pair)
		x := int64(20000)
		r.step("CreateRangedPool", M{"u": Users[rng.Intn(3)], "app": app, "pair": pair, "x": x, "y": x * PS / ctr,
			"min": tickOf(ctr * 8 / 10), "max": tickOf(ctr * 12 / 10), "init": tickOf(ctr)})
		pl, score = pick()
	}
	if score < 0 {
		return
	}
	pool, pair := pl["id"].(int64), pl["pair"].(int64)
	ctr := r.centre(app, pair)
	us := []string{"u1", "u2", "u3"}
	rng.Shuffle(len(us), func(i, j int) { us[i], us[j] = us[j], us[i] })
	f1, f2 := us[0], us[1]
	dep := func(u string) {
		x := []int64{1000, 3000, 5000}[rng.Intn(3)]
		r.step("DepositAndFarm", M{"u": u, "app": app, "pool": pool, "x": x, "y": x * PS / ctr})
	}
	half := int64(43300) // a little more than half the queue duration
	stagger := func(a, b string) {
		dep(a)
		r.block(half)
		dep(b)
		r.block(half)
		r.batchOf(app) // a's entry matures, b's stays queued
		r.block(half)
		r.batchOf(app) // b's entry matures
	}
	stagger(f1, f2) // both become active
	stagger(f2, f1) // top-ups of active positions, roles exchanged
	if t := r.farmedBy(f1, app, pool); t > 0 {
		r.step("Unfarm", M{"u": f1, "app": app, "pool": pool, "amt": t}) // the active position goes to exactly zero
	}
	if t := r.farmedBy(f2, app, pool); t > 2 {
		r.step("Unfarm", M{"u": f2, "app": app, "pool": pool, "amt": t * 2 / 3})
		if rng.Intn(2) == 0 {
			r.step("UnfarmAndWithdraw", M{"u": f2, "app": app, "pool": pool, "amt": r.farmedBy(f2, app, pool)})
		}
	}
	dep(f1) // farming again after the position was closed
	r.block(half * 2)
	r.batchOf(app)
}

// cancelAllCycle: one user has an older order in the higher-id pair and a fresh order (current batch) in the
// lower-id pair of the same app, then cancels all orders (all pairs / named pairs).
func (r *runner) cancelAllCycle(rng *sim.Rng, c cfg) {
	for _, app := range c.apps {
		if len(c.pairsOf[app]) < 2 {
			continue
		}
		u := Users[rng.Intn(3)]
		life := r.w.Pars[app-1].MaxLife
		place := func(pair int64) {
			ctr := r.centre(app, pair)
			dir, price := "S", tickOf(ctr*106/100)
			if rng.Intn(2) == 0 {
				dir, price = "B", tickOf(ctr*94/100)
			}
			amt := amtGrid[rng.Intn(len(amtGrid))]
			if ctr < 5000 {
				amt *= 6
			}
			offer := amt + amt/5 + 1
			if dir == "B" {
				offer = (price*amt+PS-1)/PS*12/10 + 2
			}
			if offer < 100 {
				offer = 100
			}
			r.step("LimitOrder", M{"u": u, "app": app, "pair": pair, "dir": dir, "price": price, "amt": amt, "offer": offer, "life": life})
		}
		place(2)
		if rng.Intn(2) == 0 {
			place(1)
		}
		r.batchOf(app)
		place(1) // fresh: still in its placement batch
		if rng.Intn(3) == 0 {
			place(2)
		}
		ps := [][]int64{{}, {}, {1, 2}, {2, 1}, {2}}[rng.Intn(5)]
		r.step("CancelAll", M{"u": u, "app": app, "pairs": ps})
		return
	}
}

// drain cancels everything that is live so that "nothing remains in escrow" is evaluated on empty books.
func (r *runner) drain(c cfg) {
	r.block(6)
	r.block(6) // batch size 2: make sure every order left its placement batch
	for _, app := range c.apps {
		for _, u := range Users {
			has := false
			for _, o := range r.orders(live) {
				if o["app"].(int64) == app && o["owner"].(string) == u {
					has = true
				}
			}
			if has {
				r.step("CancelAll", M{"u": u, "app": app, "pairs": []int64{}})
			}
		}
	}
	for _, o := range r.orders(live) {
		if _, ok := r.w.Acct[o["owner"].(string)]; ok {
			r.step("CancelOrder", M{"u": o["owner"].(string), "app": o["app"].(int64), "pair": o["pair"].(int64), "id": o["id"].(int64)})
		}
	}
	r.block(6)
}

func (r *runner) setupPairs(rng *sim.Rng, c cfg) {
	for _, app := range []int64{1, 2} {
		need := int64(0)
		for _, a := range c.apps {
			if a == app {
				for _, p := range c.pairsOf[app] {
					if p > need {
						need = p
					}
				}
			}
		}
		for p := int64(1); p <= need; p++ {
			u := Users[rng.Intn(3)]
			if p == 1 {
				r.step("CreatePair", M{"u": u, "app": app, "base": "uaa", "quote": "ubb"})
			} else {
				r.step("CreatePair", M{"u": u, "app": app, "base": "ubb", "quote": "ucc"})
			}
		}
	}
}

// scripted history (DESIGN section 5 #10): an older sell order and a batch in which the residual handed to the
// older batch-group is too small to be worth one quote unit.
func scriptResidue(lg *sim.Log, base *World, mm bool) {
	r := newRunner(lg, base, fmt.Sprintf("script:residue:%v", mm))
	r.step("CreatePair", M{"u": "u1", "app": int64(1), "base": "uaa", "quote": "ubb"})
	lo := func(u, dir string, price, amt int64) {
		offer := amt + amt*3/1000 + 1
		if dir == "B" {
			offer = (price*amt+PS-1)/PS + ((price*amt+PS-1)/PS)*3/1000 + 1
		}
		if mm && dir == "S" { // fee-free market-making orders: no reserve slack in the escrow
			r.step("MMOrder", M{"u": u, "app": int64(1), "pair": int64(1), "sellAmt": amt, "minSell": price, "maxSell": price,
				"buyAmt": int64(0), "minBuy": int64(0), "maxBuy": int64(0), "life": int64(3600)})
			return
		}
		r.step("LimitOrder", M{"u": u, "app": int64(1), "pair": int64(1), "dir": dir, "price": price, "amt": amt, "offer": offer, "life": int64(3600)})
	}
	mmSave := mm
	mm = false // the older order is a limit order in both variants (one MM order set per owner and pair)
	lo("u1", "S", 9000, 200)
	mm = mmSave
	r.block(6)
	lo("u2", "S", 9000, 1900)
	lo("u3", "S", 9000, 1100)
	lo("u1", "S", 5000, 2200)
	lo("u2", "B", 20000, 2401)
	r.block(6)
	r.block(6)
	for _, o := range r.orders(live) {
		r.step("CancelOrder", M{"u": o["owner"].(string), "app": o["app"].(int64), "pair": o["pair"].(int64), "id": o["id"].(int64)})
	}
	r.block(4000)
	r.block(6)
}

func driveRandom(lg *sim.Log, base *World, seed int64, runs, steps int) {
	rng := sim.NewRng(seed)
	for i := 0; i < runs; i++ {
		r := newRunner(lg, base, fmt.Sprintf("drive:%d:%d", seed, i))
		var c cfg
		switch i % 5 {
		case 0: // app 2 / pair 1 and app 1 / pair 2: (app,pair) and (pair,app) are both valid keys
			c = cfg{apps: []int64{1, 2}, pairsOf: map[int64][]int64{1: {2}, 2: {1}}, pools: true, mm: true}
		case 1: // single pair, order book only, heavy matching
			c = cfg{apps: []int64{1}, pairsOf: map[int64][]int64{1: {1}}, pools: false, mm: false}
		case 2: // everything
			c = cfg{apps: []int64{1, 2}, pairsOf: map[int64][]int64{1: {1, 2}, 2: {1, 2}}, pools: true, mm: true}
		case 3: // app 2 only (10% fee, batch size 2), MM heavy
			c = cfg{apps: []int64{2}, pairsOf: map[int64][]int64{2: {1, 2}}, pools: true, mm: true}
		default: // pools and farming heavy on app 1
			c = cfg{apps: []int64{1}, pairsOf: map[int64][]int64{1: {1}}, pools: true, mm: true}
		}
		r.nominal = map[[2]int64]int64{}
		if i%5 == 1 || i%5 == 3 { // pairs trading far below 1: a base unit is worth less than one quote unit
			for _, app := range c.apps {
				r.nominal[[2]int64{app, c.pairsOf[app][0]}] = []int64{1500, 2000, 2500, 3300}[rng.Intn(4)]
			}
		}
		r.setupPairs(rng, c)
		if c.pools { // a basic pool per pair and some pool-coin holders / farmers from the start
			for _, app := range c.apps {
				for _, pr := range c.pairsOf[app] {
					if rng.Intn(4) == 0 {
						continue
					}
					ctr := r.centre(app, pr)
					x := []int64{5000, 20000, 100000}[rng.Intn(3)]
					r.step("CreatePool", M{"u": Users[rng.Intn(3)], "app": app, "pair": pr, "x": x, "y": x * PS / ctr})
					all, _ := r.poolsOf(app)
					if len(all) == 0 {
						continue
					}
					pl := all[len(all)-1]
					r.step("Deposit", M{"u": Users[rng.Intn(3)], "app": app, "pool": pl, "x": x / 4, "y": x / 4 * PS / ctr})
					r.step("DepositAndFarm", M{"u": Users[rng.Intn(3)], "app": app, "pool": pl, "x": x / 5, "y": x / 5 * PS / ctr})
				}
			}
			r.block(6)
			r.block(6)
		}
		if rng.Intn(3) == 0 {
			r.step("CreatePair", M{"u": "u1", "app": c.apps[0], "base": "uaa", "quote": "ubb"}) // duplicate
		}
		// the directed cycles of this run, in shuffled order, alternating with stretches of random steps: every cycle
		// kind occurs in every run it applies to, and about half of the steps stay random
		type cyc func(*sim.Rng, cfg)
		plan := []cyc{r.marketCycle, r.marketCycle, r.foreignCoinCycle, r.refillCycle}
		if c.mm {
			plan = append(plan, r.mmCycle, r.ladderCycle)
			if rng.Intn(2) == 0 {
				plan = append(plan, r.ladderCycle)
			}
		}
		if len(r.nominal) > 0 {
			plan = append(plan, r.lowResidualCycle, r.lowResidualCycle)
		}
		if c.pools && (i%2 == 0 || rng.Intn(3) == 0) {
			plan = append(plan, r.farmCycle)
		}
		for _, app := range c.apps {
			if len(c.pairsOf[app]) > 1 {
				plan = append(plan, r.cancelAllCycle, r.cancelAllCycle)
				break
			}
		}
		rng.Shuffle(len(plan), func(a, b int) { plan[a], plan[b] = plan[b], plan[a] })
		gap := steps / (2 * (len(plan) + 1)) // random steps between two cycles
		for len(plan) > 0 || r.n < steps {
			for k := 0; k < gap || (len(plan) == 0 && r.n < steps); k++ {
				r.randomStep(rng, c)
			}
			if len(plan) > 0 {
				plan[0](rng, c)
				plan = plan[1:]
			}
			if r.n > 2*steps {
				break
			}
		}
		r.drain(c)
	}
}

// ---------------------------------------------------------------------------------------------------
// model -> code: the bounded model (MC_Liquidity) prints its alphabet of action instances; the same alphabet
// is explored exhaustively, breadth first, on the REAL code (explicit-state exploration of the implementation
// on cache branches, de-duplicated by the projected state, bounded by depth and a node budget).  The model's
// block discipline is kept: EndBlock is followed by BeginBlock only.

type act struct {
	A    string
	Args M
}

func hashOf(v interface{}) string {
	b, _ := json.Marshal(v)
	s := sha256.Sum256(b)
	return hex.EncodeToString(s[:10])
}

func normArgs(v interface{}) M {
	m, _ := v.(map[string]interface{})
	out := M{}
	for k, x := range m {
		switch t := x.(type) {
		case json.Number:
			n, _ := t.Int64()
			out[k] = n
		case []interface{}:
			ys := []int64{}
			for _, y := range t {
				if n, ok := y.(json.Number); ok {
					i, _ := n.Int64()
					ys = append(ys, i)
				}
			}
			out[k] = ys
		default:
			out[k] = x
		}
	}
	return out
}

type alphabet struct {
	App   int64
	Scope string
	Acts  []act
}

func readAlphabets(tfile string) ([]alphabet, error) {
	f, err := os.Open(tfile)
	if err != nil {
		return nil, err
	}
	defer f.Close()
	var out []alphabet
	sc := bufio.NewScanner(f)
	sc.Buffer(make([]byte, 1<<20), 1<<28)
	for sc.Scan() {
		js := sim.TLCJSON(sc.Text())
		if js == "" {
			continue
		}
		dec := json.NewDecoder(strings.NewReader(js))
		dec.UseNumber()
		var m map[string]interface{}
		if err := dec.Decode(&m); err != nil {
			return nil, fmt.Errorf("bad alphabet line: %v", err)
		}
		al := alphabet{Scope: m["scope"].(string)}
		al.App, _ = m["app"].(json.Number).Int64()
		for _, x := range m["acts"].([]interface{}) {
			xm := x.(map[string]interface{})
			al.Acts = append(al.Acts, act{A: xm["a"].(string), Args: normArgs(xm["args"])})
		}
		sort.SliceStable(al.Acts, func(i, j int) bool {
			if al.Acts[i].A != al.Acts[j].A {
				return al.Acts[i].A < al.Acts[j].A
			}
			return hashOf(al.Acts[i].Args) < hashOf(al.Acts[j].Args)
		})
		out = append(out, al)
	}
	return out, nil
}

type bfsItem struct {
	r     *runner
	depth int
	ended bool // an EndBlock was the last action
}

func explore(lg *sim.Log, base *World, al alphabet, budget, maxDepth int) (executed, states int) {
	root := newRunner(lg, base, fmt.Sprintf("explore:%s:%d", al.Scope, al.App))
	root.step("CreatePair", M{"u": "u1", "app": al.App, "base": "uaa", "quote": "ubb"})
	if al.Scope == "pairs" {
		root.step("CreatePair", M{"u": "u1", "app": al.App, "base": "ubb", "quote": "ucc"})
	}
	failed := 0
	seen := map[string]bool{hashOf(root.st): true}
	queue := []bfsItem{{r: root}}
	for len(queue) > 0 && executed < budget {
		it := queue[0]
		queue = queue[1:]
		for _, a := range al.Acts {
			if executed >= budget {
				break
			}
			if (a.A == "BeginBlock") != it.ended {
				continue
			}
			b := it.r.fork(it.r.run)
			args := M{}
			for k, v := range a.Args {
				args[k] = v
			}
			if a.A == "EndBlock" {
				args = M{}
			}
			nodes := len(lg.Nodes)
			res := b.step(a.A, args)
			if ok, _ := res["ok"].(bool); !ok {
				// rejected messages change nothing: deeper in the tree only every 4th of them is kept in the log
				failed++
				if it.depth >= 2 && failed%4 != 0 && len(lg.Nodes) == nodes+1 {
					lg.Nodes = lg.Nodes[:nodes]
				} else {
					executed++
				}
				continue
			}
			executed++
			h := hashOf(b.st)
			if a.A == "EndBlock" {
				h += "/end"
			}
			if !seen[h] && it.depth+1 < maxDepth {
				seen[h] = true
				queue = append(queue, bfsItem{r: b, depth: it.depth + 1, ended: a.A == "EndBlock"})
			}
		}
	}
	return executed, len(seen)
}

// replay re-executes a recorded path (replay file written by bin/check for a VIOLATION: header line, then the
// nodes root -> failing node) on a fresh application and reports, per step, whether result and projected state
// are reproduced.
func replay(path string) int {
	nodes, err := sim.ReadNDJSON(path)
	if err != nil {
		fmt.Fprintln(os.Stderr, err)
		return 2
	}
	base := NewWorld(DefaultPars(), 50000000)
	lg := &sim.Log{}
	var r *runner
	same := true
	for i, n := range nodes {
		a, _ := n["a"].(string)
		if a == "" {
			fmt.Printf("replaying: %v\n", n)
			continue
		}
		if a == "Init" {
			r = newRunner(lg, base, "replay")
			continue
		}
		if r == nil {
			fmt.Fprintln(os.Stderr, "replay file does not start with an Init node")
			return 2
		}
		res := r.step(a, normArgs(n["args"]))
		wantOK, _ := n["res"].(map[string]interface{})["ok"].(bool)
		gotOK, _ := res["ok"].(bool)
		var want, got interface{}
		b1, _ := json.Marshal(n["st"])
		b2, _ := json.Marshal(r.st)
		_ = json.Unmarshal(b1, &want)
		_ = json.Unmarshal(b2, &got)
		eq := hashOf(want) == hashOf(got)
		fmt.Printf("%3d %-18s ok=%v (recorded %v) state %s\n", i, a, gotOK, wantOK, map[bool]string{true: "reproduced", false: "DIFFERS"}[eq])
		same = same && eq && gotOK == wantOK
	}
	if same {
		fmt.Println("replay: the recorded path is reproduced exactly")
		return 0
	}
	fmt.Println("replay: the path is NOT reproduced (different tree or nondeterminism)")
	return 1
}

func Main(args []string) int {
	fs := flag.NewFlagSet("liquidity", flag.ExitOnError)
	out := fs.String("out", "liquidity.ndjson", "output tree log")
	seed := fs.Int64("seed", 1, "seed")
	runs := fs.Int("runs", 10, "random runs")
	steps := fs.Int("steps", 120, "steps per random run")
	model := fs.String("model", "", "file with the alphabet lines printed by MC_Liquidity")
	budget := fs.Int("budget", 1500, "node budget of the exhaustive exploration per alphabet")
	depth := fs.Int("depth", 6, "depth bound of the exhaustive exploration")
	rp := fs.String("replay", "", "re-execute a recorded path (replays/*.ndjson) and compare")
	fs.Parse(args)
	if *rp != "" {
		return replay(*rp)
	}

	lg := &sim.Log{}
	base := NewWorld(DefaultPars(), 50000000)
	ne, done := 0, 0
	if *model != "" {
		als, err := readAlphabets(*model)
		if err != nil {
			fmt.Fprintln(os.Stderr, err)
			return 2
		}
		for _, al := range als {
			e, st := explore(lg, base, al, *budget, *depth)
			ne += len(al.Acts)
			done += e
			fmt.Printf("explore %s app %d: alphabet=%d executed=%d distinct_states=%d\n", al.Scope, al.App, len(al.Acts), e, st)
		}
	}
	scriptResidue(lg, base, false)
	scriptResidue(lg, base, true)
	driveRandom(lg, base, *seed, *runs, *steps)
	if err := lg.Write(*out); err != nil {
		fmt.Fprintln(os.Stderr, err)
		return 2
	}
	fmt.Printf("liquidity: alphabet=%d explored=%d nodes=%d runs_left_domain=%d\n", ne, done, len(lg.Nodes), outOfDomain)
	return 0
}
