// Package harbor binds spec/harbor/*.tla (CDP application: vault + V2 liquidation + V2 Dutch auctions +
// collector fee book + controls) to the real keepers. Properties C01, C02, C03, C09, C10.
package harbor

import (
	"fmt"
	"math/big"
	"sort"
	"time"

	sdk "github.com/cosmos/cosmos-sdk/types"

	"github.com/comdex-official/comdex/app/wasm/bindings"
	assettypes "github.com/comdex-official/comdex/x/asset/types"
	collectortypes "github.com/comdex-official/comdex/x/collector/types"
	auctypes "github.com/comdex-official/comdex/x/auctionsV2/types"
	esmtypes "github.com/comdex-official/comdex/x/esm/types"
	liqv1types "github.com/comdex-official/comdex/x/liquidation/types"
	liqtypes "github.com/comdex-official/comdex/x/liquidationsV2/types"
	markettypes "github.com/comdex-official/comdex/x/market/types"
	tokenminttypes "github.com/comdex-official/comdex/x/tokenmint/types"
	vaulttypes "github.com/comdex-official/comdex/x/vault/types"

	"vh/sim"
)

// Dec is an exact decimal fraction num/den used for configuration values (fees, ratios).
type Frac struct {
	Num int64 `json:"num"`
	Den int64 `json:"den"`
}

func (f Frac) Dec() sdk.Dec { return sdk.NewDec(f.Num).Quo(sdk.NewDec(f.Den)) }

// Product = extended pair vault of the fixture.
type Product struct {
	ID        uint64 `json:"id"`
	App       uint64 `json:"app"`
	Stable    bool   `json:"stable"`
	CollD     string `json:"collD"` // collateral denom
	CollA     uint64 `json:"collA"` // collateral asset id
	DebtD     string `json:"debtD"`
	DebtA     uint64 `json:"debtA"`
	MinCr     Frac   `json:"minCr"`
	DrawFee   Frac   `json:"drawFee"`
	CloseFee  Frac   `json:"closeFee"`
	StabFee   Frac   `json:"stabFee"`
	LiqPen    Frac   `json:"liqPen"`
	Floor     int64  `json:"floor"`
	Ceiling   int64  `json:"ceiling"`
	OutOracle bool   `json:"outOracle"`
	OutPrice  int64  `json:"outPrice"`
}

type Config struct {
	DecC, DecA, DecS, DecU     int64 // asset decimals of uc, ua, us (debt), uu (stable-in)
	DrawFee, CloseFee, StabFee Frac
	Batch                      uint64
	Duration                   uint64 // auction duration seconds
	Users                      []string
	FundColl                   int64
	FundDebt                   int64 // fixture-minted debt coins per user (bidders), recorded as fixtureMint
	Decoy                      bool  // a second app registered BEFORE the app under test (so its id is lower and the app under test is not id 1), whitelisted for both liquidation generations, with its circuit breaker and its emergency shutdown on: nothing of it may leak into the app under test
	FixedOutPrice              int64 // fixed debt price of the second product (0 = 1); with 2 the debt asset's own oracle feed (1) lies BELOW it
	CollectorFund              int64 // fixture-minted debt coins booked as the app's net fees of the debt asset (a collector rich enough to cover any auction loss)
	Interest                   bool  // register app in rewards so that stability-fee interest accrues
	Bonus                      Frac  // auction bonus of externally initiated auctions
	// first-generation ("V1") liquidation + Dutch auction parameters; zero values = defaults (same batch/duration as V2, buffer 6/5, cusp 7/10)
	BatchV1    uint64
	DurationV1 uint64
	BufferV1   Frac
	CuspV1     Frac
	// emergency shutdown (x/esm): cool-off period in seconds (0 = 20) and deposit target in governance tokens (0 = 50)
	CoolOff   uint64
	EsmTarget int64
}

// V1DutchMappingID is the auction mapping id under which the fixture registers V1 Dutch auctions (AuctionParams.DutchId).
const V1DutchMappingID = 3

type World struct {
	*sim.Env
	Cfg         Config
	App1        uint64
	Prods       []Product
	Assets      map[string]uint64 // denom -> asset id
	Decs        map[string]int64
	Denoms      []string
	FixtureMint int64
	V1Bias      bool                   // driver bias: this run lets the first generation do most of the liquidating
	Esm         bool                   // driver: emergency-shutdown actions enabled
	EsmBias     bool                   // driver bias: this run heads for an emergency shutdown
	last        map[string]interface{} // projection of the current state (pre-state of the next step), for the step labels
}

var AllDenoms = []string{"ucm", "uat", "ust", "uus", "uhb"}

func must(err error) {
	if err != nil {
		panic(err)
	}
}

func (w *World) addAsset(name, denom string, dec int64, priced bool) uint64 {
	must(w.App.AssetKeeper.AddAssetRecords(w.Ctx, assettypes.Asset{Name: name, Denom: denom, Decimals: sdk.NewInt(dec),
		IsOnChain: true, IsOraclePriceRequired: priced, IsCdpMintable: denom != "uhb"})) // the governance token of an app must not be CDP-mintable
	for _, a := range w.App.AssetKeeper.GetAssets(w.Ctx) {
		if a.Denom == denom {
			w.Assets[denom] = a.Id
			w.Decs[denom] = dec
			return a.Id
		}
	}
	panic("asset")
}

func (w *World) SetPrice(asset uint64, twa uint64, active bool) {
	w.App.MarketKeeper.SetTwa(w.Ctx, markettypes.TimeWeightedAverage{AssetID: asset, ScriptID: 12, Twa: twa, CurrentIndex: 0,
		IsPriceActive: active, PriceValue: []uint64{twa}, DiscardedHeightDiff: -1})
}

func (w *World) addPair(in, out uint64) uint64 {
	must(w.App.AssetKeeper.AddPairsRecords(w.Ctx, assettypes.Pair{AssetIn: in, AssetOut: out}))
	for _, p := range w.App.AssetKeeper.GetPairs(w.Ctx) {
		if p.AssetIn == in && p.AssetOut == out {
			return p.Id
		}
	}
	panic("pair")
}

func (w *World) addProduct(name string, pair uint64, p Product) Product {
	must(w.App.AssetKeeper.WasmAddExtendedPairsVaultRecords(w.Ctx, &bindings.MsgAddExtendedPairsVault{
		AppID: p.App, PairID: pair, StabilityFee: p.StabFee.Dec(), ClosingFee: p.CloseFee.Dec(), LiquidationPenalty: p.LiqPen.Dec(),
		DrawDownFee: p.DrawFee.Dec(), IsVaultActive: true, DebtCeiling: sdk.NewInt(p.Ceiling), DebtFloor: sdk.NewInt(p.Floor),
		IsStableMintVault: p.Stable, MinCr: p.MinCr.Dec(), PairName: name, AssetOutOraclePrice: p.OutOracle,
		AssetOutPrice: uint64(p.OutPrice), MinUsdValueLeft: 0}))
	eps, _ := w.App.AssetKeeper.GetPairsVaults(w.Ctx)
	for _, e := range eps {
		if e.PairName == name && e.AppId == p.App {
			p.ID = e.Id
			return p
		}
	}
	panic("product")
}

// Setup builds the CDP fixture through exported keeper entry points only.
func Setup(cfg Config) *World {
	if cfg.BatchV1 == 0 {
		cfg.BatchV1 = cfg.Batch
	}
	if cfg.DurationV1 == 0 {
		cfg.DurationV1 = cfg.Duration
	}
	if cfg.BufferV1.Den == 0 {
		cfg.BufferV1 = Frac{6, 5}
	}
	if cfg.CuspV1.Den == 0 {
		cfg.CuspV1 = Frac{7, 10}
	}
	if cfg.CoolOff == 0 {
		cfg.CoolOff = 20
	}
	if cfg.EsmTarget == 0 {
		cfg.EsmTarget = 50
	}
	var funds []sim.Fund
	for _, u := range cfg.Users {
		funds = append(funds, sim.Fund{Name: u})
	}
	w := &World{Env: sim.New(funds), Cfg: cfg, Assets: map[string]uint64{}, Decs: map[string]int64{}, Denoms: AllDenoms}
	if cfg.Decoy {
		must(w.App.AssetKeeper.AddAppRecords(w.Ctx, assettypes.AppData{Name: "decoy", ShortName: "dcy", MinGovDeposit: sdk.NewInt(1), GovTimeInSeconds: 1}))
	}
	must(w.App.AssetKeeper.AddAppRecords(w.Ctx, assettypes.AppData{Name: "harbor", ShortName: "hbr", MinGovDeposit: sdk.NewInt(1), GovTimeInSeconds: 1}))
	apps, _ := w.App.AssetKeeper.GetApps(w.Ctx)
	var decoyID uint64
	for _, ap := range apps {
		if ap.Name == "harbor" {
			w.App1 = ap.Id
		}
		if ap.Name == "decoy" {
			decoyID = ap.Id
		}
	}
	// the band validation flag is what keeps market.BeginBlocker from switching every price off each block
	w.App.BandoracleKeeper.SetOracleValidationResult(w.Ctx, true)
	uc := w.addAsset("CMDX", "ucm", cfg.DecC, true)
	ua := w.addAsset("ATOM", "uat", cfg.DecA, true)
	us := w.addAsset("CMST", "ust", cfg.DecS, true)
	uu := w.addAsset("USDC", "uus", cfg.DecU, true)
	hb := w.addAsset("HARBOR", "uhb", 1, false)
	w.SetPrice(uc, 2, true)
	w.SetPrice(ua, 3, true)
	w.SetPrice(us, 1, true)
	w.SetPrice(uu, 1, true)
	p1 := w.addPair(uc, us)
	p2 := w.addPair(ua, us)
	p3 := w.addPair(uu, us)
	base := Product{App: w.App1, DebtD: "ust", DebtA: us, MinCr: Frac{3, 2}, DrawFee: cfg.DrawFee, CloseFee: cfg.CloseFee, StabFee: cfg.StabFee,
		LiqPen: Frac{1, 10}, Floor: 5, Ceiling: 400 * cfg.DecS, OutOracle: true, OutPrice: 1}
	a := base
	a.CollD, a.CollA = "ucm", uc
	w.Prods = append(w.Prods, w.addProduct("CMDXA", p1, a))
	b := base
	b.CollD, b.CollA = "uat", ua
	b.MinCr = Frac{2, 1}
	b.Ceiling = 150 * cfg.DecS
	b.OutOracle = false // fixed debt price (AssetOutPrice = 1): the ratio values the debt at OutPrice / debt decimals, V2 auctions mark the debt as cmst
	b.OutPrice = 1
	if cfg.FixedOutPrice > 0 {
		b.OutPrice = cfg.FixedOutPrice
	}
	w.Prods = append(w.Prods, w.addProduct("ATOMB", p2, b))
	c := base
	c.CollD, c.CollA = "uus", uu
	c.Stable = true
	c.StabFee = Frac{0, 1}
	c.CloseFee = Frac{0, 1}
	c.Floor = 2
	c.Ceiling = 3000 * cfg.DecS // low enough that stable-mint deposits reach it (the ceiling check is in debt units, the request in collateral units)
	w.Prods = append(w.Prods, w.addProduct("USDCPSM", p3, c))
	// a second product on the same collateral denom as the first (custody is per denom, totals per product)
	d := base
	d.CollD, d.CollA = "ucm", uc
	d.MinCr = Frac{5, 4}
	d.DrawFee = Frac{0, 1}
	w.Prods = append(w.Prods, w.addProduct("CMDXD", p1, d))

	dutch := liqtypes.DutchAuctionParam{Premium: sdk.MustNewDecFromStr("1.2"), Discount: sdk.MustNewDecFromStr("0.7"), DecrementFactor: sdk.NewInt(1)}
	eng := liqtypes.EnglishAuctionParam{DecrementFactor: sdk.NewInt(1)}
	w.App.NewliqKeeper.SetLiquidationWhiteListing(w.Ctx, liqtypes.LiquidationWhiteListing{AppId: w.App1, Initiator: true, IsDutchActivated: true,
		DutchAuctionParam: &dutch, IsEnglishActivated: true, EnglishAuctionParam: &eng, KeeeperIncentive: sdk.MustNewDecFromStr("0.1")})
	w.App.NewaucKeeper.SetAuctionParams(w.Ctx, auctypes.AuctionParams{AuctionDurationSeconds: cfg.Duration, Step: sdk.MustNewDecFromStr("0.1"),
		WithdrawalFee: sdk.ZeroDec(), ClosingFee: sdk.ZeroDec(), MinUsdValueLeft: 0, BidFactor: sdk.MustNewDecFromStr("0.1"),
		LiquidationPenalty: sdk.MustNewDecFromStr("0.1"), AuctionBonus: cfg.Bonus.Dec()})
	w.App.NewliqKeeper.SetParams(w.Ctx, liqtypes.Params{LiquidationBatchSize: cfg.Batch})
	// first generation: app whitelisted for x/liquidation, Dutch auction parameters of x/auction (as the repository's own tests do)
	must(w.App.LiquidationKeeper.WasmWhitelistAppIDLiquidation(w.Ctx, w.App1))
	w.App.LiquidationKeeper.SetParams(w.Ctx, liqv1types.Params{LiquidationBatchSize: cfg.BatchV1})
	must(w.App.AuctionKeeper.AddAuctionParams(w.Ctx, &bindings.MsgAddAuctionParams{AppID: w.App1, AuctionDurationSeconds: cfg.DurationV1,
		Buffer: cfg.BufferV1.Dec(), Cusp: cfg.CuspV1.Dec(), Step: 1, PriceFunctionType: 1, SurplusID: 1, DebtID: 2, DutchID: V1DutchMappingID, BidDurationSeconds: 300}))
	if cfg.Interest {
		must(w.App.Rewardskeeper.WhitelistAppIDVault(w.Ctx, w.App1))
	}
	// emergency shutdown: governance token of the app (genesis-minted through x/tokenmint's message, spread over the users), trigger
	// parameters with fixed redemption rates for the debt asset and the stable-mint collateral (same scale as the oracle values of the fixture)
	gov := sim.Addr("gov")
	must(w.App.AssetKeeper.AddAssetInAppRecords(w.Ctx, assettypes.AppData{Id: w.App1, GenesisToken: []assettypes.MintGenesisToken{
		{AssetId: hb, GenesisSupply: sdk.NewInt(1000000), IsGovToken: true, Recipient: gov.String()}}}))
	if r := w.Deliver(&tokenminttypes.MsgMintNewTokensRequest{From: gov.String(), AppId: w.App1, AssetId: hb}); !r.OK {
		panic("tokenmint: " + r.Err)
	}
	for _, u := range cfg.Users {
		must(w.App.BankKeeper.SendCoins(w.Ctx, gov, sim.Addr(u), sdk.NewCoins(sdk.NewInt64Coin("uhb", 200))))
	}
	must(w.App.EsmKeeper.AddESMTriggerParamsForApp(w.Ctx, &bindings.MsgAddESMTriggerParams{AppID: w.App1, TargetValue: sdk.NewInt64Coin("uhb", cfg.EsmTarget),
		CoolOffPeriod: cfg.CoolOff, AssetID: []uint64{us, uu}, Rates: []uint64{1, 1}}))
	for _, u := range cfg.Users {
		coins := sdk.NewCoins(sdk.NewInt64Coin("ucm", cfg.FundColl), sdk.NewInt64Coin("uat", cfg.FundColl), sdk.NewInt64Coin("uus", cfg.FundColl))
		if cfg.FundDebt > 0 {
			coins = coins.Add(sdk.NewInt64Coin("ust", cfg.FundDebt))
			w.FixtureMint += cfg.FundDebt
		}
		must(w.App.BankKeeper.MintCoins(w.Ctx, vaulttypes.ModuleName, coins))
		must(w.App.BankKeeper.SendCoinsFromModuleToAccount(w.Ctx, vaulttypes.ModuleName, sim.Addr(u), coins))
	}
	if cfg.Decoy {
		must(w.App.LiquidationKeeper.WasmWhitelistAppIDLiquidation(w.Ctx, decoyID))
		w.App.NewliqKeeper.SetLiquidationWhiteListing(w.Ctx, liqtypes.LiquidationWhiteListing{AppId: decoyID, Initiator: true, IsDutchActivated: true,
			DutchAuctionParam: &dutch, IsEnglishActivated: true, EnglishAuctionParam: &eng, KeeeperIncentive: sdk.MustNewDecFromStr("0.1")})
		must(w.App.EsmKeeper.SetKillSwitchData(w.Ctx, esmtypes.KillSwitchParams{AppId: decoyID, BreakerEnable: true}))
		w.App.EsmKeeper.SetESMStatus(w.Ctx, esmtypes.ESMStatus{AppId: decoyID, Status: true, EndTime: w.Ctx.BlockTime().Add(1000000 * time.Hour),
			VaultRedemptionStatus: true, SnapshotStatus: true, StableVaultRedemptionStatus: true, CollectorTransaction: true, ShareCalculation: true})
	}
	if cfg.CollectorFund > 0 {
		fund := sdk.NewCoins(sdk.NewInt64Coin("ust", cfg.CollectorFund))
		must(w.App.BankKeeper.MintCoins(w.Ctx, vaulttypes.ModuleName, fund))
		must(w.App.BankKeeper.SendCoinsFromModuleToModule(w.Ctx, vaulttypes.ModuleName, collectortypes.ModuleName, fund))
		must(w.App.CollectorKeeper.SetNetFeeCollectedData(w.Ctx, w.App1, us, sdk.NewInt(cfg.CollectorFund)))
		w.FixtureMint += cfg.CollectorFund
	}
	return w
}

func (w *World) Prod(id uint64) *Product {
	for i := range w.Prods {
		if w.Prods[i].ID == id {
			return &w.Prods[i]
		}
	}
	return nil
}

func (w *World) Fork() *World {
	n := *w
	n.Env = w.Env.Branch()
	return &n
}

// ---------------------------------------------------------------------------------------------
// Projection of the real state onto the specification's variables.

func i64(x sdk.Int) int64 {
	if x.IsNil() {
		return 0
	}
	if !x.IsInt64() {
		panic(fmt.Sprintf("value %s does not fit the small-mode projection", x))
	}
	return x.Int64()
}

// decL = limbs of (d * 10^18).
func decL(d sdk.Dec) []int64 {
	if d.IsNil() {
		return []int64{}
	}
	if d.IsNegative() {
		return []int64{-1}
	}
	return sim.Limbs(new(big.Int).Set(d.BigInt()))
}

func (w *World) balMap(addr sdk.AccAddress) map[string]int64 {
	m := map[string]int64{}
	for _, d := range w.Denoms {
		m[d] = i64(w.App.BankKeeper.GetBalance(w.Ctx, addr, d).Amount)
	}
	return m
}

func (w *World) Project() map[string]interface{} {
	app, ctx := w.App, w.Ctx
	st := map[string]interface{}{}
	bal := map[string]interface{}{}
	for _, m := range []string{"vaultV1", "collectorV1", "auctionsV2", "liquidationsV2", "auctionV1", "lockerV1", "esmV1", "tokenmint"} {
		bal[m] = w.balMap(sim.ModAddr(m))
	}
	users := map[string]interface{}{}
	for _, u := range w.Cfg.Users {
		users[u] = w.balMap(sim.Addr(u))
	}
	st["bal"] = bal
	st["ubal"] = users
	sup := map[string]int64{}
	for _, d := range w.Denoms {
		sup[d] = i64(app.BankKeeper.GetSupply(ctx, d).Amount)
	}
	st["supply"] = sup
	st["fixtureMint"] = w.FixtureMint

	name := map[string]string{}
	for _, u := range w.Cfg.Users {
		name[sim.Addr(u).String()] = u
	}
	who := func(a string) string {
		if n, ok := name[a]; ok {
			return n
		}
		if a == "" {
			return "none"
		}
		return "other"
	}
	vaults := []interface{}{}
	for _, v := range app.VaultKeeper.GetVaults(ctx) {
		vaults = append(vaults, map[string]interface{}{"id": v.Id, "owner": who(v.Owner), "app": v.AppId, "prod": v.ExtendedPairVaultID,
			"in": i64(v.AmountIn), "out": i64(v.AmountOut), "interest": i64(v.InterestAccumulated), "closing": i64(v.ClosingFeeAccumulated),
			"bt": v.BlockTime.Unix() - sim.GenesisTime.Unix(), "bh": v.BlockHeight})
	}
	st["vaults"] = vaults
	sv := []interface{}{}
	for _, v := range app.VaultKeeper.GetStableMintVaults(ctx) {
		sv = append(sv, map[string]interface{}{"id": v.Id, "app": v.AppId, "prod": v.ExtendedPairVaultID, "in": i64(v.AmountIn), "out": i64(v.AmountOut)})
	}
	st["svaults"] = sv
	st["vcount"] = app.VaultKeeper.GetLengthOfVault(ctx)
	st["vnext"] = app.VaultKeeper.GetIDForVault(ctx)
	tot := []interface{}{}
	for _, t := range app.VaultKeeper.GetAllAppExtendedPairVaultMapping(ctx) {
		ids := []uint64{}
		ids = append(ids, t.VaultIds...)
		sort.Slice(ids, func(i, j int) bool { return ids[i] < ids[j] })
		tot = append(tot, map[string]interface{}{"app": t.AppId, "prod": t.ExtendedPairId, "coll": i64(t.CollateralLockedAmount), "minted": i64(t.TokenMintedAmount), "ids": ids})
	}
	st["tot"] = tot
	locked := []interface{}{}
	for _, l := range app.NewliqKeeper.GetLockedVaults(ctx) {
		locked = append(locked, map[string]interface{}{"id": l.LockedVaultId, "app": l.AppId, "orig": l.OriginalVaultId, "prod": l.ExtendedPairId,
			"owner": who(l.Owner), "coll": i64(l.CollateralToken.Amount), "collD": l.CollateralToken.Denom, "debt": i64(l.DebtToken.Amount),
			"target": i64(l.TargetDebt.Amount), "fee": i64(l.FeeToBeCollected), "bonus": i64(l.BonusToBeGiven), "initiator": l.InitiatorType,
			"ikeeper": l.IsInternalKeeper, "keeper": who(l.InternalKeeperAddress), "dutch": l.AuctionType, "cmst": l.IsDebtCmst, "ext": who(l.ExternalKeeperAddress)})
	}
	st["locked"] = locked
	aucs := []interface{}{}
	for _, a := range app.NewaucKeeper.GetAuctions(ctx) {
		aucs = append(aucs, map[string]interface{}{"id": a.AuctionId, "app": a.AppId, "lv": a.LockedVaultId, "collLeft": i64(a.CollateralToken.Amount),
			"collD": a.CollateralToken.Denom, "debtLeft": i64(a.DebtToken.Amount), "debtD": a.DebtToken.Denom, "bonusLeft": i64(a.BonusAmount),
			"price": decL(a.CollateralTokenAuctionPrice), "init": decL(a.CollateralTokenInitialPrice), "dutch": a.AuctionType,
			"start": a.StartTime.Unix() - sim.GenesisTime.Unix(), "end": a.EndTime.Unix() - sim.GenesisTime.Unix(),
			"collA": a.CollateralAssetId, "debtA": a.DebtAssetId, "nbids": len(a.BiddingIds)})
	}
	st["auctions"] = aucs
	// first generation: locked vaults of x/liquidation, Dutch auctions of x/auction
	l1 := []interface{}{}
	for _, l := range app.LiquidationKeeper.GetLockedVaults(ctx) {
		l1 = append(l1, map[string]interface{}{"id": l.LockedVaultId, "app": l.AppId, "orig": l.OriginalVaultId, "prod": l.ExtendedPairId, "owner": who(l.Owner),
			"in": i64(l.AmountIn), "out": i64(l.AmountOut), "fees": i64(l.InterestAccumulated), "prog": l.IsAuctionInProgress, "done": l.IsAuctionComplete})
	}
	st["lockedV1"] = l1
	a1 := []interface{}{}
	for _, a := range app.AuctionKeeper.GetDutchAuctions(ctx, w.App1) {
		a1 = append(a1, map[string]interface{}{"id": a.AuctionId, "app": a.AppId, "lv": a.LockedVaultId, "map": a.AuctionMappingId,
			"collInit": i64(a.OutflowTokenInitAmount.Amount), "collLeft": i64(a.OutflowTokenCurrentAmount.Amount), "collD": a.OutflowTokenCurrentAmount.Denom,
			"debtGot": i64(a.InflowTokenCurrentAmount.Amount), "target": i64(a.InflowTokenTargetAmount.Amount), "debtD": a.InflowTokenTargetAmount.Denom,
			"price": decL(a.OutflowTokenCurrentPrice), "init": decL(a.OutflowTokenInitialPrice), "endp": decL(a.OutflowTokenEndPrice),
			"inPrice": a.InflowTokenCurrentPrice.TruncateInt64(), "start": a.StartTime.Unix() - sim.GenesisTime.Unix(), "end": a.EndTime.Unix() - sim.GenesisTime.Unix(),
			"status": int64(a.AuctionStatus), "owner": who(a.VaultOwner.String()), "nbids": len(a.BiddingIds), "collA": a.AssetOutId, "debtA": a.AssetInId})
	}
	st["auctionsV1"] = a1
	off1, _ := app.LiquidationKeeper.GetLiquidationOffsetHolder(ctx, w.App1, liqv1types.VaultLiquidationsOffsetPrefix)
	st["offsetV1"] = off1.CurrentOffset
	st["lockedV1next"] = app.LiquidationKeeper.GetLockedVaultID(ctx)
	st["auctionV1next"] = app.AuctionKeeper.GetAuctionID(ctx)
	nf := []interface{}{}
	for _, p := range w.Prods {
		_ = p
	}
	seen := map[string]bool{}
	for _, aid := range []uint64{w.Assets["ucm"], w.Assets["uat"], w.Assets["ust"], w.Assets["uus"]} {
		k := fmt.Sprintf("%d/%d", w.App1, aid)
		if seen[k] {
			continue
		}
		seen[k] = true
		d, found := app.CollectorKeeper.GetNetFeeCollectedData(ctx, w.App1, aid)
		amt := int64(0)
		if found {
			amt = i64(d.NetFeesCollected)
		}
		nf = append(nf, map[string]interface{}{"app": w.App1, "asset": aid, "amt": amt, "found": found})
	}
	st["netfees"] = nf
	prices := []interface{}{}
	for _, d := range []string{"ucm", "uat", "ust", "uus"} {
		t, found := app.MarketKeeper.GetTwa(ctx, w.Assets[d])
		prices = append(prices, map[string]interface{}{"denom": d, "asset": w.Assets[d], "twa": int64(t.Twa), "active": found && t.IsPriceActive})
	}
	st["prices"] = prices
	ks, _ := app.EsmKeeper.GetKillSwitchData(ctx, w.App1)
	es, efound := app.EsmKeeper.GetESMStatus(ctx, w.App1)
	st["ctl"] = map[string]interface{}{"breaker": ks.BreakerEnable, "esm": efound && es.Status}
	// emergency shutdown books: status flags, cool-off end, price snapshot, redemption data (debt registered / collateral held, shares)
	dep, _ := app.EsmKeeper.GetCurrentDepositStats(ctx, w.App1)
	depAmt := int64(0)
	if !dep.Balance.Amount.IsNil() {
		depAmt = i64(dep.Balance.Amount)
	}
	rel := func(t time.Time) int64 {
		if t.IsZero() || t.Unix() < sim.GenesisTime.Unix() {
			return 0
		}
		return t.Unix() - sim.GenesisTime.Unix()
	}
	esm := map[string]interface{}{"found": efound, "status": efound && es.Status, "start": rel(es.StartTime), "end": rel(es.EndTime), "snap": es.SnapshotStatus,
		"vaultRed": es.VaultRedemptionStatus, "stableRed": es.StableVaultRedemptionStatus, "collTx": es.CollectorTransaction, "shareCalc": es.ShareCalculation,
		"deposit": depAmt, "target": w.Cfg.EsmTarget}
	cool, cfound := app.EsmKeeper.GetDataAfterCoolOff(ctx, w.App1)
	esm["cool"] = map[string]interface{}{"found": cfound, "coll": decL(cool.CollateralTotalAmount), "debt": decL(cool.DebtTotalAmount)}
	ea := []interface{}{}
	for _, x := range app.EsmKeeper.GetAllAssetToAmount(ctx, w.App1) {
		dn := ""
		for d, id := range w.Assets {
			if id == x.AssetID {
				dn = d
			}
		}
		ea = append(ea, map[string]interface{}{"asset": x.AssetID, "denom": dn, "amt": i64(x.Amount), "coll": x.IsCollateral, "share": decL(x.Share), "worth": decL(x.DebtTokenWorth)})
	}
	esm["assets"] = ea
	sn := []interface{}{}
	for _, d := range []string{"ucm", "uat", "ust", "uus"} {
		pr, f := app.EsmKeeper.GetSnapshotOfPrices(ctx, w.App1, w.Assets[d])
		sn = append(sn, map[string]interface{}{"denom": d, "price": int64(pr), "found": f})
	}
	esm["snaps"] = sn
	st["esm"] = esm
	off, _ := app.NewliqKeeper.GetLiquidationOffsetHolder(ctx, liqtypes.VaultLiquidationsOffsetPrefix, 0)
	st["offset"] = off.CurrentOffset
	st["t"] = ctx.BlockTime().Unix() - sim.GenesisTime.Unix()
	st["h"] = ctx.BlockHeight()
	rf := []interface{}{}
	for _, d := range []string{"ust"} {
		r, found := app.NewliqKeeper.GetAppReserveFunds(ctx, w.App1, w.Assets[d])
		amt := int64(0)
		if found {
			amt = i64(r.TokenQuantity.Amount)
		}
		rf = append(rf, map[string]interface{}{"asset": w.Assets[d], "amt": amt})
	}
	st["reserve"] = rf
	ef, efFound := app.NewaucKeeper.GetAuctionLimitBidFeeDataExternal(ctx, w.Assets["ust"])
	efAmt := int64(0)
	if efFound {
		efAmt = i64(ef.Amount)
	}
	lf, lfFound := app.NewaucKeeper.GetAuctionLimitBidFeeData(ctx, w.Assets["ust"])
	lfAmt := int64(0)
	if lfFound {
		lfAmt = i64(lf.Amount)
	}
	st["aucfees"] = map[string]interface{}{"external": efAmt, "limit": lfAmt}
	return st
}

// Static part of the fixture, logged once on the root node (the spec's CONSTANT-like parameters).
func (w *World) ConfigJSON() map[string]interface{} {
	ps := []interface{}{}
	for _, p := range w.Prods {
		ps = append(ps, p)
	}
	return map[string]interface{}{"prods": ps, "decs": w.Decs, "assets": w.Assets, "batch": w.Cfg.Batch, "duration": w.Cfg.Duration,
		"users": w.Cfg.Users, "app": w.App1, "premium": Frac{6, 5}, "discount": Frac{7, 10}, "keeperIncentive": Frac{1, 10}, "interest": w.Cfg.Interest, "bonus": w.Cfg.Bonus, "extPenalty": Frac{1, 10},
		"esm": map[string]interface{}{"coolOff": w.Cfg.CoolOff, "target": w.Cfg.EsmTarget, "rates": map[string]int64{"ust": 1, "uus": 1}},
		"v1":  map[string]interface{}{"batch": w.Cfg.BatchV1, "duration": w.Cfg.DurationV1, "buffer": w.Cfg.BufferV1, "cusp": w.Cfg.CuspV1, "dutchMap": V1DutchMappingID}}
}

var _ = time.Second
var _ = esmtypes.ModuleName

// Record projects the state after action a, attaches the step labels and appends the node to the log.
func (w *World) Record(lg *sim.Log, par int, run string, root int, a Act, rs Res) (int, map[string]interface{}) {
	st := w.Project()
	ev := w.labels(w.last, st, a)
	w.last = st
	return lg.Add(par, run, a.A, a.Args(), rs, map[string]interface{}{"s": st, "root": root, "ev": ev}), st
}

// labels names what happened in a step, computed from the recorded pre- and post-state only (nothing is judged here): which
// emergency-shutdown stages were completed by this step, how many auctions of either generation were due for their
// emergency-shutdown close-out in it, how many vaults a block hook created. Known findings are keyed on these labels so that
// an entry matches exactly the kind of step it describes.
func (w *World) labels(pre, post map[string]interface{}, a Act) map[string]interface{} {
	flag := func(st map[string]interface{}, k string) bool {
		e, _ := st["esm"].(map[string]interface{})
		b, _ := e[k].(bool)
		return b
	}
	flip := func(k string) bool { return !flag(pre, k) && flag(post, k) }
	ev := map[string]interface{}{"esmSnap": flip("snap"), "esmVaultRed": flip("vaultRed"), "esmStableRed": flip("stableRed"),
		"esmCollTx": flip("collTx"), "esmShare": flip("shareCalc"), "esmOn": flag(pre, "status")}
	// the stable-vault stage completed in this step while stable-mint vault records existed (KF-C01-ESM-1 is about exactly those steps)
	nStable := 0
	if sv, ok := pre["svaults"].([]interface{}); ok {
		nStable = len(sv)
	}
	ev["esmStableLeft"] = flip("stableRed") && nStable > 0
	tPost, _ := post["t"].(int64)
	due := func(key string, only map[uint64]bool) int {
		n := 0
		if !flag(pre, "status") {
			return 0
		}
		list, _ := pre[key].([]interface{})
		for _, x := range list {
			m := x.(map[string]interface{})
			if d, ok := m["dutch"].(bool); ok && !d {
				continue
			}
			if only != nil && !only[m["lv"].(uint64)] {
				continue
			}
			if end, _ := m["end"].(int64); tPost > end {
				n++
			}
		}
		return n
	}
	vaultInit := map[uint64]bool{} // V2 locked vaults that came from a vault (TriggerEsm handles only those)
	if ls, ok := pre["locked"].([]interface{}); ok {
		for _, x := range ls {
			m := x.(map[string]interface{})
			if m["initiator"] == "vault" {
				vaultInit[m["id"].(uint64)] = true
			}
		}
	}
	ev["v2EsmDue"], ev["v1EsmDue"] = 0, 0
	// v2EsmStale: the step starts under shutdown with a vault-initiated V2 Dutch auction whose end time had already passed BEFORE this step, i.e. one
	// that an earlier block's TriggerEsm was due for and left in place (KF-C01-ESM-2a: the close-out never removes the auction and repeats)
	tPre, _ := pre["t"].(int64)
	stale := 0
	if flag(pre, "status") {
		list, _ := pre["auctions"].([]interface{})
		for _, x := range list {
			m := x.(map[string]interface{})
			if d, ok := m["dutch"].(bool); ok && !d {
				continue
			}
			if end, _ := m["end"].(int64); vaultInit[m["lv"].(uint64)] && tPre > end {
				stale++
			}
		}
	}
	ev["v2EsmStale"] = stale > 0
	if a.A == "Block" {
		ev["v2EsmDue"] = due("auctions", vaultInit)
	}
	if a.A == "V1Tick" {
		ev["v1EsmDue"] = due("auctionsV1", nil)
	}
	// v2Esm: a block under shutdown in which V2 TriggerEsm was due for a vault-initiated Dutch auction AND re-opened a vault (a new vault id, or an
	// existing vault's collateral grew - nothing else does that in a block under shutdown); a due close-out that failed and was rolled back is not labelled
	grew := false
	preIn := map[uint64]int64{}
	if vs, ok := pre["vaults"].([]interface{}); ok {
		for _, x := range vs {
			m := x.(map[string]interface{})
			preIn[m["id"].(uint64)] = m["in"].(int64)
		}
	}
	if vs, ok := post["vaults"].([]interface{}); ok {
		for _, x := range vs {
			m := x.(map[string]interface{})
			if old, had := preIn[m["id"].(uint64)]; !had || m["in"].(int64) > old {
				grew = true
			}
		}
	}
	ev["v2Esm"] = ev["v2EsmDue"].(int) > 0 && grew
	// v1Esm: a V1 tick under shutdown that closed out at least one V1 Dutch auction
	n1 := func(st map[string]interface{}) int { l, _ := st["auctionsV1"].([]interface{}); return len(l) }
	ev["v1Esm"] = ev["v1EsmDue"].(int) > 0 && n1(post) < n1(pre)
	ids := func(st map[string]interface{}) map[uint64]bool {
		out := map[uint64]bool{}
		list, _ := st["vaults"].([]interface{})
		for _, x := range list {
			out[x.(map[string]interface{})["id"].(uint64)] = true
		}
		return out
	}
	nv := 0
	if a.A != "Create" && a.A != "Init" {
		before := ids(pre)
		for id := range ids(post) {
			if !before[id] {
				nv++
			}
		}
	}
	ev["hookVaults"] = nv
	return ev
}
