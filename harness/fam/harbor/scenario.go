package harbor

import (
	"fmt"

	"vh/sim"
)

// scenarios: a few scripted histories that the random drivers reach only rarely; they are logged like every other
// run, so TLC judges all formulas on them. No expectation is encoded here.
//
//	ceiling: interest accrues on a large vault, the owner repays the interest plus part of the principal, then other
//	users mint exactly up to (and just beyond) the published headroom of the product's debt ceiling.
func scenarios(lg *sim.Log, seed int64) int {
	rng := sim.NewRng(seed + 7919)
	n := 0
	for k := 0; k < 3; k++ {
		cfg := configFor(int(seed)+k, rng)
		cfg.StabFee = []Frac{fr(9, 10), fr(1, 2), fr(3, 10)}[k%3]
		cfg.Interest = true
		cfg.DrawFee = []Frac{fr(0, 1), fr(1, 100), fr(1, 10)}[k%3]
		cfg.FundColl = 200000
		cfg.FundDebt = 30000 * cfg.DecS
		w := Setup(cfg)
		run := fmt.Sprintf("scn:ceiling:%d:%d", seed, k)
		par := rootNode(lg, w, run)
		root := par
		step := func(a Act) Res {
			rs := w.Do(a)
			par, _ = w.Record(lg, par, run, root, a, rs)
			return rs
		}
		p := w.Prods[0]
		big := p.Ceiling * 3 / 4
		step(Act{A: "Create", U: "u1", P: p.ID, X: 150000, Y: big})
		// a second vault that is closed later WITHOUT an interest calculation in between: the interest accrues inside the close itself
		step(Act{A: "Create", U: "u3", P: p.ID, X: 20000, Y: 40 * cfg.DecS})
		for i := 0; i < 2+rng.Intn(3); i++ {
			step(Act{A: "Block", Y: []int64{31536000, 2592000 * 3, 86400 * 200}[rng.Intn(3)]})
			step(Act{A: "InterestCalc", U: "u2", V: 1})
		}
		var v vaultView
		for _, x := range w.vaultsView() {
			if x.id == 1 {
				v = x
			}
		}
		if v.id == 1 {
			step(Act{A: "Repay", U: "u1", P: p.ID, V: 1, X: v.int + 1 + int64(rng.Intn(40))*cfg.DecS})
		}
		step(Act{A: "Close", U: "u3", P: p.ID, V: 2})
		for _, u := range []string{"u2", "u3"} {
			h := w.headroom(&p)
			step(Act{A: "Create", U: u, P: p.ID, X: 150000, Y: clampPos(h - int64(rng.Intn(2)))})
			step(Act{A: "Draw", U: u, P: p.ID, V: uint64(w.App.VaultKeeper.GetIDForVault(w.Ctx)), X: w.headroom(&p) + 1 - int64(rng.Intn(3))})
		}
		step(Act{A: "Block", Y: 5})
		n++
	}
	// crossed: one owner holds vaults on several products; every owner message is sent with the vault id of one product and the
	// product id of another one of HIS products (ids that do not belong together); then a dust deposit-and-draw (the proportional
	// draw truncates to zero) on a vault that a price move has left below its minimum ratio, and once more with the feed switched off.
	for k := 0; k < 2; k++ {
		cfg := configFor(int(seed)+k, rng)
		cfg.DecC, cfg.DecA, cfg.DecS = 1, 1, 1
		cfg.Decoy = k == 1
		cfg.FundColl = 200000
		w := Setup(cfg)
		run := fmt.Sprintf("scn:crossed:%d:%d", seed, k)
		par := rootNode(lg, w, run)
		root := par
		step := func(a Act) Res {
			rs := w.Do(a)
			par, _ = w.Record(lg, par, run, root, a, rs)
			return rs
		}
		p1, p2, p4 := w.Prods[0], w.Prods[1], w.Prods[3]
		step(Act{A: "Create", U: "u1", P: p1.ID, X: 300, Y: 100})
		step(Act{A: "Create", U: "u1", P: p2.ID, X: 300, Y: 90})
		step(Act{A: "Create", U: "u1", P: p4.ID, X: 300, Y: 80})
		step(Act{A: "Create", U: "u2", P: p1.ID, X: 300, Y: 70})
		ids := map[uint64]uint64{}
		for _, v := range w.vaultsView() {
			if v.owner == "u1" {
				ids[v.prod] = v.id
			}
		}
		for _, pr := range [][2]uint64{{p1.ID, p4.ID}, {p4.ID, p1.ID}, {p1.ID, p2.ID}, {p2.ID, p4.ID}} {
			for _, nm := range []string{"Deposit", "Withdraw", "Draw", "Repay", "DepositDraw", "Close"} {
				// on a branch: a wrongly accepted message must not derail the rest of the scenario
				c := w.Fork()
				a := Act{A: nm, U: "u1", V: ids[pr[0]], P: pr[1], X: 10}
				rs := c.Do(a)
				c.Record(lg, par, run, root, a, rs)
			}
		}
		// vault at its minimum ratio, then the collateral price falls: unsafe, not yet swept (no block in between)
		// debt below the collateral count (so that debt * 1 / collateral truncates to zero) yet unsafe once the price has halved
		step(Act{A: "Create", U: "u3", P: p1.ID, X: 240, Y: 200})
		step(Act{A: "Price", D: "ucm", Y: 1, On: true})
		var v3 uint64
		for _, v := range w.vaultsView() {
			if v.owner == "u3" {
				v3 = v.id
			}
		}
		for _, x := range []int64{1, 2} {
			c := w.Fork()
			a := Act{A: "DepositDraw", U: "u3", P: p1.ID, V: v3, X: x}
			rs := c.Do(a)
			c.Record(lg, par, run, root, a, rs)
		}
		step(Act{A: "Price", D: "ucm", Y: 2, On: false})
		for _, x := range []int64{1, 2} {
			c := w.Fork()
			a := Act{A: "DepositDraw", U: "u3", P: p1.ID, V: v3, X: x}
			rs := c.Do(a)
			c.Record(lg, par, run, root, a, rs)
		}
		n++
	}
	// bonusband: two externally initiated auctions of one collateral denom with an auction bonus; the price of the first one
	// is walked down second by second, and at every second a closing (over-sized) bid is tried on a branch: somewhere on the
	// way the collateral left covers the bid but not bid + bonus (the bidder may never be handed more than was seized).
	for k := 0; k < 2; k++ {
		cfg := configFor(int(seed)+k, rng)
		cfg.Bonus = []Frac{fr(1, 10), fr(1, 20)}[k%2]
		cfg.Duration = 60
		cfg.DecC, cfg.DecA, cfg.DecS = 1, 1, 1
		cfg.FundColl = 200000
		cfg.FundDebt = 30000
		cfg.Decoy = false
		w := Setup(cfg)
		run := fmt.Sprintf("scn:bonusband:%d:%d", seed, k)
		par := rootNode(lg, w, run)
		root := par
		step := func(a Act) Res {
			rs := w.Do(a)
			par, _ = w.Record(lg, par, run, root, a, rs)
			return rs
		}
		step(Act{A: "Reserve", U: "u1", D: "ust", X: 5000})
		// small debts: the penalty stays below 10 units, so the keeper incentive rounds to zero (a closing bid on an external auction with a
		// positive incentive fails: the incentive is sent to the empty internal-keeper address); collateral scarce enough that the falling
		// price crosses the point where it no longer covers debt + bonus
		step(Act{A: "LiqExt", U: "u1", D: "ucm", X: 60, Y: 90})
		step(Act{A: "LiqExt", U: "u2", D: "ucm", X: 80, Y: 90})
		for t := 0; t < 62; t++ {
			step(Act{A: "Block", Y: 1})
			for _, au := range w.App.NewaucKeeper.GetAuctions(w.Ctx) {
				if au.AuctionId != 1 {
					continue
				}
				c := w.Fork()
				a := Act{A: "Bid", U: "u2", V: 1, D: "ust", X: 20000} // u2 is neither the owner (u3) nor the initiator (u1) of auction 1
				rs := c.Do(a)
				c.Record(lg, par, run, root, a, rs)
			}
		}
		n++
	}
	return n
}
