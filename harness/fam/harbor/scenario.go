package harbor

import (
	"fmt"

	"vh/sim"
)

// scenarios: a few scripted histories that the random drivers reach only rarely; they are logged like every other
// run, so TLC judges all formulas on them. No expectation is encoded here.
//
//	ceiling: interest accrues on a large vault, the owner repays the interest plus part of the principal, then other
//	users mint exactly up to (and just beyond) the published headroom of the product's debt ceiling.
func scenarios(lg *sim.Log, seed int64) int {
	rng := sim.NewRng(seed + 7919)
	n := 0
	for k := 0; k < 3; k++ {
		cfg := configFor(int(seed)+k, rng)
		cfg.StabFee = []Frac{fr(9, 10), fr(1, 2), fr(3, 10)}[k%3]
		cfg.Interest = true
		cfg.DrawFee = []Frac{fr(0, 1), fr(1, 100), fr(1, 10)}[k%3]
		cfg.FundColl = 200000
		cfg.FundDebt = 30000 * cfg.DecS
		w := Setup(cfg)
		run := fmt.Sprintf("scn:ceiling:%d:%d", seed, k)
		par := rootNode(lg, w, run)
		root := par
		step := func(a Act) Res {
			rs := w.Do(a)
			par, _ = w.Record(lg, par, run, root, a, rs)
			return rs
		}
		p := w.Prods[0]
		big := p.Ceiling * 3 / 4
		step(Act{A: "Create", U: "u1", P: p.ID, X: 150000, Y: big})
		for i := 0; i < 2+rng.Intn(3); i++ {
			step(Act{A: "Block", Y: []int64{31536000, 2592000 * 3, 86400 * 200}[rng.Intn(3)]})
			step(Act{A: "InterestCalc", U: "u2", V: 1})
		}
		var v vaultView
		for _, x := range w.vaultsView() {
			if x.id == 1 {
				v = x
			}
		}
		if v.id == 1 {
			step(Act{A: "Repay", U: "u1", P: p.ID, V: 1, X: v.int + 1 + int64(rng.Intn(40))*cfg.DecS})
		}
		for _, u := range []string{"u2", "u3"} {
			h := w.headroom(&p)
			step(Act{A: "Create", U: u, P: p.ID, X: 150000, Y: clampPos(h - int64(rng.Intn(2)))})
			step(Act{A: "Draw", U: u, P: p.ID, V: uint64(w.App.VaultKeeper.GetIDForVault(w.Ctx)), X: w.headroom(&p) + 1 - int64(rng.Intn(3))})
		}
		step(Act{A: "Block", Y: 5})
		n++
	}
	return n
}
