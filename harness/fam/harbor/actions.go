package harbor

import (
	"time"

	sdk "github.com/cosmos/cosmos-sdk/types"

	auctypes "github.com/comdex-official/comdex/x/auctionsV2/types"
	esmtypes "github.com/comdex-official/comdex/x/esm/types"
	liqtypes "github.com/comdex-official/comdex/x/liquidationsV2/types"
	vaulttypes "github.com/comdex-official/comdex/x/vault/types"

	"vh/sim"
)

// Act is one action instance of the specification (name + arguments), executable on the real code.
type Act struct {
	A  string `json:"a"`
	U  string `json:"u"`  // actor
	P  uint64 `json:"p"`  // product (extended pair vault id)
	V  uint64 `json:"v"`  // vault / stable vault / auction id
	X  int64  `json:"x"`  // amount
	Y  int64  `json:"y"`  // second amount / price / seconds
	D  string `json:"d"`  // denom
	On bool   `json:"on"` // flag
}

func (a Act) Args() map[string]interface{} {
	d := a.D
	if d == "" {
		d = "-"
	}
	u := a.U
	if u == "" {
		u = "-"
	}
	return map[string]interface{}{"u": u, "p": a.P, "v": a.V, "x": a.X, "y": a.Y, "d": d, "on": a.On}
}

type Res struct {
	OK    bool   `json:"ok"`
	Code  string `json:"code"`
	Panic bool   `json:"panic"`
	Err   string `json:"err"`
}

func res(r sim.Result) Res {
	e := r.Err
	if len(e) > 160 {
		e = e[:160]
	}
	return Res{OK: r.OK, Code: r.Code, Panic: r.Panic, Err: e}
}

// Do executes the action on the real application (router + cache-wrap atomicity for messages).
func (w *World) Do(a Act) Res {
	from := ""
	if a.U != "" {
		from = sim.Addr(a.U).String()
	}
	app := w.App1
	switch a.A {
	case "Create":
		return res(w.Deliver(&vaulttypes.MsgCreateRequest{From: from, AppId: app, ExtendedPairVaultId: a.P, AmountIn: sdk.NewInt(a.X), AmountOut: sdk.NewInt(a.Y)}))
	case "Deposit":
		return res(w.Deliver(&vaulttypes.MsgDepositRequest{From: from, AppId: app, ExtendedPairVaultId: a.P, UserVaultId: a.V, Amount: sdk.NewInt(a.X)}))
	case "Withdraw":
		return res(w.Deliver(&vaulttypes.MsgWithdrawRequest{From: from, AppId: app, ExtendedPairVaultId: a.P, UserVaultId: a.V, Amount: sdk.NewInt(a.X)}))
	case "Draw":
		return res(w.Deliver(&vaulttypes.MsgDrawRequest{From: from, AppId: app, ExtendedPairVaultId: a.P, UserVaultId: a.V, Amount: sdk.NewInt(a.X)}))
	case "Repay":
		return res(w.Deliver(&vaulttypes.MsgRepayRequest{From: from, AppId: app, ExtendedPairVaultId: a.P, UserVaultId: a.V, Amount: sdk.NewInt(a.X)}))
	case "Close":
		return res(w.Deliver(&vaulttypes.MsgCloseRequest{From: from, AppId: app, ExtendedPairVaultId: a.P, UserVaultId: a.V}))
	case "DepositDraw":
		return res(w.Deliver(&vaulttypes.MsgDepositAndDrawRequest{From: from, AppId: app, ExtendedPairVaultId: a.P, UserVaultId: a.V, Amount: sdk.NewInt(a.X)}))
	case "SCreate":
		return res(w.Deliver(&vaulttypes.MsgCreateStableMintRequest{From: from, AppId: app, ExtendedPairVaultId: a.P, Amount: sdk.NewInt(a.X)}))
	case "SDeposit":
		return res(w.Deliver(&vaulttypes.MsgDepositStableMintRequest{From: from, AppId: app, ExtendedPairVaultId: a.P, Amount: sdk.NewInt(a.X), StableVaultId: a.V}))
	case "SWithdraw":
		return res(w.Deliver(&vaulttypes.MsgWithdrawStableMintRequest{From: from, AppId: app, ExtendedPairVaultId: a.P, Amount: sdk.NewInt(a.X), StableVaultId: a.V}))
	case "InterestCalc":
		return res(w.Deliver(&vaulttypes.MsgVaultInterestCalcRequest{From: from, AppId: app, UserVaultId: a.V}))
	case "Liquidate":
		return res(w.Deliver(&liqtypes.MsgLiquidateInternalKeeperRequest{From: from, LiqType: 0, Id: a.V}))
	case "Bid":
		return res(w.Deliver(&auctypes.MsgPlaceMarketBidRequest{AuctionId: a.V, Bidder: from, Amount: sdk.NewInt64Coin(a.D, a.X)}))
	case "LiqExt": // externally initiated auction: the liquidator brings collateral X of denom D and asks for debt Y; owner = user named in P? no: owner = "u3"
		return res(w.Deliver(&liqtypes.MsgLiquidateExternalKeeperRequest{From: from, AppId: app, Owner: sim.Addr("u3").String(),
			CollateralToken: sdk.NewInt64Coin(a.D, a.X), DebtToken: sdk.NewInt64Coin("ust", a.Y), CollateralAssetId: w.Assets[a.D], DebtAssetId: w.Assets["ust"], IsDebtCmst: false}))
	case "Reserve":
		return res(w.Deliver(&liqtypes.MsgAppReserveFundsRequest{AppId: app, AssetId: w.Assets[a.D], TokenQuantity: sdk.NewInt64Coin(a.D, a.X), From: from}))
	case "Price": // environment: oracle publishes a new value / switches the feed off
		w.SetPrice(w.Assets[a.D], uint64(a.Y), a.On)
		return Res{OK: true}
	case "Breaker": // environment: the admin's kill switch (the admin check itself is C12's matrix)
		w.App.EsmKeeper.SetKillSwitchData(w.Ctx, esmtypes.KillSwitchParams{AppId: app, BreakerEnable: a.On})
		return Res{OK: true}
	case "Block":
		br := w.NextBlock(time.Duration(a.Y) * time.Second)
		return Res{OK: !br.Panic, Panic: br.Panic, Err: br.Err}
	}
	return Res{OK: false, Err: "unknown action " + a.A}
}
