package harbor

import (
	"fmt"
	"time"

	abci "github.com/cometbft/cometbft/abci/types"
	sdk "github.com/cosmos/cosmos-sdk/types"

	aucv1 "github.com/comdex-official/comdex/x/auction"
	aucv1types "github.com/comdex-official/comdex/x/auction/types"
	auctypes "github.com/comdex-official/comdex/x/auctionsV2/types"
	esmtypes "github.com/comdex-official/comdex/x/esm/types"
	liqv1 "github.com/comdex-official/comdex/x/liquidation"
	liqv1types "github.com/comdex-official/comdex/x/liquidation/types"
	liqtypes "github.com/comdex-official/comdex/x/liquidationsV2/types"
	vaulttypes "github.com/comdex-official/comdex/x/vault/types"

	"vh/sim"
)

// Act is one action instance of the specification (name + arguments), executable on the real code.
type Act struct {
	A  string `json:"a"`
	U  string `json:"u"`  // actor
	P  uint64 `json:"p"`  // product (extended pair vault id)
	V  uint64 `json:"v"`  // vault / stable vault / auction id
	X  int64  `json:"x"`  // amount
	Y  int64  `json:"y"`  // second amount / price / seconds
	D  string `json:"d"`  // denom
	On bool   `json:"on"` // flag
}

func (a Act) Args() map[string]interface{} {
	d := a.D
	if d == "" {
		d = "-"
	}
	u := a.U
	if u == "" {
		u = "-"
	}
	return map[string]interface{}{"u": u, "p": a.P, "v": a.V, "x": a.X, "y": a.Y, "d": d, "on": a.On}
}

type Res struct {
	OK    bool   `json:"ok"`
	Code  string `json:"code"`
	Panic bool   `json:"panic"`
	Err   string `json:"err"`
}

func res(r sim.Result) Res {
	e := r.Err
	if len(e) > 160 {
		e = e[:160]
	}
	return Res{OK: r.OK, Code: r.Code, Panic: r.Panic, Err: e}
}

// Do executes the action on the real application (router + cache-wrap atomicity for messages).
func (w *World) Do(a Act) Res {
	from := ""
	if a.U != "" {
		from = sim.Addr(a.U).String()
	}
	app := w.App1
	switch a.A {
	case "Create":
		return res(w.Deliver(&vaulttypes.MsgCreateRequest{From: from, AppId: app, ExtendedPairVaultId: a.P, AmountIn: sdk.NewInt(a.X), AmountOut: sdk.NewInt(a.Y)}))
	case "Deposit":
		return res(w.Deliver(&vaulttypes.MsgDepositRequest{From: from, AppId: app, ExtendedPairVaultId: a.P, UserVaultId: a.V, Amount: sdk.NewInt(a.X)}))
	case "Withdraw":
		return res(w.Deliver(&vaulttypes.MsgWithdrawRequest{From: from, AppId: app, ExtendedPairVaultId: a.P, UserVaultId: a.V, Amount: sdk.NewInt(a.X)}))
	case "Draw":
		return res(w.Deliver(&vaulttypes.MsgDrawRequest{From: from, AppId: app, ExtendedPairVaultId: a.P, UserVaultId: a.V, Amount: sdk.NewInt(a.X)}))
	case "Repay":
		return res(w.Deliver(&vaulttypes.MsgRepayRequest{From: from, AppId: app, ExtendedPairVaultId: a.P, UserVaultId: a.V, Amount: sdk.NewInt(a.X)}))
	case "Close":
		return res(w.Deliver(&vaulttypes.MsgCloseRequest{From: from, AppId: app, ExtendedPairVaultId: a.P, UserVaultId: a.V}))
	case "DepositDraw":
		return res(w.Deliver(&vaulttypes.MsgDepositAndDrawRequest{From: from, AppId: app, ExtendedPairVaultId: a.P, UserVaultId: a.V, Amount: sdk.NewInt(a.X)}))
	case "SCreate":
		return res(w.Deliver(&vaulttypes.MsgCreateStableMintRequest{From: from, AppId: app, ExtendedPairVaultId: a.P, Amount: sdk.NewInt(a.X)}))
	case "SDeposit":
		return res(w.Deliver(&vaulttypes.MsgDepositStableMintRequest{From: from, AppId: app, ExtendedPairVaultId: a.P, Amount: sdk.NewInt(a.X), StableVaultId: a.V}))
	case "SWithdraw":
		return res(w.Deliver(&vaulttypes.MsgWithdrawStableMintRequest{From: from, AppId: app, ExtendedPairVaultId: a.P, Amount: sdk.NewInt(a.X), StableVaultId: a.V}))
	case "InterestCalc":
		return res(w.Deliver(&vaulttypes.MsgVaultInterestCalcRequest{From: from, AppId: app, UserVaultId: a.V}))
	case "Liquidate":
		return res(w.Deliver(&liqtypes.MsgLiquidateInternalKeeperRequest{From: from, LiqType: 0, Id: a.V}))
	case "Bid":
		return res(w.Deliver(&auctypes.MsgPlaceMarketBidRequest{AuctionId: a.V, Bidder: from, Amount: sdk.NewInt64Coin(a.D, a.X)}))
	case "LiqExt": // externally initiated auction: the liquidator brings collateral X of denom D and asks for debt Y; owner = user named in P? no: owner = "u3"
		return res(w.Deliver(&liqtypes.MsgLiquidateExternalKeeperRequest{From: from, AppId: app, Owner: sim.Addr("u3").String(),
			CollateralToken: sdk.NewInt64Coin(a.D, a.X), DebtToken: sdk.NewInt64Coin("ust", a.Y), CollateralAssetId: w.Assets[a.D], DebtAssetId: w.Assets["ust"], IsDebtCmst: false}))
	case "Reserve":
		return res(w.Deliver(&liqtypes.MsgAppReserveFundsRequest{AppId: app, AssetId: w.Assets[a.D], TokenQuantity: sdk.NewInt64Coin(a.D, a.X), From: from}))
	case "V1Liquidate": // first-generation liquidate message (reachable on a real chain although the V1 sweep is not wired)
		return res(w.Deliver(&liqv1types.MsgLiquidateVaultRequest{From: from, AppId: app, VaultId: a.V}))
	case "V1Bid": // first-generation Dutch bid: the bidder names the COLLATERAL amount wanted (X of denom D); the handler computes the debt to pay
		return res(w.Deliver(&aucv1types.MsgPlaceDutchBidRequest{AuctionId: a.V, Bidder: from, Amount: sdk.Coin{Denom: a.D, Amount: sdk.NewInt(a.X)},
			AppId: app, AuctionMappingId: V1DutchMappingID}))
	case "V1Sweep": // environment: x/liquidation's begin blocker (not wired in app.go; called directly, as the repository's tests do)
		return w.hook(func() { liqv1.BeginBlocker(w.Ctx, abci.RequestBeginBlock{}, w.App.LiquidationKeeper) })
	case "V1Tick": // environment: x/auction's begin blocker (price update / restart of V1 Dutch auctions)
		return w.hook(func() {
			aucv1.BeginBlocker(w.Ctx, w.App.AuctionKeeper, w.App.AssetKeeper, w.App.CollectorKeeper, w.App.EsmKeeper)
		})
	case "EsmDeposit": // emergency shutdown: governance-token deposit towards the trigger target
		return res(w.Deliver(&esmtypes.MsgDepositESM{AppId: app, Depositor: from, Amount: sdk.NewInt64Coin("uhb", a.X)}))
	case "EsmExecute":
		return res(w.Deliver(&esmtypes.MsgExecuteESM{AppId: app, Depositor: from}))
	case "EsmRedeem": // after the cool-off: hand in debt coins for the pro-rata share of the collateral registered for redemption
		d := a.D
		if d == "" || d == "-" {
			d = "ust"
		}
		return res(w.Deliver(&esmtypes.MsgCollateralRedemptionRequest{AppId: app, Amount: sdk.NewInt64Coin(d, a.X), From: from}))
	case "Price": // environment: oracle publishes a new value / switches the feed off
		w.SetPrice(w.Assets[a.D], uint64(a.Y), a.On)
		return Res{OK: true}
	case "Breaker": // environment: the admin's kill switch (the admin check itself is C12's matrix)
		w.App.EsmKeeper.SetKillSwitchData(w.Ctx, esmtypes.KillSwitchParams{AppId: app, BreakerEnable: a.On})
		return Res{OK: true}
	case "Block":
		br := w.NextBlock(time.Duration(a.Y) * time.Second)
		return Res{OK: !br.Panic, Panic: br.Panic, Err: br.Err}
	}
	return Res{OK: false, Err: "unknown action " + a.A}
}

// hook runs an unwired begin blocker on a cache branch of the working context: a panic escaping the hook is
// recorded (it would halt a chain that wires the hook) and leaves the state untouched, like a failed block.
func (w *World) hook(f func()) (r Res) {
	keep := w.Ctx
	cctx, write := w.Ctx.CacheContext()
	w.Ctx = cctx
	defer func() {
		w.Ctx = keep
		if p := recover(); p != nil {
			e := fmt.Sprint(p)
			if len(e) > 160 {
				e = e[:160]
			}
			r = Res{OK: false, Panic: true, Err: e}
			return
		}
		write()
	}()
	f()
	return Res{OK: true}
}
