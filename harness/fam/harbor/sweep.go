package harbor

import (
	"bufio"
	"encoding/json"
	"fmt"
	"os"

	"vh/sim"
)

// sweepDoc is one behaviour of MC_Sweep (spec/sweep): the model's action history.
type sweepDoc struct {
	Kind string `json:"kind"`
	Hist []struct {
		A  string `json:"a"`
		ID uint64 `json:"id"`
	} `json:"hist"`
	B     uint64   `json:"b"`
	N0    int      `json:"n0"`
	Risky []uint64 `json:"risky"`
}

// sweepReplay executes behaviours of the sweep model on real vaults: model position k = vault id k owned by
// user uk on product 1; "risky" positions are created at the minimum ratio (unsafe after the price drop), the
// others far above it. Every step is logged like any other harbor step, so TLC judges C09 (and the rest) on it.
func sweepReplay(lg *sim.Log, path string, max int, seed int64) (int, error) {
	f, err := os.Open(path)
	if err != nil {
		return 0, err
	}
	defer f.Close()
	var docs []sweepDoc
	seen := map[string]bool{}
	sc := bufio.NewScanner(f)
	sc.Buffer(make([]byte, 1<<20), 1<<26)
	for sc.Scan() {
		js := sim.TLCJSON(sc.Text())
		if js == "" {
			continue
		}
		var d sweepDoc
		if err := json.Unmarshal([]byte(js), &d); err != nil {
			return 0, err
		}
		// a behaviour printed at depth D and D+1 shares its prefix: keep the longest only once per prefix key
		key := fmt.Sprint(d.Kind, d.B, d.N0, d.Risky, d.Hist[:minInt(len(d.Hist), 12)])
		if seen[key] {
			continue
		}
		seen[key] = true
		docs = append(docs, d)
	}
	rng := sim.NewRng(seed)
	rng.Shuffle(len(docs), func(i, j int) { docs[i], docs[j] = docs[j], docs[i] })
	n := 0
	for _, d := range docs {
		if n >= max {
			break
		}
		n++
		v1 := n%2 == 0 // every second behaviour is replayed on the first-generation sweep (x/liquidation's begin blocker as the block action)
		users := []string{}
		for k := 1; k <= d.N0+4; k++ {
			users = append(users, fmt.Sprintf("u%d", k))
		}
		cfg := Config{Bonus: fr(0, 1), DecC: 1, DecA: 1, DecS: 1, DecU: 1, DrawFee: fr(0, 1), CloseFee: fr(0, 1), StabFee: fr(0, 1), Batch: d.B, Duration: 3600,
			Users: users, FundColl: 5000, FundDebt: 500, Decoy: n%4 >= 2}
		w := Setup(cfg)
		run := "sweep" + d.Kind
		par := rootNode(lg, w, run)
		root := par
		risky := map[uint64]bool{}
		for _, r := range d.Risky {
			risky[r] = true
		}
		p1 := w.Prods[0].ID
		// every third behaviour: the positions that are not risky sit on the second product (another collateral), whose oracle price goes
		// inactive at the drop - each of them is a unit of the sweep that FAILS (ratio not computable) and must not hold up the others
		stuck := n%3 == 0
		p2 := w.Prods[1].ID
		step := func(a Act) Res {
			rs := w.Do(a)
			par, _ = w.Record(lg, par, run, root, a, rs)
			return rs
		}
		create := func(id uint64) {
			in := int64(300)
			if risky[id] {
				in = 30
			}
			if stuck && !risky[id] {
				step(Act{A: "Create", U: fmt.Sprintf("u%d", id), P: p2, X: in, Y: 10})
				return
			}
			step(Act{A: "Create", U: fmt.Sprintf("u%d", id), P: p1, X: in, Y: 40})
		}
		for k := 1; k <= d.N0; k++ {
			create(uint64(k))
		}
		for _, h := range d.Hist {
			switch h.A {
			case "Drop":
				step(Act{A: "Price", D: "ucm", Y: 1, On: true})
				if stuck {
					step(Act{A: "Price", D: "uat", Y: 3, On: false})
				}
			case "Block":
				if v1 {
					step(Act{A: "V1Sweep"})
				} else {
					step(Act{A: "Block", Y: 5})
				}
			case "Create":
				create(h.ID)
			case "Close":
				pc := p1
				if stuck && !risky[h.ID] {
					pc = p2
				}
				step(Act{A: "Close", U: fmt.Sprintf("u%d", h.ID), P: pc, V: h.ID})
			}
		}
	}
	return n, nil
}

func minInt(a, b int) int {
	if a < b {
		return a
	}
	return b
}
