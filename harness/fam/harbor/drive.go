package harbor

import (
	sdk "github.com/cosmos/cosmos-sdk/types"

	"bufio"
	"crypto/sha256"
	"encoding/hex"
	"encoding/json"
	"flag"
	"fmt"
	"os"
	"sort"

	"vh/sim"
)

func fr(n, d int64) Frac { return Frac{n, d} }

// configs: the configuration axis of C02/C03 (fee settings x decimal scales), cycled by run number.
func configFor(k int, rng *sim.Rng) Config {
	// (collateral CMDX, collateral ATOM, debt, stable-in); both directions of differing scales for each collateral/debt pair
	decs := [][4]int64{{1, 1, 1, 1}, {1, 1, 10, 1}, {10, 1, 1, 10}, {1, 10, 10, 100}, {10, 1, 100, 10}, {1, 1, 1, 10}, {1, 10, 1, 10}, {10, 100, 10, 1}}
	draws := []Frac{fr(0, 1), fr(1, 10), fr(1, 100), fr(1, 4)}
	closes := []Frac{fr(0, 1), fr(1, 20), fr(0, 1)}
	stabs := []Frac{fr(0, 1), fr(0, 1), fr(1, 2), fr(9, 10)}
	d := decs[k%len(decs)]
	c := Config{DecC: d[0], DecA: d[1], DecS: d[2], DecU: d[3], DrawFee: draws[(k/2)%len(draws)], CloseFee: closes[(k/3)%len(closes)],
		StabFee: stabs[k%len(stabs)], Batch: uint64(1 + rng.Intn(3)), Duration: uint64([]int{10, 60, 7, 3600}[rng.Intn(4)]),
		Users: []string{"u1", "u2", "u3"}, FundColl: 20000, FundDebt: 3000, Bonus: []Frac{fr(0, 1), fr(1, 20), fr(1, 10)}[k%3]}
	// first generation: own batch size and duration (durations whose time-to-zero-price is not a whole number of seconds included), buffer and cusp
	c.BatchV1 = uint64(1 + rng.Intn(3))
	c.DurationV1 = uint64([]int{10, 60, 7, 300}[rng.Intn(4)])
	c.BufferV1 = []Frac{fr(6, 5), fr(3, 2), fr(1, 1)}[k%3]
	c.CuspV1 = []Frac{fr(7, 10), fr(3, 5), fr(1, 2)}[(k/2)%3]
	c.Interest = c.StabFee.Num > 0
	c.Decoy = rng.Intn(2) == 1
	if rng.Intn(3) == 0 {
		c.FixedOutPrice = 2
	}
	if rng.Intn(2) == 1 { // about every other run: a collector that can cover the whole debt of any auction (loss close-outs that draw more than the shortfall succeed too)
		c.CollectorFund = 1000 * c.DecS
	}
	return c
}

type vaultView struct {
	id, prod          uint64
	owner             string
	in, out, int, cls int64
}

func (w *World) vaultsView() []vaultView {
	name := map[string]string{}
	for _, u := range w.Cfg.Users {
		name[sim.Addr(u).String()] = u
	}
	var out []vaultView
	for _, v := range w.App.VaultKeeper.GetVaults(w.Ctx) {
		out = append(out, vaultView{v.Id, v.ExtendedPairVaultID, name[v.Owner], i64(v.AmountIn), i64(v.AmountOut), i64(v.InterestAccumulated), i64(v.ClosingFeeAccumulated)})
	}
	return out
}

func (w *World) price(denom string) int64 {
	t, _ := w.App.MarketKeeper.GetTwa(w.Ctx, w.Assets[denom])
	return int64(t.Twa)
}

// maxDebt = largest debt d with in*pIn*dOut*crDen >= crNum*d*pOut*dIn  (boundary generator for the drivers only).
func (w *World) maxDebt(p *Product, in int64) int64 {
	pIn := w.price(p.CollD)
	pOut := p.OutPrice
	if p.OutOracle {
		pOut = w.price(p.DebtD)
	}
	den := p.MinCr.Num * pOut * w.Decs[p.CollD]
	if den == 0 {
		return 0
	}
	return in * pIn * w.Decs[p.DebtD] * p.MinCr.Den / den
}

// headroom = ceiling - published minted total of the product (what the handlers compare with); boundary generator only.
func (w *World) headroom(p *Product) int64 {
	d, _ := w.App.VaultKeeper.GetAppExtendedPairVaultMappingData(w.Ctx, w.App1, p.ID)
	m := int64(0)
	if !d.TokenMintedAmount.IsNil() {
		m = i64(d.TokenMintedAmount)
	}
	return clampPos(p.Ceiling - m)
}

func clampPos(x int64) int64 {
	if x < 0 {
		return 0
	}
	return x
}

// pick a random, boundary-biased action for the current real state
func (w *World) randomAct(rng *sim.Rng) Act {
	users := w.Cfg.Users
	u := users[rng.Intn(len(users))]
	vs := w.vaultsView()
	jit := func(x int64) int64 { return clampPos(x + int64(rng.Intn(3)) - 1) }
	small := []int64{0, 1, 2, 3, 5, 7, 10, 13, 20, 50}
	// ordinary runs keep the second generation in front (the first generation gets its own biased runs below)
	weights := []int{16, 6, 8, 10, 8, 4, 4, 3, 3, 3, 3, 6, 18, 6, 12, 1, 2, 3, 2, 4, 1, 2}
	if w.V1Bias { // runs in which the first generation does most of the liquidating (fewer blocks = fewer V2 sweeps)
		weights = []int{16, 6, 8, 10, 8, 4, 4, 3, 3, 3, 3, 1, 4, 8, 6, 1, 1, 1, 14, 20, 8, 10}
	}
	names := []string{"Create", "Deposit", "Withdraw", "Draw", "Repay", "Close", "DepositDraw", "SCreate", "SDeposit", "SWithdraw", "InterestCalc", "Liquidate", "Bid", "Price", "Block", "Breaker", "Reserve", "LiqExt",
		"V1Liquidate", "V1Bid", "V1Sweep", "V1Tick"}
	if w.Esm { // emergency shutdown: rare in ordinary runs, headed for in EsmBias runs; once executed, blocks / V1 ticks / redemptions / cool-off withdrawals dominate
		names = append(names, "EsmDeposit", "EsmExecute", "EsmRedeem")
		es, found := w.App.EsmKeeper.GetESMStatus(w.Ctx, w.App1)
		switch {
		case found && es.Status:
			for i := range weights {
				if weights[i] > 2 {
					weights[i] /= 2
				}
			}
			weights[14], weights[21], weights[2] = 24, 10, 8 // Block, V1Tick, Withdraw
			weights = append(weights, 1, 1, 14)
		case w.EsmBias:
			weights = append(weights, 6, 5, 1)
		default:
			weights = append(weights, 1, 1, 0)
		}
	}
	a := Act{A: names[rng.Weighted(weights)], U: u}
	pickVault := func(own bool) (vaultView, bool) {
		var c []vaultView
		for _, v := range vs {
			if !own || v.owner == u {
				c = append(c, v)
			}
		}
		if len(c) == 0 {
			return vaultView{}, false
		}
		return c[rng.Intn(len(c))], true
	}
	normal := []int{0, 1, 3}
	switch a.A {
	case "Create":
		p := w.Prods[normal[rng.Intn(3)]]
		a.P = p.ID
		a.X = []int64{10, 20, 30, 45, 60, 100, 150, 7}[rng.Intn(8)]
		md := w.maxDebt(&p, a.X)
		switch rng.Intn(5) {
		case 0:
			a.Y = md
		case 1:
			a.Y = md + 1
		case 2:
			a.Y = clampPos(md - 1)
		case 3:
			a.Y = md / 2
		default:
			a.Y = small[rng.Intn(len(small))]
		}
		if rng.Intn(6) == 0 { // debt-ceiling boundary: the published headroom of the product -1 / 0 / +1, with ample collateral
			a.Y = jit(w.headroom(&p))
			a.X = 20000
		}
	case "Deposit", "Withdraw", "Draw", "Repay", "Close", "DepositDraw", "InterestCalc":
		v, ok := pickVault(rng.Intn(8) != 0) // sometimes somebody else's vault
		if !ok {
			return w.randomAct(rng)
		}
		a.V, a.P = v.id, v.prod
		if rng.Intn(10) == 0 { // wrong product id now and then: any product, or (half of the time) another product in which the same user holds a vault too
			a.P = w.Prods[rng.Intn(len(w.Prods))].ID
			if rng.Intn(2) == 0 {
				for _, o := range vs {
					if o.owner == v.owner && o.prod != v.prod {
						a.P = o.prod
						break
					}
				}
			}
		}
		p := w.Prod(v.prod)
		debt := v.out + v.int + v.cls
		switch a.A {
		case "Deposit":
			a.X = small[rng.Intn(len(small))]
		case "Withdraw":
			// boundary: smallest collateral that still supports the debt
			lo := int64(0)
			for in := v.in; in >= 0; in-- {
				if w.maxDebt(p, in) < debt {
					lo = in + 1
					break
				}
			}
			a.X = jit(v.in - lo)
			if rng.Intn(4) == 0 {
				a.X = small[rng.Intn(len(small))]
			}
			if rng.Intn(10) == 0 {
				a.X = v.in
			}
		case "Draw":
			a.X = jit(w.maxDebt(p, v.in) - debt)
			if rng.Intn(3) == 0 {
				a.X = small[rng.Intn(len(small))]
			}
			if rng.Intn(5) == 0 { // debt-ceiling boundary
				a.X = jit(w.headroom(p))
			}
		case "Repay":
			switch rng.Intn(5) {
			case 0:
				a.X = jit(v.int)
			case 1:
				a.X = jit(v.out + v.int - p.Floor)
			case 2:
				a.X = v.out + v.int
			default:
				a.X = small[rng.Intn(len(small))]
			}
		case "DepositDraw":
			a.X = small[rng.Intn(len(small))]
		}
	case "SCreate", "SDeposit", "SWithdraw":
		a.P = w.Prods[2].ID
		a.V = 1
		a.X = []int64{1, 2, 3, 5, 10, 25, 100, 101, 1000}[rng.Intn(9)]
		if a.A != "SWithdraw" && rng.Intn(3) == 0 {
			// boundary: the collateral amount whose minted counterpart lands on (or one unit around) the product's remaining debt ceiling
			sp := w.Prods[2]
			x := w.headroom(&sp) * w.Decs[sp.CollD] / w.Decs[sp.DebtD]
			a.X = clampPos(x + int64(rng.Intn(4)) - 1)
			if a.X == 0 {
				a.X = 1
			}
		}
		if rng.Intn(15) == 0 {
			a.V = 2
		}
	case "Liquidate":
		if len(vs) == 0 {
			return w.randomAct(rng)
		}
		a.V = vs[rng.Intn(len(vs))].id
	case "Bid":
		aucs := w.App.NewaucKeeper.GetAuctions(w.Ctx)
		if len(aucs) == 0 {
			return w.randomAct(rng)
		}
		au := aucs[rng.Intn(len(aucs))]
		a.V = au.AuctionId
		a.D = au.DebtToken.Denom
		left := i64(au.DebtToken.Amount)
		switch rng.Intn(6) {
		case 0:
			a.X = 1
		case 1:
			a.X = left
		case 2:
			a.X = left + 5
		case 3:
			a.X = clampPos(left - 1)
		case 4:
			a.X = left / 2
		default:
			a.X = small[rng.Intn(len(small))]
		}
		if rng.Intn(20) == 0 {
			a.D = "ucm"
		}
	case "V1Liquidate":
		if len(vs) == 0 {
			return w.randomAct(rng)
		}
		a.V = vs[rng.Intn(len(vs))].id
		if rng.Intn(4) != 0 { // mostly aim at a vault that is currently under its minimum ratio, if there is one
			var bad []vaultView
			for _, v := range vs {
				if p := w.Prod(v.prod); p != nil && w.maxDebt(p, v.in) < v.out+v.int+v.cls {
					bad = append(bad, v)
				}
			}
			if len(bad) > 0 {
				a.V = bad[rng.Intn(len(bad))].id
			}
		}
	case "V1Bid":
		aucs := w.App.AuctionKeeper.GetDutchAuctions(w.Ctx, w.App1)
		if len(aucs) == 0 {
			return w.randomAct(rng)
		}
		au := aucs[rng.Intn(len(aucs))]
		a.V = au.AuctionId
		a.D = au.OutflowTokenCurrentAmount.Denom
		left := i64(au.OutflowTokenCurrentAmount.Amount)
		tab := i64(au.InflowTokenTargetAmount.Amount) - i64(au.InflowTokenCurrentAmount.Amount)
		// collateral amount whose price is about the remaining target (the target-reached boundary)
		edge := int64(0)
		if au.OutflowTokenCurrentPrice.IsPositive() {
			edge = sdk.NewDec(tab).Mul(au.InflowTokenCurrentPrice).MulInt64(w.Decs[a.D]).QuoInt64(w.Decs[au.InflowTokenTargetAmount.Denom]).Quo(au.OutflowTokenCurrentPrice).TruncateInt64()
		}
		switch rng.Intn(8) {
		case 0:
			a.X = 1
		case 1:
			a.X = left
		case 2:
			a.X = left + 1
		case 3:
			a.X = clampPos(left - 1)
		case 4:
			a.X = left / 2
		case 5:
			a.X = jit(edge)
		case 6:
			a.X = edge / 2
		default:
			a.X = small[rng.Intn(len(small))]
		}
		if rng.Intn(25) == 0 {
			a.D = "ust"
		}
	case "V1Sweep", "V1Tick":
		a.U = ""
	case "EsmDeposit":
		a.X = []int64{10, 25, 50, 60, 1}[rng.Intn(5)]
	case "EsmRedeem":
		a.D = "ust"
		a.X = []int64{1, 2, 5, 10, 23, 50, 1000}[rng.Intn(7)]
		if rng.Intn(15) == 0 {
			a.D = "ucm"
		}
	case "Price":
		a.U = ""
		a.D = []string{"ucm", "uat", "ust", "uus", "ucm", "uat"}[rng.Intn(6)]
		a.Y = []int64{1, 2, 3, 4, 6}[rng.Intn(5)]
		if a.D == "uus" {
			a.Y = 1
		}
		if a.D == "ust" { // the debt asset's own feed moves too (a product with a FIXED debt price must not look at it)
			a.Y = []int64{1, 1, 2, 1, 3}[rng.Intn(5)]
		}
		a.On = rng.Intn(12) != 0
	case "Block":
		a.U = ""
		a.Y = []int64{1, 1, 2, 5, 6, 30, 3600, 86400, 0, 2592000, 31536000}[rng.Intn(11)]
		if rng.Intn(3) == 0 { // boundary: land exactly on (or one second around) the end time of a live auction of either generation
			var ends []int64
			for _, au := range w.App.AuctionKeeper.GetDutchAuctions(w.Ctx, w.App1) {
				ends = append(ends, au.EndTime.Unix()-w.Ctx.BlockTime().Unix())
			}
			for _, au := range w.App.NewaucKeeper.GetAuctions(w.Ctx) {
				ends = append(ends, au.EndTime.Unix()-w.Ctx.BlockTime().Unix())
			}
			if len(ends) > 0 {
				if d := ends[rng.Intn(len(ends))] + int64(rng.Intn(3)) - 1; d >= 0 {
					a.Y = d
				}
			}
		}
	case "Breaker":
		a.U = ""
		a.On = rng.Intn(3) == 0
	case "Reserve":
		a.D = "ust"
		a.X = small[rng.Intn(len(small))]
	case "LiqExt":
		a.D = []string{"ucm", "uat"}[rng.Intn(2)]
		a.X = []int64{10, 20, 50, 100}[rng.Intn(4)]
		a.Y = []int64{5, 10, 20, 40, 100, 300}[rng.Intn(6)]
	}
	return a
}

func digestOf(st map[string]interface{}) string {
	b, _ := json.Marshal(st)
	h := sha256.Sum256(b)
	return hex.EncodeToString(h[:12])
}

func rootNode(lg *sim.Log, w *World, run string) int {
	st := w.Project()
	w.last = st
	id := len(lg.Nodes) + 1
	return lg.Add(0, run, "Init", Act{}.Args(), Res{OK: true}, map[string]interface{}{"s": st, "cfg": w.ConfigJSON(), "root": id, "ev": w.labels(st, st, Act{A: "Init"})})
}

// Main: vh harbor --mode drive|explore --seed S --runs R --steps K --out log.ndjson
func Main(args []string) int {
	fs := flag.NewFlagSet("harbor", flag.ExitOnError)
	out := fs.String("out", "harbor.ndjson", "output tree log")
	seed := fs.Int64("seed", 1, "seed")
	runs := fs.Int("runs", 20, "random behaviours")
	steps := fs.Int("steps", 60, "steps per behaviour")
	depth := fs.Int("depth", 0, "bounded exploration depth (0 = off)")
	maxNodes := fs.Int("maxnodes", 4000, "node budget of the bounded exploration")
	rootOut := fs.String("rootout", "", "write only the root node of the exploration fixture (Init of MC_Harbor) to this file and exit")
	actsFile := fs.String("acts", "", "file with the action-instance set printed by MC_Harbor (T line); default: built-in set")
	sweepFile := fs.String("sweep", "", "file with behaviours of MC_Sweep (T lines) to replay on real vaults")
	sweepMax := fs.Int("sweepmax", 40, "max behaviours replayed from the sweep file")
	esm := fs.Bool("esm", false, "include the emergency-shutdown exploration and ESM driver actions")
	fs.Parse(args)
	lg := &sim.Log{}
	rng := sim.NewRng(*seed)
	if *rootOut != "" {
		w0 := Setup(exploreConfig())
		rootNode(lg, w0, "explore")
		if err := lg.Write(*rootOut); err != nil {
			fmt.Fprintln(os.Stderr, err)
			return 2
		}
		return 0
	}

	for r := 0; r < *runs; r++ {
		cfg := configFor(r+int(*seed), rng)
		w := Setup(cfg)
		w.V1Bias = r%4 == 1
		w.Esm = *esm
		w.EsmBias = *esm && r%6 == 5
		run := fmt.Sprintf("drive:%d:%d", *seed, r)
		par := rootNode(lg, w, run)
		root := par
		for k := 0; k < *steps; k++ {
			a := w.randomAct(rng)
			rs := w.Do(a)
			par, _ = w.Record(lg, par, run, root, a, rs)
			if rs.Panic && a.A == "Block" {
				break // chain halted
			}
		}
	}
	if *depth > 0 {
		if err := explore(lg, rng, *seed, *depth, *maxNodes, *actsFile); err != nil {
			fmt.Fprintln(os.Stderr, err)
			return 2
		}
	}
	if *depth > 0 {
		exploreV1(lg, *seed, *depth+1, *maxNodes/3, 0)
		exploreV1(lg, *seed, *depth+1, *maxNodes/3, 100)
		if *esm {
			exploreEsm(lg, *seed, *depth+3, *maxNodes/3, true)
			exploreEsm(lg, *seed, *depth+3, *maxNodes/3, false)
		}
	}
	if *runs > 0 {
		fmt.Printf("harbor: scripted scenarios=%d\n", scenarios(lg, *seed))
	}
	if *sweepFile != "" {
		n, err := sweepReplay(lg, *sweepFile, *sweepMax, *seed)
		if err != nil {
			fmt.Fprintln(os.Stderr, err)
			return 2
		}
		fmt.Printf("harbor: sweep behaviours replayed=%d\n", n)
	}
	if err := lg.Write(*out); err != nil {
		fmt.Fprintln(os.Stderr, err)
		return 2
	}
	fmt.Printf("harbor: nodes=%d\n", len(lg.Nodes))
	return 0
}

// explore: implementation-driven bounded exploration (DESIGN 3.3): a finite set of action instances,
// all sequences up to `depth`, de-duplicated by the digest of the projected state, on CacheContext branches.
func exploreConfig() Config {
	return Config{Bonus: fr(0, 1), DecC: 1, DecA: 1, DecS: 1, DecU: 10, DrawFee: fr(1, 10), CloseFee: fr(0, 1), StabFee: fr(0, 1), Batch: 1, Duration: 10,
		Users: []string{"u1", "u2"}, FundColl: 1000, FundDebt: 200}
}

// modelActs reads the action-instance set printed by MC_Harbor.
func modelActs(path string) ([]Act, error) {
	f, err := os.Open(path)
	if err != nil {
		return nil, err
	}
	defer f.Close()
	sc := bufio.NewScanner(f)
	sc.Buffer(make([]byte, 1<<20), 1<<26)
	for sc.Scan() {
		js := sim.TLCJSON(sc.Text())
		if js == "" {
			continue
		}
		var doc struct {
			Acts []struct {
				A    string `json:"a"`
				Args struct {
					U string `json:"u"`
					P uint64 `json:"p"`
					V uint64 `json:"v"`
					X int64  `json:"x"`
					Y int64  `json:"y"`
				} `json:"args"`
			} `json:"acts"`
			Prices []struct {
				D  string `json:"d"`
				Y  int64  `json:"y"`
				On bool   `json:"on"`
			} `json:"prices"`
		}
		if err := json.Unmarshal([]byte(js), &doc); err != nil {
			return nil, err
		}
		var out []Act
		for _, a := range doc.Acts {
			out = append(out, Act{A: a.A, U: a.Args.U, P: a.Args.P, V: a.Args.V, X: a.Args.X, Y: a.Args.Y})
		}
		for _, p := range doc.Prices {
			out = append(out, Act{A: "Price", D: p.D, Y: p.Y, On: p.On})
		}
		sort.Slice(out, func(i, j int) bool { return fmt.Sprint(out[i]) < fmt.Sprint(out[j]) })
		return out, nil
	}
	return nil, fmt.Errorf("no action set in %s", path)
}

func explore(lg *sim.Log, rng *sim.Rng, seed int64, depth, maxNodes int, actsFile string) error {
	w0 := Setup(exploreConfig())
	run := fmt.Sprintf("explore:%d", seed)
	root := rootNode(lg, w0, run)
	p1, p3 := w0.Prods[0].ID, w0.Prods[2].ID
	acts := []Act{
		{A: "Create", U: "u1", P: p1, X: 30, Y: 40}, {A: "Create", U: "u1", P: p1, X: 30, Y: 41}, {A: "Create", U: "u2", P: p1, X: 15, Y: 10},
		{A: "Deposit", U: "u1", P: p1, V: 1, X: 6}, {A: "Withdraw", U: "u1", P: p1, V: 1, X: 3}, {A: "Withdraw", U: "u2", P: p1, V: 2, X: 1},
		{A: "Draw", U: "u1", P: p1, V: 1, X: 4}, {A: "Draw", U: "u2", P: p1, V: 2, X: 10}, {A: "Repay", U: "u1", P: p1, V: 1, X: 10},
		{A: "Repay", U: "u2", P: p1, V: 2, X: 5}, {A: "Close", U: "u1", P: p1, V: 1}, {A: "Close", U: "u2", P: p1, V: 2},
		{A: "Draw", U: "u2", P: p1, V: 1, X: 1}, {A: "DepositDraw", U: "u1", P: p1, V: 1, X: 6},
		{A: "SCreate", U: "u2", P: p3, X: 20}, {A: "SDeposit", U: "u1", P: p3, V: 1, X: 30}, {A: "SWithdraw", U: "u2", P: p3, V: 1, X: 2},
		{A: "Price", D: "ucm", Y: 1, On: true}, {A: "Price", D: "ucm", Y: 2, On: true}, {A: "Price", D: "ucm", Y: 2, On: false},
		{A: "V1Liquidate", U: "u2", P: p1, V: 1}, {A: "V1Liquidate", U: "u1", P: p1, V: 2},
	}
	if actsFile != "" {
		ma, err := modelActs(actsFile)
		if err != nil {
			return err
		}
		acts = ma
	}
	// beyond the vault model: block hooks, liquidation and bids are explored on the same branches (monitored, Conf_Block)
	acts = append(acts, Act{A: "Block", Y: 5}, Act{A: "Liquidate", U: "u2", V: 1}, Act{A: "Bid", U: "u2", V: 1, D: "ust", X: 20}, Act{A: "Bid", U: "u1", V: 1, D: "ust", X: 100},
		Act{A: "V1Bid", U: "u2", V: 1, D: "ucm", X: 10}, Act{A: "V1Sweep"}, Act{A: "V1Tick"})
	seen := map[string]bool{digestOf(w0.Project()): true}
	type item struct {
		w    *World
		node int
		d    int
	}
	queue := []item{{w0, root, 0}}
	maxNodes += len(lg.Nodes)
	for len(queue) > 0 && len(lg.Nodes) < maxNodes {
		it := queue[0]
		queue = queue[1:]
		if it.d >= depth {
			continue
		}
		for _, a := range acts {
			if len(lg.Nodes) >= maxNodes {
				break
			}
			c := it.w.Fork()
			rs := c.Do(a)
			id, st := c.Record(lg, it.node, run, root, a, rs)
			dg := digestOf(st)
			if !seen[dg] {
				seen[dg] = true
				queue = append(queue, item{c, id, it.d + 1})
			}
		}
	}
	_ = rng
	return nil
}

// exploreV1: bounded breadth-first exploration of the first-generation liquidation and Dutch auction actions on the real
// code, from a prepared state (two vaults at their minimum ratio, then the collateral price halves): every sequence of the
// action instances below up to `depth`, de-duplicated by the digest of the projected state, on CacheContext branches.
func exploreV1(lg *sim.Log, seed int64, depth, maxNodes int, fund int64) {
	cfg := exploreConfig()
	cfg.CollectorFund = fund
	cfg.Decoy = fund > 0
	w0 := Setup(cfg)
	run := fmt.Sprintf("explorev1:%d", seed)
	if fund > 0 { // a collector that can cover the whole debt of either auction
		run = fmt.Sprintf("explorev1c:%d", seed)
	}
	root := rootNode(lg, w0, run)
	p1 := w0.Prods[0].ID
	par := root
	for _, a := range []Act{{A: "Create", U: "u1", P: p1, X: 30, Y: 40}, {A: "Create", U: "u2", P: p1, X: 15, Y: 20}, {A: "Price", D: "ucm", Y: 1, On: true}} {
		rs := w0.Do(a)
		par, _ = w0.Record(lg, par, run, root, a, rs)
	}
	acts := []Act{
		{A: "V1Liquidate", U: "u2", V: 1}, {A: "V1Liquidate", U: "u1", V: 2}, {A: "V1Sweep"}, {A: "V1Tick"},
		{A: "V1Bid", U: "u2", V: 1, D: "ucm", X: 10}, {A: "V1Bid", U: "u2", V: 1, D: "ucm", X: 30}, {A: "V1Bid", U: "u1", V: 1, D: "ucm", X: 5},
		{A: "V1Bid", U: "u1", V: 2, D: "ucm", X: 15}, {A: "V1Bid", U: "u2", V: 2, D: "ucm", X: 14},
		{A: "Block", Y: 5}, {A: "Block", Y: 10}, {A: "Price", D: "ucm", Y: 2, On: true}, {A: "Price", D: "ucm", Y: 1, On: false},
		{A: "Deposit", U: "u1", P: p1, V: 1, X: 40}, {A: "Breaker", On: true},
	}
	seen := map[string]bool{digestOf(w0.Project()): true}
	type item struct {
		w    *World
		node int
		d    int
	}
	queue := []item{{w0, par, 0}}
	maxNodes += len(lg.Nodes)
	for len(queue) > 0 && len(lg.Nodes) < maxNodes {
		it := queue[0]
		queue = queue[1:]
		if it.d >= depth {
			continue
		}
		for _, a := range acts {
			if len(lg.Nodes) >= maxNodes {
				break
			}
			c := it.w.Fork()
			rs := c.Do(a)
			id, st := c.Record(lg, it.node, run, root, a, rs)
			if dg := digestOf(st); !seen[dg] {
				seen[dg] = true
				queue = append(queue, item{c, id, it.d + 1})
			}
		}
	}
}

// bfs explores all sequences of `acts` up to `depth` from (w0, node par) on CacheContext branches, de-duplicated by the digest
// of the projected state, within a node budget.
func bfs(lg *sim.Log, run string, root, par int, w0 *World, acts []Act, depth, maxNodes int) {
	seen := map[string]bool{digestOf(w0.Project()): true}
	type item struct {
		w    *World
		node int
		d    int
	}
	queue := []item{{w0, par, 0}}
	maxNodes += len(lg.Nodes)
	for len(queue) > 0 && len(lg.Nodes) < maxNodes {
		it := queue[0]
		queue = queue[1:]
		if it.d >= depth {
			continue
		}
		for _, a := range acts {
			if len(lg.Nodes) >= maxNodes {
				break
			}
			c := it.w.Fork()
			rs := c.Do(a)
			id, st := c.Record(lg, it.node, run, root, a, rs)
			if dg := digestOf(st); !seen[dg] {
				seen[dg] = true
				queue = append(queue, item{c, id, it.d + 1})
			}
		}
	}
}

// exploreEsm: bounded exploration of the emergency-shutdown flows of the CDP app on the real code. Prepared state: one vault
// seized by the first generation (V1 auction with a partial bid), one seized by the second generation (V2 auction with a
// partial bid), one healthy vault, one stable-mint vault, and the ESM deposit target reached. Then every sequence of the
// action instances below (execute, blocks before / after the cool-off end, V1 price update, withdraw in the cool-off,
// redemption, late bids) up to `depth`.
func exploreEsm(lg *sim.Log, seed int64, depth, maxNodes int, withStable bool) {
	cfg := exploreConfig()
	run := fmt.Sprintf("exploreesm:%d", seed)
	if !withStable { // second variant: no stable-mint vault (the shutdown stages are then free of KF-C01-ESM-1), vaults carry a closing fee
		run = fmt.Sprintf("exploreesmb:%d", seed)
		cfg.CloseFee = fr(1, 20)
	}
	w0 := Setup(cfg)
	p4 := w0.Prods[3].ID
	root := rootNode(lg, w0, run)
	p1, p2, p3 := w0.Prods[0].ID, w0.Prods[1].ID, w0.Prods[2].ID
	par := root
	for _, a := range []Act{
		{A: "Create", U: "u1", P: p1, X: 30, Y: 40}, {A: "Create", U: "u2", P: p1, X: 15, Y: 20}, {A: "Create", U: "u1", P: p2, X: 20, Y: 30},
		{A: "Create", U: "u2", P: p2, X: 40, Y: 30}, {A: "Create", U: "u1", P: p4, X: 60, Y: 20}, // two healthy vaults for the redemption set-up
		{A: "SCreate", U: "u2", P: p3, X: 20},
		{A: "Price", D: "ucm", Y: 1, On: true}, {A: "Price", D: "uat", Y: 2, On: true},
		{A: "V1Liquidate", U: "u2", V: 1}, {A: "Liquidate", U: "u1", V: 2}, {A: "V1Liquidate", U: "u2", V: 3},
		// V1 auction 1 stays below the principal (close-out re-opens the vault), V1 auction 2 collects more than the principal but less than the target (close-out hands the rest to the esm account)
		{A: "V1Bid", U: "u2", V: 1, D: "ucm", X: 10}, {A: "Bid", U: "u1", V: 1, D: "ust", X: 5}, {A: "V1Bid", U: "u2", V: 2, D: "uat", X: 13},
		// second variant only: both liquidated owners open a NEW vault on the same product while their auctions run (the close-outs then merge into an open vault)
		{A: "Create", U: "u1", P: p1, X: 31, Y: 10, On: true}, {A: "Create", U: "u2", P: p1, X: 32, Y: 11, On: true},
		{A: "EsmDeposit", U: "u1", X: 50},
	} {
		if a.A == "SCreate" && !withStable {
			continue
		}
		if a.A == "Create" && a.On {
			if withStable {
				continue
			}
			a.On = false
		}
		if !withStable && a.A == "Bid" { // second variant: the V2 auction collects no more than its penalty before the shutdown (the other arm of its close-out)
			a.X = 2
		}
		if !withStable { // second variant: the V1 auction that collected more than its principal gets the LOWER id (closed out first, while the other one's proceeds are still in custody)
			a = swapV1(a)
		}
		rs := w0.Do(a)
		par, _ = w0.Record(lg, par, run, root, a, rs)
	}
	acts := []Act{
		{A: "EsmExecute", U: "u1"}, {A: "Block", Y: 5}, {A: "Block", Y: 30}, {A: "V1Tick"},
		{A: "Withdraw", U: "u2", P: p2, V: 4, X: 2}, {A: "EsmRedeem", U: "u2", X: 10}, {A: "EsmRedeem", U: "u1", X: 1000},
		{A: "V1Bid", U: "u2", V: 1, D: "ucm", X: 20}, {A: "Bid", U: "u2", V: 1, D: "ust", X: 100},
		{A: "Deposit", U: "u2", P: p2, V: 4, X: 5}, {A: "V1Liquidate", U: "u1", V: 4}, {A: "Price", D: "uat", Y: 1, On: true},
	}
	if !withStable {
		for i := range acts {
			if acts[i].A == "V1Bid" {
				acts[i] = swapV1(acts[i])
			}
		}
	}
	bfs(lg, run, root, par, w0, acts, depth, maxNodes)
}

// swapV1 exchanges the roles of the two first-generation liquidations of the shutdown exploration: vault 3 is liquidated first (auction 1), vault 1 second (auction 2).
func swapV1(a Act) Act {
	switch a.A {
	case "V1Liquidate":
		if a.V == 1 {
			a.V = 3
		} else if a.V == 3 {
			a.V = 1
		}
	case "V1Bid":
		if a.V == 1 {
			a.V = 2
		} else if a.V == 2 {
			a.V = 1
		}
	}
	return a
}
