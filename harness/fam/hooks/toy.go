package hooks

import (
	"encoding/binary"
	"encoding/json"
	"errors"

	sdk "github.com/cosmos/cosmos-sdk/types"

	utils "github.com/comdex-official/comdex/types"

	"vh/sim"
)

// Toy hooks: the hooks TLC generates in MC_Hooks (units of primitive effects, nested units, natural failures
// and panics, one injected crash point) executed on the REAL ApplyFuncIfNoError with real cache contexts, a real
// module KV store ("set") and the real bank keeper ("mv" = coin movement). The unit bodies are harness code,
// the atomicity mechanism under test is the repository's.

type toyItem struct {
	T       string    `json:"t"`
	K       string    `json:"k,omitempty"`
	V       int64     `json:"v,omitempty"`
	From    string    `json:"from,omitempty"`
	To      string    `json:"to,omitempty"`
	Amt     int64     `json:"amt,omitempty"`
	ID      int       `json:"id,omitempty"`
	Wrapped bool      `json:"wrapped,omitempty"`
	Body    []toyItem `json:"body,omitempty"`
}

type toyVec struct {
	Hook    []toyItem        `json:"hook"`
	HookRaw json.RawMessage  `json:"-"`
	Pre     map[string]int64 `json:"pre"`
	Plan    struct {
		U int `json:"u"`
		K int `json:"k"`
	} `json:"plan"`
}

func (v *toyVec) UnmarshalJSON(b []byte) error {
	type plain toyVec
	var raw struct {
		Hook json.RawMessage `json:"hook"`
	}
	if err := json.Unmarshal(b, (*plain)(v)); err != nil {
		return err
	}
	if err := json.Unmarshal(b, &raw); err != nil {
		return err
	}
	v.HookRaw = raw.Hook
	return nil
}

const toyDenom = "utoy"

type toyWorld struct {
	*sim.Env
}

func newToyWorld() *toyWorld { return &toyWorld{sim.New(nil)} }

func toyKey(k string) []byte { return append([]byte{0xFE}, []byte("verif/toy/"+k)...) }

func (tw *toyWorld) store(ctx sdk.Context) sdk.KVStore { return ctx.KVStore(tw.App.GetKey("assetv1")) }

func (tw *toyWorld) getKey(ctx sdk.Context, k string) int64 {
	b := tw.store(ctx).Get(toyKey(k))
	if b == nil {
		return 0
	}
	return int64(binary.BigEndian.Uint64(b))
}

func (tw *toyWorld) setKey(ctx sdk.Context, k string, v int64) {
	var b [8]byte
	binary.BigEndian.PutUint64(b[:], uint64(v))
	tw.store(ctx).Set(toyKey(k), b[:])
}

func isAcct(k string) bool { return k == "x" || k == "y" }

func (tw *toyWorld) exec(t *tracer, ctx sdk.Context, items []toyItem) error {
	for i := range items {
		it := &items[i]
		switch it.T {
		case "set":
			beginEffect(ctx)
			tw.setKey(ctx, it.K, it.V)
		case "mv":
			beginEffect(ctx)
			if err := tw.App.BankKeeper.SendCoins(ctx, sim.Addr("toy"+it.From), sim.Addr("toy"+it.To), sdk.NewCoins(sdk.NewInt64Coin(toyDenom, it.Amt))); err != nil {
				return err
			}
		case "fail":
			return errors.New("toy: unit reports failure")
		case "panic":
			panic("toy: unit panics")
		case "unit":
			if it.Wrapped {
				t.force = it.ID
				body := it.Body
				_ = utils.ApplyFuncIfNoError(ctx, func(c sdk.Context) error { return tw.exec(t, c, body) })
			} else if err := tw.exec(t, ctx, it.Body); err != nil {
				return err
			}
		}
	}
	return nil
}

func (d *driver) toy(tw *toyWorld, v *toyVec) {
	base, _ := tw.Ctx.CacheContext()
	for k, val := range v.Pre {
		if isAcct(k) {
			if val > 0 {
				cs := sdk.NewCoins(sdk.NewInt64Coin(toyDenom, val))
				if err := tw.App.BankKeeper.MintCoins(base, "vaultV1", cs); err != nil {
					panic(err)
				}
				if err := tw.App.BankKeeper.SendCoinsFromModuleToAccount(base, "vaultV1", sim.Addr("toy"+k), cs); err != nil {
					panic(err)
				}
			}
		} else {
			tw.setKey(base, k, val)
		}
	}
	t := &tracer{mode: modeFault, target: v.Plan.U, k: v.Plan.K, toy: true}
	post := map[string]int64{}
	rr := t.run(base, func(c sdk.Context) {
		// an error that reaches the hook body is logged by the hook and the hook returns (like the real hooks do)
		_ = tw.exec(t, c, v.Hook)
	}, func(c sdk.Context) string {
		for k := range v.Pre {
			if isAcct(k) {
				post[k] = tw.App.BankKeeper.GetBalance(c, sim.Addr("toy"+k), toyDenom).Amount.Int64()
			} else {
				post[k] = tw.getKey(c, k)
			}
		}
		return ""
	})
	entered, failed := []int{}, []int{}
	for _, u := range t.units {
		entered = append(entered, u.Idx)
		if u.Failed {
			failed = append(failed, u.Idx)
		}
	}
	d.log.Add(d.root, "toy", "Toy",
		map[string]interface{}{"hook": v.HookRaw, "pre": v.Pre, "plan": map[string]int{"u": v.Plan.U, "k": v.Plan.K}},
		map[string]interface{}{"returned": rr.Returned, "panicS": rr.PanicS, "fired": t.fired},
		map[string]interface{}{"post": post, "entered": entered, "failed": failed})
	d.stats["toys"]++
}
