package hooks

import (
	"bufio"
	"encoding/json"
	"flag"
	"fmt"
	"os"
	"sort"
	"time"

	abci "github.com/cometbft/cometbft/abci/types"
	sdk "github.com/cosmos/cosmos-sdk/types"

	"github.com/comdex-official/comdex/x/auction"
	"github.com/comdex-official/comdex/x/liquidation"
	"github.com/comdex-official/comdex/x/liquidationsV2"

	"vh/sim"
)

// hookDef = one block hook as the harness runs it. "begin"/"end" are the application's BeginBlocker/EndBlocker
// (all modules, real order); "liqv1"/"aucv1" are the V1 begin blockers that module.go no longer wires, called
// directly like the repository's own tests do; "liqv2" is the V2 liquidation begin blocker alone (item cases).
type hookDef struct {
	name string
	fn   func(w *world, ctx sdk.Context)
}

func hookByName(n string) hookDef {
	switch n {
	case "begin":
		return hookDef{n, func(w *world, ctx sdk.Context) {
			if br := sim.BeginBlockOn(w.App, ctx); br.Panic {
				panic(br.Err)
			}
		}}
	case "end":
		return hookDef{n, func(w *world, ctx sdk.Context) {
			if br := sim.EndBlockOn(w.App, ctx); br.Panic {
				panic(br.Err)
			}
		}}
	case "liqv1":
		return hookDef{n, func(w *world, ctx sdk.Context) {
			liquidation.BeginBlocker(ctx, abci.RequestBeginBlock{}, w.App.LiquidationKeeper)
		}}
	case "aucv1":
		return hookDef{n, func(w *world, ctx sdk.Context) {
			auction.BeginBlocker(ctx, w.App.AuctionKeeper, w.App.AssetKeeper, w.App.CollectorKeeper, w.App.EsmKeeper)
		}}
	case "liqv2":
		return hookDef{n, func(w *world, ctx sdk.Context) {
			liquidationsV2.BeginBlocker(ctx, abci.RequestBeginBlock{}, w.App.NewliqKeeper)
		}}
	}
	panic("unknown hook " + n)
}

type driver struct {
	envfault bool // the state was built with an environment fault (configuration missing, price inactive, ...)
	state string // name of the state the following nodes belong to (copied into args)
	log   *sim.Log
	root  int
	rng   *sim.Rng
	maxK  int // sampled crash points per unit (0 = all)
	stats map[string]int
}

func (d *driver) digest(w *world) func(sdk.Context) string {
	return func(c sdk.Context) string { return sim.Digest(w.App, c, nil) }
}

type shapeRec struct {
	I      int `json:"i"`
	Parent int `json:"parent"`
	N      int `json:"n"`
	Start  int `json:"start"`
}

// ks = crash points to run for a unit with n accesses.
func (d *driver) ks(n int) []int {
	if n <= 0 {
		return nil
	}
	if d.maxK <= 0 || n <= d.maxK {
		out := make([]int, n)
		for i := range out {
			out[i] = i + 1
		}
		return out
	}
	set := map[int]bool{1: true, n: true, 2: true, n - 1: true}
	for len(set) < d.maxK {
		set[1+d.rng.Intn(n)] = true
	}
	var out []int
	for k := range set {
		out = append(out, k)
	}
	sort.Ints(out)
	return out
}

// hookCases: dry run, references and fault enumeration of one hook on one state.
func (d *driver) hookCases(w *world, stNode int, run string, h hookDef) {
	hf := func(c sdk.Context) { h.fn(w, c) }
	dg := d.digest(w)
	dry := &tracer{mode: modeDry}
	rr := dry.run(w.Ctx, hf, dg)
	dry2 := &tracer{mode: modeDry}
	rr2 := dry2.run(w.Ctx, hf, dg)
	shape := make([]shapeRec, len(dry.units))
	for i, u := range dry.units {
		shape[i] = shapeRec{I: u.Idx, Parent: u.Parent, N: u.N, Start: u.Start}
	}
	dryNode := d.log.Add(stNode, run, "Dry", map[string]interface{}{"state": d.state, "hook": h.name, "gate150": w.Height%150 == 0, "h": w.Height},
		map[string]interface{}{"returned": rr.Returned, "panicS": rr.PanicS, "panicK": panicKind(rr.PanicS)},
		map[string]interface{}{"digest": rr.Digest, "digest2": rr2.Digest, "nunits": len(dry.units), "shape": shape})
	d.stats["dry"]++
	if !rr.Returned {
		return
	}
	type ref struct {
		dSkip, dVoid         string
		retSkip, retVoid     bool
		afterSkip, afterVoid int
		node                 int
	}
	refs := make([]ref, len(dry.units)+1)
	for _, u := range dry.units {
		ts := &tracer{mode: modeSkip, target: u.Idx}
		rs := ts.run(w.Ctx, hf, dg)
		tv := &tracer{mode: modeVoid, target: u.Idx}
		rv := tv.run(w.Ctx, hf, dg)
		r := ref{dSkip: rs.Digest, dVoid: rv.Digest, retSkip: rs.Returned, retVoid: rv.Returned, afterSkip: ts.afterSame, afterVoid: tv.afterSame}
		r.node = d.log.Add(dryNode, run, "Unit",
			map[string]interface{}{"state": d.state, "hook": h.name, "u": u.Idx, "label": u.Label, "depth": u.Depth},
			map[string]interface{}{"retSkip": rs.Returned, "retVoid": rv.Returned, "panicS": rs.PanicS + rv.PanicS, "panicK": panicKind(rs.PanicS + rv.PanicS)},
			map[string]interface{}{"failed": u.Failed, "panicked": u.Panicked, "err": u.Err, "n": u.N, "own": u.Own,
				"dDry": rr.Digest, "dSkip": rs.Digest, "dVoid": rv.Digest, "afterSkip": ts.afterSame, "afterVoid": tv.afterSame})
		refs[u.Idx] = r
		d.stats["units"]++
	}
	for _, u := range dry.units {
		for _, k := range d.ks(u.N) {
			tf := &tracer{mode: modeFault, target: u.Idx, k: k}
			rf := tf.run(w.Ctx, hf, dg)
			v := tf.victim
			if !tf.fired || v < 1 || v > len(dry.units) {
				v = u.Idx
			}
			// "after" is counted relative to the target; when the victim is a nested unit the counts of the
			// victim's own reference runs are not comparable, so the comparison uses the target's void run
			d.log.Add(refs[u.Idx].node, run, "Fault",
				map[string]interface{}{"state": d.state, "hook": h.name, "u": u.Idx, "k": k, "label": u.Label},
				map[string]interface{}{"returned": rf.Returned, "panicS": rf.PanicS, "panicK": panicKind(rf.PanicS), "fired": tf.fired, "victim": v},
				map[string]interface{}{"digest": rf.Digest, "dSkipV": refs[v].dSkip, "dVoidV": refs[v].dVoid,
					"after": tf.afterSame, "afterVoid": refs[u.Idx].afterVoid})
			d.stats["faults"]++
		}
	}
}

// blocks: a few plain blocks of the whole application from the state (on a branch).
func (d *driver) blocks(w *world, stNode int, run string, dts []time.Duration, heights []int64) {
	b := w.Branch()
	parent := stNode
	for i, dt := range dts {
		if heights != nil && heights[i] > 0 {
			b.Height = heights[i] - 1
		}
		br := b.NextBlock(dt)
		parent = d.log.Add(parent, run, "Block", map[string]interface{}{"state": d.state, "n": i + 1, "dt": int64(dt / time.Second), "h": b.Height, "hist": "", "oracle": false, "zero": false, "rebuild": false, "silent": false},
			map[string]interface{}{"returned": !br.Panic, "panicS": short(br.Err), "panicK": panicKind(short(br.Err))},
			map[string]interface{}{"digest": b.Digest()})
		d.stats["blocks"]++
		if br.Panic {
			return
		}
	}
}

func Main(args []string) int {
	fs := flag.NewFlagSet("hooks", flag.ExitOnError)
	out := fs.String("out", "hooks.ndjson", "output tree log")
	seed := fs.Int64("seed", 1, "seed")
	vectors := fs.String("vectors", "", "file with TLC transition lines (toy hooks)")
	maxK := fs.Int("maxk", 10, "sampled crash points per unit (0 = every access)")
	variants := fs.Int("variants", 1, "parameter variants of every state")
	only := fs.String("only", "", "run only the state with this name (debugging)")
	explore := fs.Bool("explore", false, "print the unit structure instead of writing a log")
	_ = fs.Parse(args)

	d := &driver{log: &sim.Log{}, rng: sim.NewRng(*seed), maxK: *maxK, stats: map[string]int{}}
	d.root = d.log.Add(0, "init", "Init", nil, nil, map[string]interface{}{})

	if *vectors != "" {
		f, err := os.Open(*vectors)
		if err != nil {
			fmt.Fprintln(os.Stderr, err)
			return 2
		}
		sc := bufio.NewScanner(f)
		sc.Buffer(make([]byte, 1<<20), 1<<26)
		tw := newToyWorld()
		for sc.Scan() {
			js := sim.TLCJSON(sc.Text())
			if js == "" {
				continue
			}
			var v toyVec
			if err := json.Unmarshal([]byte(js), &v); err != nil {
				fmt.Fprintln(os.Stderr, "bad vector:", err)
				return 2
			}
			d.toy(tw, &v)
		}
		f.Close()
	}

	for variant := 0; variant < *variants; variant++ {
		for _, sb := range stateBuilders() {
			if *only != "" && sb.name != *only {
				continue
			}
			p := newParams(d.rng, variant)
			w := newWorld()
			hooks := sb.build(w, p)
			run := fmt.Sprintf("%s:%d:%d", sb.name, *seed, variant)
			if *explore {
				d.explore(w, sb.name, hooks)
				continue
			}
			d.state = sb.name
			d.envfault = envFaultStates[sb.name]
			stNode := d.log.Add(d.root, run, "State", map[string]interface{}{"name": sb.name, "notes": w.notes, "params": p},
				nil, map[string]interface{}{"digest": w.Digest(), "h": w.Height})
			d.stats["states"]++
			for i, hr := range w.hist {
				d.log.Add(stNode, run, "Block", map[string]interface{}{"state": d.state, "n": -(i + 1), "dt": 0, "h": 0, "hist": hr.What, "oracle": hr.Oracle, "zero": hr.Zero, "rebuild": hr.Rebuild, "silent": hr.Silent},
					map[string]interface{}{"returned": hr.Returned, "panicS": hr.PanicS, "panicK": panicKind(hr.PanicS)},
					map[string]interface{}{"digest": ""})
				d.stats["histSteps"]++
			}
			for _, hn := range hooks {
				d.hookCases(w, stNode, run, hookByName(hn))
			}
			d.items(w, stNode, run)
			d.facets(w, stNode, run)
			d.stages(w, stNode, run)
			d.starters(w, stNode, run)
			d.blocks(w, stNode, run, []time.Duration{6 * time.Second, 6 * time.Second, time.Duration(p.Gap) * time.Second}, nil)
			d.blocks(w, stNode, run, []time.Duration{6 * time.Second, 6 * time.Second}, []int64{14400 * (1 + w.Height/14400), 0})
		}
	}
	if *explore {
		return 0
	}
	if err := d.log.Write(*out); err != nil {
		fmt.Fprintln(os.Stderr, err)
		return 2
	}
	b, _ := json.Marshal(d.stats)
	fmt.Printf("hooks: nodes=%d %s\n", len(d.log.Nodes), b)
	return 0
}

func (d *driver) explore(w *world, name string, hooks []string) {
	fmt.Println("==", name, w.notes)
	for _, hn := range hooks {
		h := hookByName(hn)
		t := &tracer{mode: modeDry}
		rr := t.run(w.Ctx, func(c sdk.Context) { h.fn(w, c) }, d.digest(w))
		fmt.Println(" hook", h.name, "returned", rr.Returned, rr.PanicS)
		for _, u := range t.units {
			fmt.Printf("   %2d d%d p%d n=%d start=%d failed=%v panicked=%v %s %s\n", u.Idx, u.Depth, u.Parent, u.N, u.Start, u.Failed, u.Panicked, u.Label, u.Err)
		}
	}
}
