package hooks

import (
	"fmt"
	"sort"

	sdk "github.com/cosmos/cosmos-sdk/types"
)

// Stages: the V2 liquidation begin blocker runs three stages (vault sweep, borrow sweep, surplus/debt auction starter).
// The starter's per-(app, asset) step is not one of the units the property lists, so its own writes are not judged;
// what is judged is that the LISTED units (vault and borrow liquidations) are processed no matter whether such a step
// fails: for every collector auction mapping the step is probed alone (does it fail on this state?), the begin blocker is
// run on the state and on the state in which this mapping is masked (flagged "auction already active", so the starter
// skips it; the flag is taken off again afterwards), and the facets of every position are recorded for both runs.
type posFacet struct {
	Kind string `json:"kind"`
	ID   uint64 `json:"id"`
	facet
}

func (w *world) positionFacets(pre, post sdk.Context) []posFacet {
	preV, preB, _ := w.facetsV2(pre)
	postV, postB, auc := w.facetsV2(post)
	out := []posFacet{}
	for _, v := range w.App.VaultKeeper.GetVaults(pre) {
		_, still := w.App.VaultKeeper.GetVault(post, v.Id)
		lid, locked := postV[v.Id]
		if _, was := preV[v.Id]; was {
			locked = false
		}
		out = append(out, posFacet{"vault", v.Id, facet{Seized: !still, Locked: locked, Started: locked && auc[lid]}})
	}
	ids, _ := w.App.LendKeeper.GetBorrows(pre)
	for _, id := range ids {
		b0, _ := w.App.LendKeeper.GetBorrow(pre, id)
		if b0.IsLiquidated {
			continue
		}
		b1, found := w.App.LendKeeper.GetBorrow(post, id)
		lid, locked := postB[id]
		if _, was := preB[id]; was {
			locked = false
		}
		out = append(out, posFacet{"borrow", id, facet{Seized: !found || b1.IsLiquidated, Locked: locked, Started: locked && auc[lid]}})
	}
	sort.Slice(out, func(i, j int) bool {
		if out[i].Kind != out[j].Kind {
			return out[i].Kind < out[j].Kind
		}
		return out[i].ID < out[j].ID
	})
	return out
}

func (d *driver) stages(w *world, stNode int, run string) {
	maps, _ := w.App.CollectorKeeper.GetAllAuctionMappingForApp(w.Ctx)
	if len(maps) == 0 {
		return
	}
	h := hookByName("liqv2")
	var fault []posFacet
	t := &tracer{mode: modePlain}
	rf := t.run(w.Ctx, func(c sdk.Context) { h.fn(w, c) }, func(c sdk.Context) string {
		fault = w.positionFacets(w.Ctx, c)
		return ""
	})
	seized := 0
	for _, f := range fault {
		if f.Seized {
			seized++
		}
	}
	for _, m := range maps {
		m := m
		failed, msg := false, ""
		func() {
			c, _ := w.Ctx.CacheContext()
			defer func() {
				if r := recover(); r != nil {
					failed, msg = true, "panic: "+short(fmt.Sprint(r))
				}
			}()
			if err := w.App.NewliqKeeper.CheckStatsForSurplusAndDebt(c, m.AppId, m.AssetId); err != nil {
				failed, msg = true, short(err.Error())
			}
		}()
		masked, _ := w.Ctx.CacheContext()
		mm := m
		mm.IsAuctionActive = true
		_ = w.App.CollectorKeeper.SetAuctionMappingForApp(masked, mm)
		var ref []posFacet
		t2 := &tracer{mode: modePlain}
		rr := t2.run(masked, func(c sdk.Context) { h.fn(w, c) }, func(c sdk.Context) string {
			ref = w.positionFacets(w.Ctx, c)
			return ""
		})
		refSeized := 0
		for _, f := range ref {
			if f.Seized {
				refSeized++
			}
		}
		d.log.Add(stNode, run, "Stage", map[string]interface{}{"state": d.state, "hook": "liqv2", "stage": "surplusdebt", "app": m.AppId, "asset": m.AssetId},
			map[string]interface{}{"probeFailed": failed, "probeErr": msg, "returned": rf.Returned, "retRef": rr.Returned, "panicS": rf.PanicS, "panicK": panicKind(rf.PanicS)},
			map[string]interface{}{"facets": fault, "facetsRef": ref, "seized": seized, "seizedRef": refSeized})
		d.stats["stages"]++
	}
}
