package hooks

import (
	"fmt"
	"time"

	sdk "github.com/cosmos/cosmos-sdk/types"
	banktypes "github.com/cosmos/cosmos-sdk/x/bank/types"

	"github.com/comdex-official/comdex/app/wasm/bindings"
	assettypes "github.com/comdex-official/comdex/x/asset/types"
	auctionsV2types "github.com/comdex-official/comdex/x/auctionsV2/types"
	lendtypes "github.com/comdex-official/comdex/x/lend/types"
	liqV2types "github.com/comdex-official/comdex/x/liquidationsV2/types"
	markettypes "github.com/comdex-official/comdex/x/market/types"
	auctiontypes "github.com/comdex-official/comdex/x/auction/types"
	esmtypes "github.com/comdex-official/comdex/x/esm/types"
	liquiditytypes "github.com/comdex-official/comdex/x/liquidity/types"
	tokenminttypes "github.com/comdex-official/comdex/x/tokenmint/types"
	vaulttypes "github.com/comdex-official/comdex/x/vault/types"

	"vh/sim"
)

// world = one application instance plus the ids of the fixture objects. Configuration (assets, apps, pairs,
// rates, white-listing, auction parameters: governance / wasm-binding entry points) goes through the keepers'
// exported entry points; user actions go through the message router (sim.Deliver).
type world struct {
	*sim.Env
	asset map[string]uint64 // denom -> asset id
	app   map[string]uint64 // app name -> id
	notes []string
	omit  map[string]bool // optional configuration records that governance has not (yet) written in this world
	twaN  int             // oracle window size the fixture prices are consistent with (default 1)
	hist  []histRec // hooks executed while the history of the state was produced (judged like plain blocks)
}

type histRec struct {
	What     string
	Oracle   bool // a band price round
	Zero     bool // ... that carried a zero rate
	Rebuild  bool // ... with a positive rate after a zero-rate outage
	Silent   bool // ... in which band did not answer
	Returned bool
	PanicS   string
}

func dec(s string) sdk.Dec { return sdk.MustNewDecFromStr(s) }

func coin(denom string, amt int64) sdk.Coin { return sdk.NewInt64Coin(denom, amt) }

var userNames = []string{"u1", "u2", "u3", "u4", "bidder"}

var fundDenoms = []string{"uasset1", "uasset2", "uasset3", "uasset4", "ucmdx", "ucmst", "uharbor", "uatom"}

func newWorld() *world {
	var funds []sim.Fund
	for _, u := range userNames {
		cs := sdk.NewCoins()
		for _, d := range fundDenoms {
			cs = cs.Add(sdk.NewCoin(d, sdk.NewInt(1000000000000000)))
		}
		funds = append(funds, sim.Fund{Name: u, Coins: cs})
	}
	return &world{Env: sim.New(funds), asset: map[string]uint64{}, app: map[string]uint64{}, notes: []string{}, omit: map[string]bool{}, twaN: 1}
}

func (w *world) must(err error, what string) {
	if err != nil {
		panic(fmt.Sprintf("fixture: %s: %v", what, err))
	}
}

func (w *world) user(n string) string { return w.Users[n].String() }

// deliver a real message; the fixture expects success.
func (w *world) deliver(msg sdk.Msg, what string) {
	r := w.Deliver(msg)
	if !r.OK {
		panic(fmt.Sprintf("fixture: %s failed: %s", what, r.Err))
	}
}

// try delivers a message that may legitimately fail.
func (w *world) try(msg sdk.Msg) sim.Result { return w.Deliver(msg) }

func (w *world) addAsset(name, denom string, priced bool, twa uint64) uint64 {
	w.must(w.App.AssetKeeper.AddAssetRecords(w.Ctx, assettypes.Asset{Name: name, Denom: denom, Decimals: sdk.NewInt(1000000),
		IsOnChain: true, IsOraclePriceRequired: priced, IsCdpMintable: true}), "asset "+name)
	for _, a := range w.App.AssetKeeper.GetAssets(w.Ctx) {
		if a.Denom == denom {
			w.asset[denom] = a.Id
			if priced {
				w.setPrice(a.Id, twa, true)
			}
			return a.Id
		}
	}
	panic("asset not found " + denom)
}

func (w *world) setPrice(id uint64, price uint64, active bool) {
	n := w.twaN
	if n < 1 {
		n = 1
	}
	win := make([]uint64, n)
	for i := range win {
		win[i] = price
	}
	w.App.MarketKeeper.SetTwa(w.Ctx, markettypes.TimeWeightedAverage{AssetID: id, ScriptID: 10, Twa: price, CurrentIndex: 0,
		IsPriceActive: active, PriceValue: win, DiscardedHeightDiff: -1})
}

func (w *world) addApp(name, short string) uint64 {
	w.must(w.App.AssetKeeper.AddAppRecords(w.Ctx, assettypes.AppData{Name: name, ShortName: short, MinGovDeposit: sdk.NewInt(0),
		GovTimeInSeconds: 0, GenesisToken: []assettypes.MintGenesisToken{}}), "app "+name)
	apps, _ := w.App.AssetKeeper.GetApps(w.Ctx)
	for _, a := range apps {
		if a.Name == name {
			w.app[name] = a.Id
			return a.Id
		}
	}
	panic("app not found")
}

func (w *world) addAppGov(name, short string, govAsset uint64, recipient string) uint64 {
	w.must(w.App.AssetKeeper.AddAppRecords(w.Ctx, assettypes.AppData{Name: name, ShortName: short, MinGovDeposit: sdk.NewInt(0),
		GovTimeInSeconds: 0, GenesisToken: []assettypes.MintGenesisToken{{AssetId: govAsset, GenesisSupply: sdk.NewInt(1000000000000),
			IsGovToken: true, Recipient: recipient}}}), "app "+name)
	apps, _ := w.App.AssetKeeper.GetApps(w.Ctx)
	for _, a := range apps {
		if a.Name == name {
			w.app[name] = a.Id
			return a.Id
		}
	}
	panic("app not found")
}

func (w *world) rates(assetID uint64, uopt, base, s1, s2 string, stable bool, sb, ss1, ss2, ltv, lt, lp, lb, rf string, cAsset uint64) {
	w.must(w.App.LendKeeper.AddAssetRatesParams(w.Ctx, lendtypes.AssetRatesParams{AssetID: assetID, UOptimal: dec(uopt), Base: dec(base),
		Slope1: dec(s1), Slope2: dec(s2), EnableStableBorrow: stable, StableBase: dec(sb), StableSlope1: dec(ss1), StableSlope2: dec(ss2),
		Ltv: dec(ltv), LiquidationThreshold: dec(lt), LiquidationPenalty: dec(lp), LiquidationBonus: dec(lb), ReserveFactor: dec(rf),
		CAssetID: cAsset}), "rates")
}

func (w *world) ratesPool(assetID uint64, uopt, base, s1, s2, ltv, lt, lp, lb, rf string, cAsset uint64, module, cpool string, data []*lendtypes.AssetDataPoolMapping) {
	w.must(w.App.LendKeeper.AddAssetRatesPoolPairs(w.Ctx, lendtypes.AssetRatesPoolPairs{AssetID: assetID, UOptimal: dec(uopt), Base: dec(base),
		Slope1: dec(s1), Slope2: dec(s2), StableBase: dec("0"), StableSlope1: dec("0"), StableSlope2: dec("0"),
		Ltv: dec(ltv), LiquidationThreshold: dec(lt), LiquidationPenalty: dec(lp), LiquidationBonus: dec(lb), ReserveFactor: dec(rf),
		CAssetID: cAsset, ModuleName: module, CPoolName: cpool, AssetData: data, MinUsdValueLeft: 1000000}), "rates+pool")
}

// base builds the common configuration (the same shape the repository's own liquidationsV2 tests use):
// assets 1-4 (+ their c-assets 5-8), lend pools "cmdx" (assets 1,2,3) and "osmo" (4,1,3), apps cswap(1) harbor(2)
// commodo(3), harbor pair 2->3 with one extended pair vault, liquidation white-listing for harbor and commodo,
// auctionsV2 parameters. uopt2 = optimal utilisation of asset 2 (the borrowed asset).
func (w *world) base(uopt2 string) {
	// oracle: validation result "true" (band answered), no fetch cycle configured: prices stay as set below
	w.App.BandoracleKeeper.SetOracleValidationResult(w.Ctx, true)
	a1 := w.addAsset("ASSETONE", "uasset1", true, 2000000)
	a2 := w.addAsset("ASSETTWO", "uasset2", true, 2000000)
	a3 := w.addAsset("ASSETTHREE", "uasset3", true, 1000000)
	a4 := w.addAsset("ASSETFOUR", "uasset4", true, 2000000)
	c1 := w.addAsset("CASSETONE", "ucasset1", true, 1000000)
	c2 := w.addAsset("CASSETTWO", "ucasset2", true, 2000000)
	c3 := w.addAsset("CASSETTHRE", "ucasset3", true, 2000000)
	c4 := w.addAsset("CASSETFOUR", "ucasset4", true, 2000000)
	p1a1 := &lendtypes.AssetDataPoolMapping{AssetID: a1, AssetTransitType: 3, SupplyCap: sdk.NewDec(5000000000000000000)}
	p1a2 := &lendtypes.AssetDataPoolMapping{AssetID: a2, AssetTransitType: 1, SupplyCap: sdk.NewDec(1000000000000000000)}
	p1a3 := &lendtypes.AssetDataPoolMapping{AssetID: a3, AssetTransitType: 2, SupplyCap: sdk.NewDec(5000000000000000000)}
	p2a4 := &lendtypes.AssetDataPoolMapping{AssetID: a4, AssetTransitType: 1, SupplyCap: sdk.NewDec(3000000000000000000)}
	w.rates(a3, "0.8", "0.002", "0.06", "0.6", true, "0.04", "0.04", "0.06", "0.8", "0.85", "0.025", "0.025", "0.1", c3)
	w.rates(a1, "0.75", "0.002", "0.07", "1.25", false, "0.0", "0.0", "0.0", "0.7", "0.75", "0.05", "0.05", "0.2", c1)
	w.ratesPool(a2, uopt2, "0.002", "0.08", "2.0", "0.5", "0.55", "0.05", "0.05", "0.2", c2, "cmdx", "CMDX-ATOM-CMST",
		[]*lendtypes.AssetDataPoolMapping{p1a1, p1a2, p1a3})
	w.ratesPool(a4, "0.65", "0.002", "0.08", "1.5", "0.6", "0.65", "0.05", "0.05", "0.2", c4, "osmo", "OSMO-ATOM-CMST",
		[]*lendtypes.AssetDataPoolMapping{p2a4, p1a1, p1a3})
	gov := w.addAsset("HARBOR", "uharbor", false, 0)
	w.addAsset("CMDX", "ucmdx", false, 0) // the liquidity module's swap-fee distribution denom
	w.addApp("cswap", "cswap")
	w.addAppGov("harbor", "hbr", gov, w.user("u4"))
	w.addApp("commodo", "cmdo")

	w.must(w.App.AssetKeeper.AddPairsRecords(w.Ctx, assettypes.Pair{AssetIn: a2, AssetOut: a3}), "pair")
	w.must(w.App.AssetKeeper.WasmAddExtendedPairsVaultRecords(w.Ctx, &bindings.MsgAddExtendedPairsVault{AppID: w.app["harbor"], PairID: 1,
		StabilityFee: dec("0.01"), ClosingFee: dec("0"), LiquidationPenalty: dec("0.12"), DrawDownFee: dec("0.01"), IsVaultActive: true,
		DebtCeiling: sdk.NewInt(1000000000000), DebtFloor: sdk.NewInt(1000000), MinCr: dec("1.5"), PairName: "CMDX-B",
		AssetOutOraclePrice: true, AssetOutPrice: 1000000, MinUsdValueLeft: 1000000}), "ext pair")

	// second CDP app (own pair 2: asset 4 -> asset 3, own extended pair 2): hook loops see more than one app with real work
	w.addApp("osmovlt", "ovt")
	w.must(w.App.AssetKeeper.AddPairsRecords(w.Ctx, assettypes.Pair{AssetIn: a4, AssetOut: a3}), "pair 2")
	w.must(w.App.AssetKeeper.WasmAddExtendedPairsVaultRecords(w.Ctx, &bindings.MsgAddExtendedPairsVault{AppID: w.app["osmovlt"], PairID: 2,
		StabilityFee: dec("0.02"), ClosingFee: dec("0"), LiquidationPenalty: dec("0.1"), DrawDownFee: dec("0.01"), IsVaultActive: true,
		DebtCeiling: sdk.NewInt(1000000000000), DebtFloor: sdk.NewInt(100000), MinCr: dec("1.4"), PairName: "OSMO-B",
		AssetOutOraclePrice: false, AssetOutPrice: 1000000, MinUsdValueLeft: 1000000}), "ext pair 2")
	if !w.omit["rewards_wl"] {
		w.must(w.App.Rewardskeeper.WhitelistAppIDVault(w.Ctx, w.app["osmovlt"]), "vault interest whitelist 2")
		w.must(w.App.Rewardskeeper.WhitelistAppIDVault(w.Ctx, w.app["harbor"]), "vault interest whitelist") // stability fee accrues
	}
	if !w.omit["wl_osmovlt"] {
		w.whitelist("osmovlt", true, true)
	}
	if !w.omit["wl_harbor"] {
		w.whitelist("harbor", true, true)
	}
	if !w.omit["wl_commodo"] {
		w.whitelist("commodo", true, false)
	}
	if w.omit["aucparams"] {
		return
	}
	w.App.NewaucKeeper.SetAuctionParams(w.Ctx, auctionsV2types.AuctionParams{AuctionDurationSeconds: 3600, Step: dec("0.1"),
		WithdrawalFee: dec("0.0"), ClosingFee: dec("0.0"), MinUsdValueLeft: 100000, BidFactor: dec("0.1"), LiquidationPenalty: dec("0.1"),
		AuctionBonus: dec("0.0")})
}

// whitelist = governance configuration of the liquidation/auction types of an app.
func (w *world) whitelist(app string, dutch, english bool) {
	dp := liqV2types.DutchAuctionParam{Premium: dec("0.1"), Discount: dec("0.1"), DecrementFactor: sdk.NewInt(1)}
	ep := liqV2types.EnglishAuctionParam{DecrementFactor: sdk.NewInt(1)}
	w.App.NewliqKeeper.SetLiquidationWhiteListing(w.Ctx, liqV2types.LiquidationWhiteListing{AppId: w.app[app], Initiator: true,
		IsDutchActivated: dutch, DutchAuctionParam: &dp, IsEnglishActivated: english, EnglishAuctionParam: &ep, KeeeperIncentive: dec("0.1")})
}

// lending: u1 and u2 lend asset 1 (collateral side) and asset 2, the pools are funded, u1 and u2 borrow asset 2
// against their c-asset-1 (pair 1), exactly at the LTV bound so that a price drop of asset 1 makes them unsafe.
func (w *world) lending(nBorrow int) {
	a1, a2, a3, a4 := w.asset["uasset1"], w.asset["uasset2"], w.asset["uasset3"], w.asset["uasset4"]
	cm := w.app["commodo"]
	w.deliver(lendtypes.NewMsgLend(w.user("u1"), a1, coin("uasset1", 3000000000), 1, cm), "lend1")
	w.deliver(lendtypes.NewMsgLend(w.user("u1"), a2, coin("uasset2", 10000000000), 1, cm), "lend2")
	w.deliver(lendtypes.NewMsgLend(w.user("u2"), a1, coin("uasset1", 10000000000), 1, cm), "lend3")
	w.deliver(lendtypes.NewMsgFundModuleAccounts(1, a1, w.user("u1"), coin("uasset1", 10000000000)), "fund")
	w.deliver(lendtypes.NewMsgFundModuleAccounts(1, a2, w.user("u1"), coin("uasset2", 10000000000)), "fund")
	w.deliver(lendtypes.NewMsgFundModuleAccounts(1, a3, w.user("u1"), coin("uasset3", 120000000)), "fund")
	w.deliver(lendtypes.NewMsgFundModuleAccounts(2, a1, w.user("u1"), coin("uasset1", 10000000000)), "fund")
	w.deliver(lendtypes.NewMsgFundModuleAccounts(2, a4, w.user("u1"), coin("uasset4", 10000000000)), "fund")
	if nBorrow >= 1 {
		w.deliver(lendtypes.NewMsgBorrow(w.user("u1"), 1, 1, false, coin("ucasset1", 100000000), coin("uasset2", 70000000)), "borrow1")
	}
	if nBorrow >= 2 {
		w.deliver(lendtypes.NewMsgBorrow(w.user("u2"), 3, 1, false, coin("ucasset1", 1000000000), coin("uasset2", 700000000)), "borrow2")
	}
	if nBorrow >= 3 {
		w.deliver(lendtypes.NewMsgLend(w.user("u3"), a1, coin("uasset1", 500000000), 1, cm), "lend4")
		w.deliver(lendtypes.NewMsgBorrow(w.user("u3"), 4, 1, false, coin("ucasset1", 200000000), coin("uasset2", 100000000)), "borrow3")
	}
}

// vaults: n users open a harbor vault on extended pair 1 (collateral asset 2 at price 2, debt asset 3 at price 1, MinCr 1.5).
func (w *world) vaults(n int) {
	for i := 0; i < n; i++ {
		w.deliver(&vaulttypes.MsgCreateRequest{From: w.user(userNames[i]), AppId: w.app["harbor"], ExtendedPairVaultId: 1,
			AmountIn: sdk.NewInt(1000000), AmountOut: sdk.NewInt(1000000 + int64(i)*100000)}, "vault create")
	}
}

// vaults2: n users open a osmovlt vault on extended pair 2 (collateral asset 4 at price 2, debt asset 3, MinCr 1.4).
func (w *world) vaults2(n int) {
	for i := 0; i < n; i++ {
		w.deliver(&vaulttypes.MsgCreateRequest{From: w.user(userNames[i]), AppId: w.app["osmovlt"], ExtendedPairVaultId: 2,
			AmountIn: sdk.NewInt(800000), AmountOut: sdk.NewInt(900000 + int64(i)*50000)}, "vault2 create")
	}
}

func (w *world) block(dt time.Duration) sim.BlockResult { return w.NextBlock(dt) }

func (w *world) note(format string, a ...interface{}) { w.notes = append(w.notes, fmt.Sprintf(format, a...)) }

// mintGov: genesis minting of harbor's governance token (real MsgMintNewTokens) - creates the app's token-mint data.
func (w *world) mintGov() {
	w.deliver(&tokenminttypes.MsgMintNewTokensRequest{From: w.user("u4"), AppId: w.app["harbor"], AssetId: w.asset["uharbor"]}, "mint gov")
}

// collector configuration of harbor for its debt asset (asset 3): lookup table + auction mapping (wasm-binding entry points).
func (w *world) collector(surplus, debt bool, surplusThreshold, debtThreshold, lot int64) {
	w.lookup("harbor", "uasset3", surplusThreshold, debtThreshold, lot)
	w.mapping("harbor", "uasset3", surplus, debt)
}

func (w *world) lookup(app, denom string, surplusThreshold, debtThreshold, lot int64) {
	w.must(w.App.CollectorKeeper.WasmSetCollectorLookupTable(w.Ctx, &bindings.MsgSetCollectorLookupTable{AppID: w.app[app],
		CollectorAssetID: w.asset[denom], SecondaryAssetID: w.asset["uharbor"], SurplusThreshold: sdk.NewInt(surplusThreshold),
		DebtThreshold: sdk.NewInt(debtThreshold), LockerSavingRate: dec("0.1"), LotSize: sdk.NewInt(lot), BidFactor: dec("0.01"),
		DebtLotSize: sdk.NewInt(2000000)}), "collector lookup")
}

func (w *world) mapping(app, denom string, surplus, debt bool) {
	w.must(w.App.CollectorKeeper.WasmSetAuctionMappingForApp(w.Ctx, &bindings.MsgSetAuctionMappingForApp{AppID: w.app[app],
		AssetIDs: w.asset[denom], IsSurplusAuctions: surplus, IsDebtAuctions: debt, IsDistributor: false,
		AssetOutOraclePrices: false, AssetOutPrices: 1000000}), "auction mapping")
}

// killSwitch: the esm admin switches an app's circuit breaker on (real MsgKillRequest).
func (w *world) killSwitch(app string) {
	r := w.try(&esmtypes.MsgKillRequest{From: esmtypes.DefaultAdmin[0], KillSwitchParams: &esmtypes.KillSwitchParams{AppId: w.app[app], BreakerEnable: true}})
	w.note("kill switch %s ok=%v %s", app, r.OK, short(r.Err))
}

// esm: emergency-shutdown parameters of harbor, deposit of governance tokens up to the target, execution (real messages).
func (w *world) esmParams(coolOff uint64) {
	w.must(w.App.EsmKeeper.AddESMTriggerParamsForApp(w.Ctx, &bindings.MsgAddESMTriggerParams{AppID: w.app["harbor"],
		TargetValue: coin("uharbor", 1000000), CoolOffPeriod: coolOff, AssetID: []uint64{w.asset["uasset3"]}, Rates: []uint64{1000000}}), "esm params")
}

func (w *world) esmExecute() {
	w.deliver(&esmtypes.MsgDepositESM{AppId: w.app["harbor"], Depositor: w.user("u4"), Amount: coin("uharbor", 1000000)}, "esm deposit")
	w.deliver(&esmtypes.MsgExecuteESM{AppId: w.app["harbor"], Depositor: w.user("u4")}, "esm execute")
}

// v1: apps white-listed in the V1 liquidation module, with or without V1 auction parameters (a chain that still has V1
// state; white-listing and auction parameters are separate governance steps).
func (w *world) v1enable() { w.v1app("harbor", true) }

func (w *world) v1app(app string, withParams bool) {
	w.must(w.App.LiquidationKeeper.WasmWhitelistAppIDLiquidation(w.Ctx, w.app[app]), "v1 whitelist")
	if withParams {
		w.App.AuctionKeeper.SetAuctionParams(w.Ctx, auctiontypes.AuctionParams{AppId: w.app[app], AuctionDurationSeconds: 300,
			Buffer: dec("1.2"), Cusp: dec("0.6"), Step: sdk.NewInt(1), PriceFunctionType: 1, SurplusId: 1, DebtId: 2, DutchId: 3,
			BidDurationSeconds: 300})
	}
}

// v1lendParams: V1 lend auction parameters of commodo (the V1 borrow sweep needs them to start its auctions).
func (w *world) v1lendParams() {
	w.must(w.App.LendKeeper.AddAuctionParamsData(w.Ctx, lendtypes.AuctionParams{AppId: w.app["commodo"], AuctionDurationSeconds: 300,
		Buffer: dec("1.2"), Cusp: dec("0.6"), Step: sdk.NewInt(1), PriceFunctionType: 1, DutchId: 3, BidDurationSeconds: 300}), "v1 lend auction params")
}

// liquidity: cswap pair 1 (asset1/asset2) with a basic pool, deposit / withdraw requests and limit orders (real messages).
func (w *world) liquidity(lifespan time.Duration) { w.liquidityIn("cswap", lifespan) }

func (w *world) liquidityIn(app string, lifespan time.Duration) {
	cs := w.app[app]
	w.deliver(liquiditytypes.NewMsgCreatePair(cs, w.Users["u1"], "uasset1", "uasset2"), "create pair")
	w.deliver(liquiditytypes.NewMsgCreatePool(cs, w.Users["u1"], 1, sdk.NewCoins(coin("uasset1", 1000000000), coin("uasset2", 1000000000))), "create pool")
	w.deliver(liquiditytypes.NewMsgDeposit(cs, w.Users["u2"], 1, sdk.NewCoins(coin("uasset1", 50000000), coin("uasset2", 50000000))), "deposit req")
	w.deliver(liquiditytypes.NewMsgLimitOrder(cs, w.Users["u3"], 1, liquiditytypes.OrderDirectionBuy, coin("uasset2", 1100000), "uasset1",
		dec("1.0"), sdk.NewInt(1000000), lifespan), "buy order")
	w.deliver(liquiditytypes.NewMsgLimitOrder(cs, w.Users["u2"], 1, liquiditytypes.OrderDirectionSell, coin("uasset1", 3030000), "uasset2",
		dec("1.05"), sdk.NewInt(3000000), lifespan), "sell order (rests)")
	w.deliver(liquiditytypes.NewMsgLimitOrder(cs, w.Users["u4"], 1, liquiditytypes.OrderDirectionBuy, coin("uasset2", 600000), "uasset1",
		dec("0.95"), sdk.NewInt(500000), lifespan), "buy order (rests)")
}

// pairID finds the lend pair (collateral asset -> borrowed asset of pool).
func (w *world) pairID(in, out, outPool uint64) uint64 {
	for _, p := range w.App.LendKeeper.GetLendPairs(w.Ctx) {
		if p.AssetIn == in && p.AssetOut == out && p.AssetOutPoolID == outPool {
			return p.Id
		}
	}
	panic("lend pair not found")
}

// feeTrap: in the given app a pair (asset 4 / ucmdx) with a pool that never traded; somebody bank-sends asset-4 coins to the
// pair's swap-fee collector address (anyone can): at the next height divisible by 150 the swap-fee conversion has a coin
// that is routable to the distribution denom through a pair without a last price.
func (w *world) feeTrap(app string) {
	id := w.app[app]
	w.deliver(liquiditytypes.NewMsgCreatePair(id, w.Users["u1"], "uasset4", "ucmdx"), "create pair a4/cmdx")
	var pairID uint64
	for _, p := range w.App.LiquidityKeeper.GetAllPairs(w.Ctx, id) {
		if p.BaseCoinDenom == "uasset4" && p.QuoteCoinDenom == "ucmdx" {
			pairID = p.Id
		}
	}
	w.deliver(liquiditytypes.NewMsgCreatePool(id, w.Users["u1"], pairID, sdk.NewCoins(coin("uasset4", 100000000), coin("ucmdx", 100000000))), "create pool a4/cmdx")
	pair, _ := w.App.LiquidityKeeper.GetPair(w.Ctx, id, pairID)
	w.deliver(banktypes.NewMsgSend(w.Users["u3"], pair.GetSwapFeeCollectorAddress(), sdk.NewCoins(coin("uasset4", 5000))), "send to fee collector")
}
