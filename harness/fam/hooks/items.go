package hooks

import (
	"fmt"

	sdk "github.com/cosmos/cosmos-sdk/types"
)

// Per-item steps of the V2 liquidation sweep checked with ENVIRONMENT faults (they are units of work by the
// property statement whether or not the code runs them through the wrapper):
//
//	probe  : the item's own step (LiquidateIndividualVault / LiquidateIndividualBorrow, the function the sweep calls)
//	         is executed alone on a throw-away branch: does it fail on this state?
//	fault  : the real liquidationsV2 begin blocker on the state;
//	ref    : the same begin blocker on the state in which the item is MASKED so that its step cannot act
//	         (borrow: flagged as already liquidated; vault: collateral inflated so that it is safe), the mask being
//	         taken off again afterwards. If a failing item leaves nothing behind and the later items are still
//	         processed, both stores are equal.
func (d *driver) items(w *world, stNode int, run string) {
	h := hookByName("liqv2")
	hf := func(c sdk.Context) { h.fn(w, c) }
	dg := d.digest(w)
	k := w.App.NewliqKeeper

	probe := func(f func(c sdk.Context) error) (failed bool, msg string) {
		c, _ := w.Ctx.CacheContext()
		defer func() {
			if r := recover(); r != nil {
				failed, msg = true, "panic: "+short(fmt.Sprint(r))
			}
		}()
		if err := f(c); err != nil {
			return true, short(err.Error())
		}
		return false, ""
	}
	plain := func() runResult {
		t := &tracer{mode: modePlain}
		return t.run(w.Ctx, hf, dg)
	}
	var faultRun *runResult

	ids, _ := w.App.LendKeeper.GetBorrows(w.Ctx)
	for _, id := range ids {
		id := id
		b, found := w.App.LendKeeper.GetBorrow(w.Ctx, id)
		if !found || b.IsLiquidated {
			continue
		}
		failed, msg := probe(func(c sdk.Context) error { return k.LiquidateIndividualBorrow(c, id, "", false) })
		if faultRun == nil {
			r := plain()
			faultRun = &r
		}
		t := &tracer{mode: modePlain}
		masked, _ := w.Ctx.CacheContext()
		mb := b
		mb.IsLiquidated = true
		w.App.LendKeeper.SetBorrow(masked, mb)
		ref := t.run(masked, func(c sdk.Context) {
			h.fn(w, c)
			w.App.LendKeeper.SetBorrow(c, b) // take the mask off
		}, dg)
		d.log.Add(stNode, run, "Item", map[string]interface{}{"state": d.state, "hook": "liqv2", "kind": "borrow", "id": id},
			map[string]interface{}{"probeFailed": failed, "probeErr": msg, "returned": faultRun.Returned, "retRef": ref.Returned, "panicS": faultRun.PanicS, "panicK": panicKind(faultRun.PanicS)},
			map[string]interface{}{"dFault": faultRun.Digest, "dRef": ref.Digest})
		d.stats["items"]++
	}

	for _, v := range w.App.VaultKeeper.GetVaults(w.Ctx) {
		v := v
		failed, msg := probe(func(c sdk.Context) error { return k.LiquidateIndividualVault(c, v.Id, "", false) })
		if faultRun == nil {
			r := plain()
			faultRun = &r
		}
		t := &tracer{mode: modePlain}
		masked, _ := w.Ctx.CacheContext()
		mv := v
		mv.AmountIn = v.AmountIn.MulRaw(1000000)
		w.App.VaultKeeper.SetVault(masked, mv)
		ref := t.run(masked, func(c sdk.Context) {
			h.fn(w, c)
			w.App.VaultKeeper.SetVault(c, v)
		}, dg)
		d.log.Add(stNode, run, "Item", map[string]interface{}{"state": d.state, "hook": "liqv2", "kind": "vault", "id": v.Id},
			map[string]interface{}{"probeFailed": failed, "probeErr": msg, "returned": faultRun.Returned, "retRef": ref.Returned, "panicS": faultRun.PanicS, "panicK": panicKind(faultRun.PanicS)},
			map[string]interface{}{"dFault": faultRun.Digest, "dRef": ref.Digest})
		d.stats["items"]++
	}
}
