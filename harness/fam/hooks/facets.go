package hooks

import (
	sdk "github.com/cosmos/cosmos-sdk/types"
)

// Facets: what one liquidation step (a unit of work by the property statement: "one vault or borrow liquidation")
// consists of, observed per position around the liquidation begin blocker of ONE module run alone (no auction
// processing in between):
//
//	seized  the position left the books of its module (vault record deleted / borrow flagged liquidated)
//	locked  a locked-vault record for exactly this position was created
//	started an auction for that locked vault was created
//
// A step that is all-or-nothing shows all three or none of them - whether it failed loudly, was skipped, or an inner
// step failed by itself (auction parameters missing, auction type disabled, price inactive at the second lookup,
// collateral not available ...). The harness records the facets; Trace_Hooks judges.
type facet struct {
	Seized  bool `json:"seized"`
	Locked  bool `json:"locked"`
	Started bool `json:"started"`
}

type posKey struct {
	kind string
	id   uint64
}

// v1 positions -> (locked vault id) and auctions by locked vault id
func (w *world) facetsV1(ctx sdk.Context, apps []uint64) (vaultLocked map[uint64]uint64, borrowLocked map[uint64]uint64, auctions map[uint64]bool) {
	vaultLocked, borrowLocked, auctions = map[uint64]uint64{}, map[uint64]uint64{}, map[uint64]bool{}
	for _, lv := range w.App.LiquidationKeeper.GetLockedVaults(ctx) {
		if lv.GetKind() == nil {
			vaultLocked[lv.OriginalVaultId] = lv.LockedVaultId
		} else {
			borrowLocked[lv.OriginalVaultId] = lv.LockedVaultId
		}
	}
	for _, app := range apps {
		for _, a := range w.App.AuctionKeeper.GetDutchAuctions(ctx, app) {
			auctions[a.LockedVaultId] = true
		}
		for _, a := range w.App.AuctionKeeper.GetDutchLendAuctions(ctx, app) {
			auctions[a.LockedVaultId] = true
		}
	}
	return
}

func (w *world) facetsV2(ctx sdk.Context) (vaultLocked map[uint64]uint64, borrowLocked map[uint64]uint64, auctions map[uint64]bool) {
	vaultLocked, borrowLocked, auctions = map[uint64]uint64{}, map[uint64]uint64{}, map[uint64]bool{}
	for _, lv := range w.App.NewliqKeeper.GetLockedVaults(ctx) {
		switch lv.InitiatorType {
		case "vault":
			vaultLocked[lv.OriginalVaultId] = lv.LockedVaultId
		case "lend":
			borrowLocked[lv.OriginalVaultId] = lv.LockedVaultId
		}
	}
	for _, a := range w.App.NewaucKeeper.GetAuctions(ctx) {
		auctions[a.LockedVaultId] = true
	}
	return
}

func (d *driver) facets(w *world, stNode int, run string) {
	apps, _ := w.App.AssetKeeper.GetApps(w.Ctx)
	var appIDs []uint64
	for _, a := range apps {
		appIDs = append(appIDs, a.Id)
	}
	v1apps := w.App.LiquidationKeeper.GetAppIdsForLiquidation(w.Ctx)
	for _, hn := range []string{"liqv1", "liqv2"} {
		if hn == "liqv1" && len(v1apps) == 0 {
			continue
		}
		h := hookByName(hn)
		view := func(c sdk.Context) (map[uint64]uint64, map[uint64]uint64, map[uint64]bool) {
			if hn == "liqv1" {
				return w.facetsV1(c, appIDs)
			}
			return w.facetsV2(c)
		}
		preV, preB, _ := view(w.Ctx)
		vaults := w.App.VaultKeeper.GetVaults(w.Ctx)
		borrowIDs, _ := w.App.LendKeeper.GetBorrows(w.Ctx)
		out := map[posKey]facet{}
		t := &tracer{mode: modePlain}
		rr := t.run(w.Ctx, func(c sdk.Context) {
			h.fn(w, c)
		}, func(c sdk.Context) string {
			postV, postB, auc := view(c)
			for _, v := range vaults {
				_, still := w.App.VaultKeeper.GetVault(c, v.Id)
				lid, locked := postV[v.Id]
				if _, was := preV[v.Id]; was {
					locked = false
				}
				out[posKey{"vault", v.Id}] = facet{Seized: !still, Locked: locked, Started: locked && auc[lid]}
			}
			for _, id := range borrowIDs {
				b0, _ := w.App.LendKeeper.GetBorrow(w.Ctx, id)
				if b0.IsLiquidated {
					continue
				}
				b1, found := w.App.LendKeeper.GetBorrow(c, id)
				lid, locked := postB[id]
				if _, was := preB[id]; was {
					locked = false
				}
				out[posKey{"borrow", id}] = facet{Seized: !found || b1.IsLiquidated, Locked: locked, Started: locked && auc[lid]}
			}
			return ""
		})
		applied := map[uint64]bool{}
		for _, v := range vaults {
			if f := out[posKey{"vault", v.Id}]; f.Seized {
				applied[v.AppId] = true
			}
		}
		appliedApps := []uint64{}
		for _, a := range appIDs {
			if applied[a] {
				appliedApps = append(appliedApps, a)
			}
		}
		swept := []uint64{}
		if hn == "liqv1" {
			swept = append(swept, v1apps...)
		} else {
			for _, a := range appIDs { // the V2 sweep is one loop over the vaults of every white-listed app
				if _, ok := w.App.NewliqKeeper.GetLiquidationWhiteListing(w.Ctx, a); ok {
					swept = append(swept, a)
				}
			}
		}
		d.log.Add(stNode, run, "Sweep", map[string]interface{}{"state": d.state, "hook": hn},
			map[string]interface{}{"returned": rr.Returned, "panicS": rr.PanicS, "panicK": panicKind(rr.PanicS)},
			map[string]interface{}{"sweptApps": swept, "appliedApps": appliedApps})
		for _, v := range vaults {
			d.log.Add(stNode, run, "Facets", map[string]interface{}{"state": d.state, "envfault": d.envfault, "hook": hn, "kind": "vault", "id": v.Id, "app": v.AppId},
				map[string]interface{}{"returned": rr.Returned, "panicS": rr.PanicS, "panicK": panicKind(rr.PanicS)}, out[posKey{"vault", v.Id}])
			d.stats["facets"]++
		}
		for _, id := range borrowIDs {
			f, ok := out[posKey{"borrow", id}]
			if !ok && rr.Returned {
				continue
			}
			d.log.Add(stNode, run, "Facets", map[string]interface{}{"state": d.state, "envfault": d.envfault, "hook": hn, "kind": "borrow", "id": id, "app": 0},
				map[string]interface{}{"returned": rr.Returned, "panicS": rr.PanicS, "panicK": panicKind(rr.PanicS)}, f)
			d.stats["facets"]++
		}
	}
}
