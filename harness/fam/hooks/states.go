package hooks

import (
	"time"

	sdk "github.com/cosmos/cosmos-sdk/types"

	auctionsV2types "github.com/comdex-official/comdex/x/auctionsV2/types"
	liqV2types "github.com/comdex-official/comdex/x/liquidationsV2/types"

	"vh/sim"
)

// params = seeded variation of the fixture states.
type params struct {
	NVaults  int    `json:"nVaults"`
	NBorrows int    `json:"nBorrows"`
	Drop     uint64 `json:"drop"` // price of the collateral assets after the drop
	Gap      int64  `json:"gap"`  // seconds between the last block of the history and the hook run
	Bid      int64  `json:"bid"`
}

func newParams(r *sim.Rng, variant int) params {
	p := params{NVaults: 2, NBorrows: 2, Drop: 1000000, Gap: 6, Bid: 200000}
	if variant > 0 || r != nil {
		p.NVaults = 2 + r.Intn(2)
		p.NBorrows = 2 + r.Intn(2)
		p.Drop = []uint64{1000000, 900000, 1100000}[r.Intn(3)]
		p.Gap = []int64{6, 6, 1800, 3599, 3601, 7300}[r.Intn(6)]
		p.Bid = []int64{100000, 200000, 350000}[r.Intn(3)]
	}
	return p
}

type stateBuilder struct {
	name  string
	build func(w *world, p params) []string // returns the hooks to enumerate on the state
}

// advance moves the working context to the header of the next block (height+1, time+dt) without running any hook:
// the hook cases then run "the begin blocker of the next block" on it.
func (w *world) advance(dt time.Duration) {
	w.Height++
	w.Time = w.Time.Add(dt)
	h := w.Ctx.BlockHeader()
	h.Height = w.Height
	h.Time = w.Time
	w.Ctx = w.Ctx.WithBlockHeader(h)
}

func (w *world) atHeight(h int64) {
	w.Height = h
	hd := w.Ctx.BlockHeader()
	hd.Height = h
	w.Ctx = w.Ctx.WithBlockHeader(hd)
}

func (w *world) mustBlock(dt time.Duration) {
	if br := w.block(dt); br.Panic {
		w.note("history block panicked: %s", short(br.Err))
	}
}

func (w *world) dropPrices(p params) {
	w.setPrice(w.asset["uasset2"], p.Drop, true) // vault collateral 2.0 -> ~1.0: CR 2.0 -> ~1.0 < 1.5
	w.setPrice(w.asset["uasset1"], p.Drop*17/20, true) // borrow collateral falls further than the borrowed asset: debt/collateral > threshold
}

func (w *world) unsafe(p params) {
	w.base("0.5")
	w.lending(p.NBorrows)
	w.vaults(p.NVaults)
	w.mustBlock(6 * time.Second)
	w.dropPrices(p)
}

// running auctions: the unsafe positions were seized by the real begin blocker, a bidder placed a market bid and a limit bid
func (w *world) auctions(p params) {
	w.unsafe(p)
	w.mustBlock(6 * time.Second)
	aucs := w.App.NewaucKeeper.GetAuctions(w.Ctx)
	w.note("auctions=%d", len(aucs))
	if len(aucs) > 0 {
		a := aucs[0]
		r0 := w.try(&liqV2types.MsgAppReserveFundsRequest{AppId: a.AppId, AssetId: a.DebtAssetId, From: w.user("u4"),
			TokenQuantity: sdk.NewCoin(a.DebtToken.Denom, sdk.NewInt(5990000))})
		w.note("reserve funds ok=%v %s", r0.OK, short(r0.Err))
		r := w.try(auctionsV2types.NewMsgPlaceMarketBid(w.user("bidder"), a.AuctionId, sdk.NewCoin(a.DebtToken.Denom, sdk.NewInt(p.Bid))))
		w.note("market bid ok=%v %s", r.OK, short(r.Err))
		r = w.try(&auctionsV2types.MsgDepositLimitBidRequest{CollateralTokenId: a.CollateralAssetId, DebtTokenId: a.DebtAssetId,
			PremiumDiscount: sdk.NewInt(9), Bidder: w.user("bidder"), Amount: sdk.NewCoin(a.DebtToken.Denom, sdk.NewInt(7000000))})
		w.note("limit bid ok=%v %s", r.OK, short(r.Err))
	}
}

func stateBuilders() []stateBuilder {
	return []stateBuilder{
		{"healthy", func(w *world, p params) []string {
			w.base("0.5")
			w.lending(p.NBorrows)
			w.vaults(p.NVaults)
			w.mustBlock(6 * time.Second)
			w.advance(time.Duration(p.Gap) * time.Second)
			return []string{"begin", "end"}
		}},
		{"unsafe", func(w *world, p params) []string {
			w.unsafe(p)
			w.advance(6 * time.Second)
			return []string{"begin"}
		}},
		{"auctions", func(w *world, p params) []string {
			w.auctions(p)
			w.advance(time.Duration(p.Gap) * time.Second)
			return []string{"begin", "end"}
		}},
		{"auctions_expired", func(w *world, p params) []string {
			w.auctions(p)
			w.mustBlock(1800 * time.Second)
			w.advance(3700 * time.Second)
			return []string{"begin"}
		}},
		{"oracle_down", func(w *world, p params) []string {
			// the band oracle stops validating: market's begin blocker switches every price off; liquidations and
			// auction updates then fail for want of prices
			w.auctions(p)
			w.App.BandoracleKeeper.SetOracleValidationResult(w.Ctx, false)
			w.advance(time.Duration(p.Gap) * time.Second)
			return []string{"begin"}
		}},
		{"price_inactive_unsafe", func(w *world, p params) []string {
			// unsafe positions not yet seized while the debt asset's price goes inactive
			w.unsafe(p)
			w.setPrice(w.asset["uasset3"], 1000000, false)
			w.advance(6 * time.Second)
			return []string{"begin"}
		}},
		{"dutch_disabled", func(w *world, p params) []string {
			// governance switched the Dutch auction type off for both apps while positions are unsafe
			w.unsafe(p)
			w.whitelist("harbor", false, true)
			w.whitelist("commodo", false, false)
			w.advance(6 * time.Second)
			return []string{"begin"}
		}},
		{"dutch_disabled_lend", func(w *world, p params) []string {
			w.unsafe(p)
			w.whitelist("commodo", false, false)
			w.advance(6 * time.Second)
			return []string{"begin"}
		}},
	}
}
