package hooks

import (
	"fmt"
	"time"

	sdk "github.com/cosmos/cosmos-sdk/types"

	auctionsV2types "github.com/comdex-official/comdex/x/auctionsV2/types"
	bandtypes "github.com/comdex-official/comdex/x/bandoracle/types"
	lendtypes "github.com/comdex-official/comdex/x/lend/types"
	liquiditytypes "github.com/comdex-official/comdex/x/liquidity/types"
	rewardstypes "github.com/comdex-official/comdex/x/rewards/types"
	liqV2types "github.com/comdex-official/comdex/x/liquidationsV2/types"

	"vh/sim"
)

// params = seeded variation of the fixture states.
type params struct {
	NVaults  int    `json:"nVaults"`
	NBorrows int    `json:"nBorrows"`
	Drop     uint64 `json:"drop"` // price of the collateral assets after the drop
	Gap      int64  `json:"gap"`  // seconds between the last block of the history and the hook run
	Bid      int64  `json:"bid"`
	Drop4    bool   `json:"drop4"` // the collateral of the second CDP app falls too
}

func newParams(r *sim.Rng, variant int) params {
	p := params{NVaults: 2, NBorrows: 2, Drop: 1000000, Gap: 6, Bid: 200000}
	if variant > 0 || r != nil {
		p.NVaults = 2 + r.Intn(2)
		p.NBorrows = 2 + r.Intn(2)
		p.Drop = []uint64{1000000, 900000, 1100000}[r.Intn(3)]
		p.Gap = []int64{6, 6, 1800, 3599, 3601, 7300}[r.Intn(6)]
		p.Bid = []int64{100000, 200000, 350000}[r.Intn(3)]
		p.Drop4 = r.Intn(3) > 0
	}
	return p
}

type stateBuilder struct {
	name  string
	build func(w *world, p params) []string // returns the hooks to enumerate on the state
}

// states built with an environment fault (configuration missing, price inactive, account short, ...)
var envFaultStates = map[string]bool{"oracle_down": true, "price_inactive_unsafe": true, "dutch_disabled": true, "dutch_disabled_lend": true,
	"english_surplus_close_nomint": true, "english_debt_close_nomint": true, "surplus_collector_empty": true, "lend_collateral_lent_out": true,
	"lend_full_uopt1": true, "lend_only_stable_debt": true, "oracle_zero_prices": true, "v1_no_auction_params": true,
	"v1_two_apps_one_unconfigured": true, "debt_price_inactive_two_apps": true, "v1_lend_no_params": true, "two_apps_one_dutch_disabled": true,
	"setup_lookup_before_fees_surplus": true, "setup_lookup_before_fees_debt": true, "setup_second_asset_later": true, "setup_lookup_without_mapping": true,
	"setup_mapping_without_lookup": true, "setup_no_auction_params": true, "setup_no_whitelist": true, "setup_random": true,
	"v1_surplus_no_params": true, "v1_debt_no_params": true, "fee_conversion_gate": true, "fee_conversion_gate_second_app": true,
	"surplus_english_off_unsafe": true, "debt_english_off_unsafe": true, "killswitch_unsafe": true}

// advance moves the working context to the header of the next block (height+1, time+dt) without running any hook:
// the hook cases then run "the begin blocker of the next block" on it.
func (w *world) advance(dt time.Duration) {
	w.Height++
	w.Time = w.Time.Add(dt)
	h := w.Ctx.BlockHeader()
	h.Height = w.Height
	h.Time = w.Time
	w.Ctx = w.Ctx.WithBlockHeader(h)
}

func (w *world) atHeight(h int64) {
	w.Height = h
	hd := w.Ctx.BlockHeader()
	hd.Height = h
	w.Ctx = w.Ctx.WithBlockHeader(hd)
}

func (w *world) mustBlock(dt time.Duration) {
	br := w.block(dt)
	w.hist = append(w.hist, histRec{What: "block", Returned: !br.Panic, PanicS: short(br.Err)})
	if br.Panic {
		w.note("history block panicked: %s", short(br.Err))
	}
}

// histHook runs a hook that the application does not wire (V1 begin blockers) as a step of the state's history: on a
// branch that is written back only when the hook returns (a panicking begin blocker means the block is never committed).
func (w *world) histHook(name string) {
	c, write := w.Ctx.CacheContext()
	rec := histRec{What: name, Returned: true}
	func() {
		defer func() {
			if r := recover(); r != nil {
				rec.Returned, rec.PanicS = false, short(fmt.Sprint(r))
			}
		}()
		hookByName(name).fn(w, c)
	}()
	if rec.Returned {
		write()
	} else {
		w.note("history hook %s panicked: %s", name, rec.PanicS)
	}
	w.hist = append(w.hist, rec)
}

func (w *world) dropPrices(p params) {
	w.setPrice(w.asset["uasset2"], p.Drop, true) // vault collateral 2.0 -> ~1.0: CR 2.0 -> ~1.0 < 1.5
	w.setPrice(w.asset["uasset1"], p.Drop*17/20, true) // borrow collateral falls further than the borrowed asset: debt/collateral > threshold
}

func (w *world) unsafe(p params) {
	w.base("0.5")
	w.lending(p.NBorrows)
	w.vaults(p.NVaults)
	w.vaults2(2)
	w.mustBlock(6 * time.Second)
	w.mustBlock(26 * time.Hour) // stability fee and borrow interest accrue: a liquidation step writes them first
	w.dropPrices(p)
	if p.Drop4 {
		w.setPrice(w.asset["uasset4"], p.Drop, true) // the second CDP app's collateral falls too
	}
}

// running auctions: the unsafe positions were seized by the real begin blocker, a bidder placed a market bid and a limit bid
func (w *world) auctions(p params) {
	w.unsafe(p)
	w.mustBlock(6 * time.Second)
	aucs := w.App.NewaucKeeper.GetAuctions(w.Ctx)
	w.note("auctions=%d", len(aucs))
	if len(aucs) > 0 {
		a := aucs[0]
		r0 := w.try(&liqV2types.MsgAppReserveFundsRequest{AppId: a.AppId, AssetId: a.DebtAssetId, From: w.user("u4"),
			TokenQuantity: sdk.NewCoin(a.DebtToken.Denom, sdk.NewInt(5990000))})
		w.note("reserve funds ok=%v %s", r0.OK, short(r0.Err))
		r := w.try(auctionsV2types.NewMsgPlaceMarketBid(w.user("bidder"), a.AuctionId, sdk.NewCoin(a.DebtToken.Denom, sdk.NewInt(p.Bid))))
		w.note("market bid ok=%v %s", r.OK, short(r.Err))
		r = w.try(&auctionsV2types.MsgDepositLimitBidRequest{CollateralTokenId: a.CollateralAssetId, DebtTokenId: a.DebtAssetId,
			PremiumDiscount: sdk.NewInt(9), Bidder: w.user("bidder"), Amount: sdk.NewCoin(a.DebtToken.Denom, sdk.NewInt(7000000))})
		w.note("limit bid ok=%v %s", r.OK, short(r.Err))
	}
}

// lendFull: the pool's asset 2 is lent out completely (utilisation 1): one lender of asset 2, borrowers take all of it.
func (w *world) lendFull(p params) {
	a1, a2 := w.asset["uasset1"], w.asset["uasset2"]
	cm := w.app["commodo"]
	w.deliver(lendtypes.NewMsgLend(w.user("u1"), a2, coin("uasset2", 1000000000), 1, cm), "lend a2")
	w.deliver(lendtypes.NewMsgLend(w.user("u2"), a1, coin("uasset1", 10000000000), 1, cm), "lend a1")
	w.deliver(lendtypes.NewMsgLend(w.user("u3"), a1, coin("uasset1", 10000000000), 1, cm), "lend a1")
	r := w.try(lendtypes.NewMsgBorrow(w.user("u2"), 2, 1, false, coin("ucasset1", 1000000000), coin("uasset2", 600000000)))
	w.note("borrow 600 ok=%v %s", r.OK, short(r.Err))
	r = w.try(lendtypes.NewMsgBorrow(w.user("u3"), 3, 1, false, coin("ucasset1", 1000000000), coin("uasset2", 400000000)))
	w.note("borrow 400 (rest of the pool) ok=%v %s", r.OK, short(r.Err))
	u, err := w.App.LendKeeper.GetUtilisationRatioByPoolIDAndAssetID(w.Ctx, 1, a2)
	w.note("utilisation=%s err=%v", u, err)
}

// english: harbor's collector is configured for surplus (or debt) auctions of its debt asset; the draw-down fees of the
// vaults are the net fees; the real begin blocker starts the English auction; a bidder bids.
func (w *world) english(p params, surplus bool, withMint bool) {
	w.base("0.5")
	if withMint {
		w.mintGov()
	}
	w.vaults(p.NVaults)
	if surplus {
		w.collector(true, false, 5000, 1000, 4000)
	} else {
		w.collector(false, true, 100000000, 50000000, 200000)
	}
	w.mustBlock(6 * time.Second)
	aucs := w.App.NewaucKeeper.GetAuctions(w.Ctx)
	w.note("auctions=%d", len(aucs))
	for _, a := range aucs {
		if !a.AuctionType {
			bid := coin("uharbor", p.Bid)
			if !surplus { // a debt auction is bid in the offered (collateral) token: how little of it the bidder accepts
				bid = sdk.NewCoin(a.CollateralToken.Denom, a.CollateralToken.Amount.MulRaw(9).QuoRaw(10))
			}
			r := w.try(auctionsV2types.NewMsgPlaceMarketBid(w.user("u4"), a.AuctionId, bid))
			w.note("english bid ok=%v %s", r.OK, short(r.Err))
		}
	}
}

// auctionsEsm: running Dutch auctions of harbor vaults, then harbor's emergency shutdown is executed.
func (w *world) auctionsEsm(p params) {
	w.base("0.5")
	w.mintGov()
	w.esmParams(3600)
	w.vaults(p.NVaults + 1)
	w.mustBlock(6 * time.Second)
	w.setPrice(w.asset["uasset2"], 1600000, true) // only the most indebted vaults become unsafe
	w.mustBlock(6 * time.Second)
	w.note("auctions=%d vaults=%d", len(w.App.NewaucKeeper.GetAuctions(w.Ctx)), len(w.App.VaultKeeper.GetVaults(w.Ctx)))
	w.esmExecute()
}

// v1auctions: the V1 liquidation begin blocker (called directly: module.go does not wire it) seized the unsafe vaults.
func (w *world) v1auctions(p params) {
	w.base("0.5")
	w.v1enable()
	w.vaults(p.NVaults)
	w.mustBlock(6 * time.Second)
	w.dropPrices(p)
	w.advance(6 * time.Second)
	w.histHook("liqv1")
	w.note("v1 locked vaults=%d v1 dutch auctions=%d", len(w.App.LiquidationKeeper.GetLockedVaults(w.Ctx)), len(w.App.AuctionKeeper.GetDutchAuctions(w.Ctx, w.app["harbor"])))
}

// v1esm: V1 Dutch auctions are running when harbor's emergency shutdown is executed; the auctions run out.
func (w *world) v1esm(p params) {
	w.base("0.5")
	w.mintGov()
	w.esmParams(3600)
	w.v1enable()
	w.vaults(p.NVaults)
	w.mustBlock(6 * time.Second)
	w.dropPrices(p)
	w.advance(6 * time.Second)
	w.histHook("liqv1")
	w.esmExecute()
	w.mustBlock(6 * time.Second) // esm begin blocker takes the price snapshot
	w.advance(400 * time.Second)
	w.note("v1 dutch auctions=%d vaults=%d counter=%d", len(w.App.AuctionKeeper.GetDutchAuctions(w.Ctx, w.app["harbor"])),
		len(w.App.VaultKeeper.GetVaults(w.Ctx)), w.App.VaultKeeper.GetLengthOfVault(w.Ctx))
}

// rewardsDue: external reward programmes for harbor vaults and commodo lending plus a liquidity gauge, a day later.
func (w *world) rewardsDue(p params) {
	w.base("0.5")
	w.lending(p.NBorrows)
	w.vaults(p.NVaults)
	w.liquidity(30 * time.Second)
	w.mustBlock(6 * time.Second) // end blocker executes the deposit: u2 receives pool coins
	pc := w.App.BankKeeper.GetBalance(w.Ctx, w.Users["u2"], "pool1-1")
	w.note("pool coins of u2: %s", pc)
	if pc.Amount.IsPositive() {
		r := w.try(liquiditytypes.NewMsgFarm(w.app["cswap"], 1, w.Users["u2"], pc))
		w.note("farm ok=%v %s", r.OK, short(r.Err))
	}
	g := rewardstypes.NewMsgCreateGauge(w.app["cswap"], w.Users["u1"], w.Time.Add(10*time.Second), rewardstypes.LiquidityGaugeTypeID,
		24*time.Hour, coin("uasset3", 1000000), 3)
	g.Kind = &rewardstypes.MsgCreateGauge_LiquidityMetaData{LiquidityMetaData: &rewardstypes.LiquidtyGaugeMetaData{PoolId: 1, IsMasterPool: false}}
	r := w.try(g)
	w.note("gauge ok=%v %s", r.OK, short(r.Err))
	r = w.try(rewardstypes.NewMsgActivateExternalRewardsVault(w.app["harbor"], 1, coin("uasset4", 3000000), 3, 1, w.Users["u1"]))
	w.note("ext vault rewards ok=%v %s", r.OK, short(r.Err))
	r = w.try(rewardstypes.NewMsgActivateExternalRewardsLend(w.app["commodo"], 1, []uint64{w.asset["uasset1"], w.asset["uasset2"]}, w.app["cswap"], 1, coin("uasset4", 3000000), 1, 3, 1, w.Users["u1"]))
	w.note("ext lend rewards ok=%v %s", r.OK, short(r.Err))
	w.mustBlock(6 * time.Second)
	w.mustBlock(6 * time.Second)
}

// oracleLive: the band fetch cycle is configured (stubbed through the band keeper's setters: no IBC here) and answers
// with the current prices; market and bandoracle do their work at heights divisible by 20.
func (w *world) oracleLive(rates []uint64, valid bool) {
	k := w.App.BandoracleKeeper
	k.SetFetchPriceMsg(w.Ctx, bandtypes.MsgFetchPriceData{OracleScriptID: 12, SourceChannel: "channel-0", AskCount: 1, MinCount: 1,
		TwaBatchSize: 1, AcceptedHeightDiff: 3, FeeLimit: sdk.NewCoins()})
	k.SetLastBlockHeight(w.Ctx, 1)
	k.SetOracleValidationResult(w.Ctx, valid)
	k.SetLastFetchPriceID(w.Ctx, 7)
	k.SetFetchPriceResult(w.Ctx, 7, bandtypes.FetchPriceResult{Rates: rates})
	k.SetCheckFlag(w.Ctx, true)
	k.SetDiscardData(w.Ctx, bandtypes.DiscardData{BlockHeight: -1, DiscardBool: false})
}

// v1two: two CDP apps white-listed for V1 liquidation, vaults in both.
func (w *world) v1two(p params, params1, params2 bool) {
	w.base("0.5")
	w.v1app("harbor", params1)
	w.v1app("osmovlt", params2)
	w.vaults(p.NVaults)
	w.vaults2(2)
	w.mustBlock(6 * time.Second)
	w.mustBlock(26 * time.Hour)
}

// oracleRounds: the band fetch cycle is live with window size n and accepted height difference gap (stubbed through the
// band keeper's setters: no IBC here). Every round (each 20th block) band either answers with a new result - per priced
// asset a positive rate or 0 according to the asset's schedule: a run of positive rates, a zero-rate outage, positive
// rates again - or stays silent. Every block of the history is recorded and judged like a plain block.
func (w *world) oracleRounds(r *sim.Rng, n uint64, gap int64, rounds int) {
	k := w.App.BandoracleKeeper
	k.SetFetchPriceMsg(w.Ctx, bandtypes.MsgFetchPriceData{OracleScriptID: 12, SourceChannel: "channel-0", AskCount: 1, MinCount: 1,
		TwaBatchSize: n, AcceptedHeightDiff: gap, FeeLimit: sdk.NewCoins()})
	k.SetLastBlockHeight(w.Ctx, 1)
	k.SetOracleValidationResult(w.Ctx, true)
	k.SetCheckFlag(w.Ctx, true)
	k.SetDiscardData(w.Ctx, bandtypes.DiscardData{BlockHeight: -1, DiscardBool: false})
	var priced []uint64
	var base []uint64
	for _, a := range w.App.AssetKeeper.GetAssets(w.Ctx) {
		if a.IsOraclePriceRequired {
			priced = append(priced, a.Id)
			twa, _ := w.App.MarketKeeper.GetTwa(w.Ctx, a.Id)
			base = append(base, twa.Twa)
		}
	}
	// schedule per asset: positives before the outage, outage length in rounds (0 = never)
	pos := make([]int, len(priced))
	out := make([]int, len(priced))
	for i := range priced {
		pos[i] = 1 + r.Intn(int(n)+2)
		out[i] = r.Intn(5)
	}
	id := int64(100)
	for round := 0; round < rounds; round++ {
		rec := histRec{What: fmt.Sprintf("oracle round %d (window %d, gap %d)", round, n, gap), Oracle: true}
		if round > 0 && r.Intn(9) == 0 {
			rec.Silent = true // no new result: band's validation fails, market switches every price off
		} else {
			id++
			rates := make([]uint64, len(priced))
			for i := range priced {
				switch {
				case round < pos[i]:
					rates[i] = base[i] + uint64(r.Intn(3))*10000
				case round < pos[i]+out[i]:
					rates[i] = 0
					rec.Zero = true
				default:
					rates[i] = base[i] - uint64(r.Intn(3))*10000
					if out[i] > 0 {
						rec.Rebuild = true
					}
				}
			}
			if r.Intn(7) == 0 && len(rates) > 2 {
				rates = rates[:len(rates)-2] // band answered for fewer symbols
			}
			k.SetLastFetchPriceID(w.Ctx, bandtypes.OracleRequestID(id))
			k.SetFetchPriceResult(w.Ctx, bandtypes.OracleRequestID(id), bandtypes.FetchPriceResult{Rates: rates})
		}
		w.atHeight(20*(1+w.Height/20) - 1)
		br := w.block(6 * time.Second)
		rec.Returned, rec.PanicS = !br.Panic, short(br.Err)
		w.hist = append(w.hist, rec)
		if br.Panic {
			w.note("oracle round %d panicked: %s", round, rec.PanicS)
		}
		if r.Intn(3) == 0 {
			w.mustBlock(6 * time.Second) // ordinary blocks in between
		}
	}
}

func oracleHistory(n uint64, gap int64) func(w *world, p params) []string {
	return func(w *world, p params) []string {
		w.twaN = int(n)
		w.base("0.5")
		w.lending(p.NBorrows)
		w.vaults(p.NVaults)
		w.vaults2(2)
		w.mustBlock(6 * time.Second)
		w.oracleRounds(sim.NewRng(int64(p.Drop)+int64(p.Gap)*7+int64(n)*131+gap), n, gap, 14)
		w.advance(6 * time.Second)
		return []string{"begin"}
	}
}

// setup builds harbor with fee-earning vaults (or none) and the given collector records, in governance's order.
func (w *world) setup(p params, withVaults bool) {
	w.base("0.5")
	w.mintGov()
	w.lending(p.NBorrows)
	if withVaults {
		w.vaults(p.NVaults)
		w.vaults2(2)
	}
}

// v1starter: harbor's collector is configured for surplus (or debt) auctions and its fees pass the threshold; the V1
// auction begin blocker's activators are the ones that act (with or without V1 auction parameters for the app).
func (w *world) v1starter(p params, surplus, withParams bool) {
	w.base("0.5")
	w.mintGov()
	if withParams {
		w.v1app("harbor", true)
	}
	w.vaults(p.NVaults)
	w.vaults2(2)
	if surplus {
		w.collector(true, false, 5000, 1000, 4000)
		w.lookup("osmovlt", "uasset3", 5000, 1000, 4000)
		w.mapping("osmovlt", "uasset3", true, false)
	} else {
		w.collector(false, true, 100000000, 50000000, 200000)
	}
	w.advance(6 * time.Second)
}

func feeGate(trapApps []string) func(w *world, p params) []string {
	return func(w *world, p params) []string {
		w.base("0.5")
		w.liquidity(10 * time.Second)
		w.liquidityIn("harbor", 10*time.Second)
		for _, a := range trapApps {
			w.feeTrap(a)
		}
		w.mustBlock(6 * time.Second)
		w.mustBlock(6 * time.Second) // orders expired, requests executed: the next begin blocker has clean-up work in both apps
		w.atHeight(150*(1+w.Height/150) - 1)
		w.advance(6 * time.Second)
		return []string{"begin", "end"}
	}
}

func stateBuilders() []stateBuilder {
	return []stateBuilder{
		{"fee_conversion_gate", feeGate([]string{"cswap"})},
		{"fee_conversion_gate_second_app", feeGate([]string{"harbor"})},
		{"fee_conversion_gate_both", feeGate([]string{"cswap", "harbor"})},
		{"v1_surplus_no_params", func(w *world, p params) []string { w.v1starter(p, true, false); return []string{"aucv1"} }},
		{"v1_surplus_params", func(w *world, p params) []string { w.v1starter(p, true, true); return []string{"aucv1"} }},
		{"v1_debt_no_params", func(w *world, p params) []string { w.v1starter(p, false, false); return []string{"aucv1"} }},
		{"v1_debt_params", func(w *world, p params) []string { w.v1starter(p, false, true); return []string{"aucv1"} }},
		{"oracle_history_n1", oracleHistory(1, 30)},
		{"oracle_history_n2", oracleHistory(2, 50)},
		{"oracle_history_n3", oracleHistory(3, 30)},
		{"oracle_history_n4", oracleHistory(4, 70)},
		{"setup_lookup_before_fees_surplus", func(w *world, p params) []string {
			// governance registers lookup table and auction mapping before the app has booked a single fee
			w.setup(p, false)
			w.collector(true, false, 5000, 1000, 4000)
			w.advance(6 * time.Second)
			return []string{"begin"}
		}},
		{"setup_lookup_before_fees_debt", func(w *world, p params) []string {
			w.setup(p, false)
			w.collector(false, true, 100000000, 50000000, 200000)
			w.advance(6 * time.Second)
			return []string{"begin"}
		}},
		{"setup_second_asset_later", func(w *world, p params) []string {
			// fees exist for asset 3; a second asset of the app is registered later and has no net-fee record
			w.setup(p, true)
			w.collector(true, false, 5000, 1000, 4000)
			w.mustBlock(6 * time.Second)
			w.lookup("harbor", "uasset2", 5000, 1000, 4000)
			w.mapping("harbor", "uasset2", p.NVaults%2 == 0, p.NVaults%2 == 1)
			w.lookup("osmovlt", "uasset3", 5000, 1000, 4000)
			w.mapping("osmovlt", "uasset3", p.NBorrows%2 == 0, p.NBorrows%2 == 1)
			w.advance(6 * time.Second)
			return []string{"begin"}
		}},
		{"setup_lookup_without_mapping", func(w *world, p params) []string {
			w.setup(p, true)
			w.lookup("harbor", "uasset3", 5000, 1000, 4000)
			w.advance(6 * time.Second)
			return []string{"begin"}
		}},
		{"setup_mapping_without_lookup", func(w *world, p params) []string {
			w.setup(p, true)
			w.mapping("harbor", "uasset3", true, false)
			w.mapping("osmovlt", "uasset3", false, true)
			w.advance(6 * time.Second)
			return []string{"begin"}
		}},
		{"setup_no_auction_params", func(w *world, p params) []string {
			// positions become unsafe before the auctionsV2 parameters were ever written
			w.omit["aucparams"] = true
			w.unsafe(p)
			w.advance(6 * time.Second)
			return []string{"begin"}
		}},
		{"setup_no_whitelist", func(w *world, p params) []string {
			w.omit[[]string{"wl_harbor", "wl_commodo", "wl_osmovlt"}[p.NVaults%3]] = true
			w.omit["rewards_wl"] = p.NBorrows%2 == 0
			w.unsafe(p)
			w.setPrice(w.asset["uasset4"], p.Drop, true)
			w.advance(6 * time.Second)
			return []string{"begin"}
		}},
		{"setup_random", func(w *world, p params) []string {
			// seeded combination of present / absent optional records
			r := sim.NewRng(int64(p.Drop) + int64(p.Gap)*3 + int64(p.Bid))
			for _, k := range []string{"wl_harbor", "wl_commodo", "wl_osmovlt", "rewards_wl", "aucparams"} {
				w.omit[k] = r.Intn(4) == 0
			}
			w.setup(p, true)
			for _, app := range []string{"harbor", "osmovlt"} {
				for _, dn := range []string{"uasset3", "uasset2"} {
					if app == "osmovlt" && dn == "uasset2" {
						continue
					}
					if r.Intn(2) == 0 {
						w.lookup(app, dn, 5000, 1000, 4000)
					}
					if r.Intn(2) == 0 {
						sp := r.Intn(2) == 0
						w.mapping(app, dn, sp, !sp)
					}
				}
			}
			w.mustBlock(6 * time.Second)
			w.mustBlock(26 * time.Hour)
			w.dropPrices(p)
			w.advance(6 * time.Second)
			return []string{"begin"}
		}},
		{"surplus_english_off_unsafe", func(w *world, p params) []string {
			// harbor has English auctions switched off but a surplus configuration whose threshold its fees pass: the
			// surplus/debt starter fails by configuration while vaults and borrows are waiting to be liquidated
			w.setup(p, true)
			w.whitelist("harbor", true, false)
			w.collector(true, false, 5000, 1000, 4000)
			w.mustBlock(6 * time.Second)
			w.mustBlock(26 * time.Hour)
			w.dropPrices(p)
			w.setPrice(w.asset["uasset4"], p.Drop, true)
			w.advance(6 * time.Second)
			return []string{"begin"}
		}},
		{"debt_english_off_unsafe", func(w *world, p params) []string {
			w.setup(p, true)
			w.whitelist("harbor", true, false)
			w.collector(false, true, 100000000, 50000000, 200000)
			w.mustBlock(6 * time.Second)
			w.mustBlock(26 * time.Hour)
			w.dropPrices(p)
			w.advance(6 * time.Second)
			return []string{"begin"}
		}},
		{"killswitch_unsafe", func(w *world, p params) []string {
			w.unsafe(p)
			w.setPrice(w.asset["uasset4"], p.Drop, true)
			w.killSwitch([]string{"harbor", "commodo", "osmovlt"}[p.NVaults%3])
			w.advance(6 * time.Second)
			return []string{"begin"}
		}},
		{"v1_no_auction_params", func(w *world, p params) []string {
			// the app is white-listed for V1 liquidation before its auction parameters exist: the auction start, a late inner
			// step of every vault liquidation, fails by itself
			w.base("0.5")
			w.v1app("harbor", false)
			w.vaults(p.NVaults)
			w.mustBlock(6 * time.Second)
			w.mustBlock(26 * time.Hour)
			w.dropPrices(p)
			w.advance(6 * time.Second)
			return []string{"liqv1"}
		}},
		{"v1_two_apps", func(w *world, p params) []string {
			// the app iterated first really liquidates in this block, the second app is swept afterwards
			w.v1two(p, true, true)
			w.dropPrices(p)
			if p.Drop4 {
				w.setPrice(w.asset["uasset4"], p.Drop, true)
			}
			w.advance(6 * time.Second)
			return []string{"liqv1", "begin"}
		}},
		{"v1_two_apps_second_unsafe", func(w *world, p params) []string {
			w.v1two(p, true, true)
			w.setPrice(w.asset["uasset4"], p.Drop, true)
			w.advance(6 * time.Second)
			return []string{"liqv1"}
		}},
		{"v1_two_apps_one_unconfigured", func(w *world, p params) []string {
			w.v1two(p, p.NVaults%2 == 0, p.NVaults%2 == 1)
			w.dropPrices(p)
			w.setPrice(w.asset["uasset4"], p.Drop, true)
			w.advance(6 * time.Second)
			return []string{"liqv1"}
		}},
		{"v1_two_apps_auctions", func(w *world, p params) []string {
			w.v1two(p, true, true)
			w.dropPrices(p)
			w.setPrice(w.asset["uasset4"], p.Drop, true)
			w.advance(6 * time.Second)
			w.histHook("liqv1")
			w.note("v1 locked vaults=%d", len(w.App.LiquidationKeeper.GetLockedVaults(w.Ctx)))
			w.advance(time.Duration([]int64{6, 150, 301, 400}[p.NVaults%4]) * time.Second)
			return []string{"aucv1", "liqv1"}
		}},
		{"v1_lend_unsafe", func(w *world, p params) []string {
			// the V1 borrow sweep (part of the V1 liquidation begin blocker) meets unsafe borrows
			w.base("0.5")
			w.v1app("harbor", true)
			w.v1lendParams()
			w.lending(p.NBorrows)
			w.vaults(p.NVaults)
			w.mustBlock(6 * time.Second)
			w.mustBlock(26 * time.Hour)
			w.dropPrices(p)
			w.advance(6 * time.Second)
			return []string{"liqv1"}
		}},
		{"v1_lend_no_params", func(w *world, p params) []string {
			w.base("0.5")
			w.v1app("harbor", true)
			w.lending(p.NBorrows)
			w.vaults(p.NVaults)
			w.mustBlock(6 * time.Second)
			w.mustBlock(26 * time.Hour)
			w.dropPrices(p)
			w.advance(6 * time.Second)
			return []string{"liqv1"}
		}},
		{"debt_price_inactive_two_apps", func(w *world, p params) []string {
			// the debt asset's price goes inactive: harbor's steps fail at their first price lookup, osmovlt's (debt asset at a
			// fixed price) only when the auction is started - after the collateral was moved and the locked vault written
			w.unsafe(p)
			w.setPrice(w.asset["uasset4"], p.Drop, true)
			w.setPrice(w.asset["uasset3"], 1000000, false)
			w.advance(6 * time.Second)
			return []string{"begin"}
		}},
		{"two_apps_one_dutch_disabled", func(w *world, p params) []string {
			w.unsafe(p)
			w.setPrice(w.asset["uasset4"], p.Drop, true)
			if p.NVaults%2 == 0 {
				w.whitelist("harbor", false, true)
			} else {
				w.whitelist("osmovlt", false, true)
			}
			w.advance(6 * time.Second)
			return []string{"begin"}
		}},
		{"lend_only_stable_debt", func(w *world, p params) []string {
			// asset 2 has stable-rate parameters 0/0/0 (accepted by AddAssetRatesParams); the only debt in it is a STABLE
			// borrow (allowed because stable borrowing is switched on for the pair's collateral asset 3)
			w.base("0.5")
			a2, a3 := w.asset["uasset2"], w.asset["uasset3"]
			cm := w.app["commodo"]
			w.deliver(lendtypes.NewMsgLend(w.user("u1"), a2, coin("uasset2", 10000000000), 1, cm), "lend a2")
			w.deliver(lendtypes.NewMsgLend(w.user("u2"), a3, coin("uasset3", 10000000000), 1, cm), "lend a3")
			r := w.try(lendtypes.NewMsgBorrow(w.user("u2"), 2, w.pairID(a3, a2, 1), true, coin("ucasset3", 1000000000), coin("uasset2", 100000000)))
			w.note("stable borrow ok=%v %s", r.OK, short(r.Err))
			w.deliver(lendtypes.NewMsgLend(w.user("u3"), a3, coin("uasset3", 10000000000), 1, cm), "lend a3")
			r = w.try(lendtypes.NewMsgBorrow(w.user("u3"), 3, w.pairID(a3, a2, 1), true, coin("ucasset3", 1000000000), coin("uasset2", 100000000)))
			w.note("second stable borrow ok=%v %s", r.OK, short(r.Err))
			for id := uint64(1); id <= 2; id++ {
				b, _ := w.App.LendKeeper.GetBorrow(w.Ctx, id)
				w.note("borrow %d: stable=%v reserveGlobalIndex=%s", id, b.IsStableBorrow, b.ReserveGlobalIndex)
			}
			w.mustBlock(6 * time.Second)
			w.advance(6 * time.Second)
			return []string{"begin"}
		}},
		{"lend_collateral_lent_out", func(w *world, p params) []string {
			// the collateral asset of the unsafe borrows was itself lent out to other borrowers: the pool account cannot
			// hand the collateral over to the auction module
			w.base("0.5")
			a1, a2 := w.asset["uasset1"], w.asset["uasset2"]
			cm := w.app["commodo"]
			w.deliver(lendtypes.NewMsgLend(w.user("u1"), a1, coin("uasset1", 1000000000), 1, cm), "lend a1")
			w.deliver(lendtypes.NewMsgLend(w.user("u2"), a1, coin("uasset1", 1000000000), 1, cm), "lend a1")
			w.deliver(lendtypes.NewMsgLend(w.user("u3"), a2, coin("uasset2", 20000000000), 1, cm), "lend a2")
			w.deliver(lendtypes.NewMsgBorrow(w.user("u1"), 1, w.pairID(a1, a2, 1), false, coin("ucasset1", 1000000000), coin("uasset2", 700000000)), "borrow a2")
			w.deliver(lendtypes.NewMsgBorrow(w.user("u2"), 2, w.pairID(a1, a2, 1), false, coin("ucasset1", 1000000000), coin("uasset2", 700000000)), "borrow a2")
			r := w.try(lendtypes.NewMsgBorrow(w.user("u3"), 3, w.pairID(a2, a1, 1), false, coin("ucasset2", 10000000000), coin("uasset1", 1900000000)))
			w.note("u3 borrows nearly all of asset 1 ok=%v %s", r.OK, short(r.Err))
			w.mustBlock(6 * time.Second)
			w.setPrice(a1, p.Drop*17/20, true)
			w.setPrice(a2, p.Drop*2, true)
			w.advance(6 * time.Second)
			return []string{"begin"}
		}},
		{"rewards_due", func(w *world, p params) []string {
			w.rewardsDue(p)
			w.advance(25 * time.Hour)
			return []string{"begin", "end"}
		}},
		{"rewards_due_esm", func(w *world, p params) []string {
			// reward programmes are due while harbor is shut down (the vault programme must refuse)
			w.rewardsDue(p)
			w.mintGov()
			w.esmParams(3600)
			w.esmExecute()
			w.advance(25 * time.Hour)
			return []string{"begin"}
		}},
		{"oracle_live", func(w *world, p params) []string {
			w.auctions(p)
			w.oracleLive([]uint64{2100000, 1900000, 1000000, 2000000, 1000000, 2000000, 2000000, 2000000}, true)
			w.atHeight(20*(1+w.Height/20) - 1)
			w.advance(6 * time.Second)
			return []string{"begin"}
		}},
		{"oracle_zero_prices", func(w *world, p params) []string {
			// band answers with zero for some assets and fewer rates than priced assets
			w.auctions(p)
			w.oracleLive([]uint64{0, 1900000, 0}, true)
			w.atHeight(20*(1+w.Height/20) - 1)
			w.advance(6 * time.Second)
			return []string{"begin"}
		}},
		{"day_boundary", func(w *world, p params) []string {
			// height divisible by 14400 (lend pool maintenance), 150 (swap-fee conversion) and 20 (oracle)
			w.base("0.5")
			w.lending(p.NBorrows)
			w.vaults(p.NVaults)
			w.liquidity(30 * time.Second)
			w.mustBlock(6 * time.Second)
			w.atHeight(14400*(1+w.Height/14400) - 1)
			w.advance(6 * time.Second)
			return []string{"begin", "end"}
		}},
		{"v1_esm_restart", func(w *world, p params) []string {
			w.v1esm(p)
			return []string{"aucv1"}
		}},
		{"v1_esm_after_restart", func(w *world, p params) []string {
			w.v1esm(p)
			w.histHook("aucv1")
			w.note("after V1 auction begin blocker: v1 dutch auctions=%d vaults=%d counter=%d", len(w.App.AuctionKeeper.GetDutchAuctions(w.Ctx, w.app["harbor"])),
				len(w.App.VaultKeeper.GetVaults(w.Ctx)), w.App.VaultKeeper.GetLengthOfVault(w.Ctx))
			w.advance(6 * time.Second)
			return []string{"begin", "liqv1"}
		}},
		{"english_surplus_close", func(w *world, p params) []string {
			w.english(p, true, true)
			w.advance(3700 * time.Second)
			return []string{"begin"}
		}},
		{"english_surplus_close_nomint", func(w *world, p params) []string {
			// the app never did its genesis minting: no token-mint data, burning the bid fails in the middle of the close step
			w.english(p, true, false)
			w.advance(3700 * time.Second)
			return []string{"begin"}
		}},
		{"english_debt_close", func(w *world, p params) []string {
			w.english(p, false, true)
			w.advance(3700 * time.Second)
			return []string{"begin"}
		}},
		{"english_debt_close_nomint", func(w *world, p params) []string {
			w.english(p, false, false)
			w.advance(3700 * time.Second)
			return []string{"begin"}
		}},
		{"surplus_collector_empty", func(w *world, p params) []string {
			// surplus auctions switched on although the collector account holds nothing for the asset: net fees are
			// recorded (legitimately, by a previous configuration) but the coins were paid out
			w.base("0.5")
			w.mintGov()
			w.vaults(p.NVaults)
			w.collector(true, false, 5000, 1000, 4000000)
			w.advance(6 * time.Second)
			return []string{"begin"}
		}},
		{"esm_executed", func(w *world, p params) []string {
			w.auctionsEsm(p)
			w.advance(6 * time.Second)
			return []string{"begin"}
		}},
		{"esm_cooloff_over", func(w *world, p params) []string {
			w.auctionsEsm(p)
			w.mustBlock(6 * time.Second)
			w.advance(3700 * time.Second)
			return []string{"begin"}
		}},
		{"liq_pending", func(w *world, p params) []string {
			w.base("0.5")
			w.liquidity(30 * time.Second)
			w.liquidityIn("harbor", 30*time.Second)
			w.advance(0)
			return []string{"end", "begin"}
		}},
		{"liq_expired", func(w *world, p params) []string {
			w.base("0.5")
			w.liquidity(10 * time.Second)
			w.liquidityIn("harbor", 10*time.Second)
			w.mustBlock(6 * time.Second)
			w.mustBlock(6 * time.Second)
			w.advance(0)
			return []string{"end", "begin"}
		}},
		{"v1_unsafe", func(w *world, p params) []string {
			w.base("0.5")
			w.v1enable()
			w.vaults(p.NVaults)
			w.mustBlock(6 * time.Second)
			w.dropPrices(p)
			w.advance(6 * time.Second)
			return []string{"liqv1", "aucv1"}
		}},
		{"v1_auctions", func(w *world, p params) []string {
			w.v1auctions(p)
			w.advance(time.Duration(p.Gap) * time.Second)
			return []string{"aucv1", "liqv1", "begin"}
		}},
		{"v1_auctions_expired", func(w *world, p params) []string {
			w.v1auctions(p)
			w.advance(400 * time.Second)
			return []string{"aucv1"}
		}},
		{"lend_full", func(w *world, p params) []string {
			w.base("0.5")
			w.lendFull(p)
			w.mustBlock(6 * time.Second)
			w.dropPrices(p)
			w.advance(time.Duration(p.Gap) * time.Second)
			return []string{"begin"}
		}},
		{"lend_full_uopt1", func(w *world, p params) []string {
			// governance configured optimal utilisation 1 for the borrowed asset (accepted by AssetRatesParams.Validate)
			w.base("1.0")
			w.lendFull(p)
			w.mustBlock(6 * time.Second)
			w.advance(time.Duration(p.Gap) * time.Second)
			return []string{"begin"}
		}},
		{"healthy", func(w *world, p params) []string {
			w.base("0.5")
			w.lending(p.NBorrows)
			w.vaults(p.NVaults)
			w.mustBlock(6 * time.Second)
			w.advance(time.Duration(p.Gap) * time.Second)
			return []string{"begin", "end"}
		}},
		{"unsafe", func(w *world, p params) []string {
			w.unsafe(p)
			w.advance(6 * time.Second)
			return []string{"begin"}
		}},
		{"auctions", func(w *world, p params) []string {
			w.auctions(p)
			w.advance(time.Duration(p.Gap) * time.Second)
			return []string{"begin", "end"}
		}},
		{"auctions_expired", func(w *world, p params) []string {
			w.auctions(p)
			w.mustBlock(1800 * time.Second)
			w.advance(3700 * time.Second)
			return []string{"begin"}
		}},
		{"oracle_down", func(w *world, p params) []string {
			// the band oracle stops validating: market's begin blocker switches every price off; liquidations and
			// auction updates then fail for want of prices
			w.auctions(p)
			w.App.BandoracleKeeper.SetOracleValidationResult(w.Ctx, false)
			w.advance(time.Duration(p.Gap) * time.Second)
			return []string{"begin"}
		}},
		{"price_inactive_unsafe", func(w *world, p params) []string {
			// unsafe positions not yet seized while the debt asset's price goes inactive
			w.unsafe(p)
			w.setPrice(w.asset["uasset3"], 1000000, false)
			w.advance(6 * time.Second)
			return []string{"begin"}
		}},
		{"dutch_disabled", func(w *world, p params) []string {
			// governance switched the Dutch auction type off for both apps while positions are unsafe
			w.unsafe(p)
			w.whitelist("harbor", false, true)
			w.whitelist("commodo", false, false)
			w.advance(6 * time.Second)
			return []string{"begin"}
		}},
		{"dutch_disabled_lend", func(w *world, p params) []string {
			w.unsafe(p)
			w.whitelist("commodo", false, false)
			w.advance(6 * time.Second)
			return []string{"begin"}
		}},
	}
}
