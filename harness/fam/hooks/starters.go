package hooks

import (
	sdk "github.com/cosmos/cosmos-sdk/types"
	authtypes "github.com/cosmos/cosmos-sdk/x/auth/types"
)

// Starter facets: what starting one surplus / debt auction for an (app, asset) auction mapping consists of, observed
// around the V1 auction begin blocker (its surplus and debt activators are wrapped units, one per mapping) and around the
// V2 liquidation begin blocker (surplus/debt starter), each run alone:
//
//	moved    the collector was debited for the (app, asset): its recorded net fees fell (the module balance of the denom is
//	         shared by every app using the asset and is only recorded)
//	started  an auction record for the (app, asset) was created
//	flagged  the mapping's "auction active" flag went from false to true
//
// An all-or-nothing start shows started = flagged, and moved only together with started - also when an inner step fails
// by configuration (no auction parameters, auction type switched off, ...) and whoever calls it swallows the error.
type starterView struct {
	bal     map[string]sdk.Int // app/asset -> collector balance of the asset's denom
	fees    map[string]sdk.Int
	active  map[string]bool
	auction map[string]int
}

func mkey(app, asset uint64) string { return sdk.NewInt(int64(app)).String() + "/" + sdk.NewInt(int64(asset)).String() }

func (w *world) starterView(ctx sdk.Context, v1 bool) starterView {
	sv := starterView{bal: map[string]sdk.Int{}, fees: map[string]sdk.Int{}, active: map[string]bool{}, auction: map[string]int{}}
	maps, _ := w.App.CollectorKeeper.GetAllAuctionMappingForApp(ctx)
	coll := authtypes.NewModuleAddress("collectorV1")
	for _, m := range maps {
		k := mkey(m.AppId, m.AssetId)
		a, _ := w.App.AssetKeeper.GetAsset(ctx, m.AssetId)
		sv.bal[k] = w.App.BankKeeper.GetBalance(ctx, coll, a.Denom).Amount
		sv.fees[k] = sdk.ZeroInt()
		if nf, ok := w.App.CollectorKeeper.GetNetFeeCollectedData(ctx, m.AppId, m.AssetId); ok {
			sv.fees[k] = nf.NetFeesCollected
		}
		sv.active[k] = m.IsAuctionActive
		n := 0
		if v1 {
			for _, au := range w.App.AuctionKeeper.GetSurplusAuctions(ctx, m.AppId) {
				if au.AssetId == m.AssetId {
					n++
				}
			}
			for _, au := range w.App.AuctionKeeper.GetDebtAuctions(ctx, m.AppId) {
				if au.AssetId == m.AssetId {
					n++
				}
			}
		} else {
			for _, lv := range w.App.NewliqKeeper.GetLockedVaults(ctx) {
				if lv.AppId == m.AppId && (lv.InitiatorType == "surplus" || lv.InitiatorType == "debt") &&
					(lv.CollateralAssetId == m.AssetId || lv.DebtAssetId == m.AssetId) {
					for _, au := range w.App.NewaucKeeper.GetAuctions(ctx) {
						if au.LockedVaultId == lv.LockedVaultId && au.AppId == lv.AppId {
							n++
						}
					}
				}
			}
		}
		sv.auction[k] = n
	}
	return sv
}

func (d *driver) starters(w *world, stNode int, run string) {
	maps, _ := w.App.CollectorKeeper.GetAllAuctionMappingForApp(w.Ctx)
	if len(maps) == 0 {
		return
	}
	for _, hn := range []string{"aucv1", "liqv2"} {
		h := hookByName(hn)
		v1 := hn == "aucv1"
		pre := w.starterView(w.Ctx, v1)
		var post starterView
		t := &tracer{mode: modePlain}
		rr := t.run(w.Ctx, func(c sdk.Context) { h.fn(w, c) }, func(c sdk.Context) string {
			post = w.starterView(c, v1)
			return ""
		})
		for _, m := range maps {
			if m.IsAuctionActive {
				continue
			}
			k := mkey(m.AppId, m.AssetId)
			kind := "none"
			if m.IsSurplusAuction {
				kind = "surplus"
			} else if m.IsDebtAuction {
				kind = "debt"
			}
			d.log.Add(stNode, run, "Starter", map[string]interface{}{"state": d.state, "envfault": d.envfault, "hook": hn, "app": m.AppId, "asset": m.AssetId, "kind": kind},
				map[string]interface{}{"returned": rr.Returned, "panicS": rr.PanicS, "panicK": panicKind(rr.PanicS)},
				map[string]interface{}{"moved": post.fees[k].LT(pre.fees[k]), "balanceFell": post.bal[k].LT(pre.bal[k]),
					"started": post.auction[k] > pre.auction[k], "flagged": post.active[k] && !pre.active[k]})
			d.stats["starters"]++
		}
	}
}
