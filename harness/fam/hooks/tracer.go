// Package hooks binds spec/hooks/Hooks.tla to the block hooks of the real application (C15).
//
// The tracer below uses the one guarded hook of the repository (types/verif_on.go, build tag verif):
// utils.VerifUnitHook is called with the cache context of every ApplyFuncIfNoError unit before it runs,
// utils.VerifUnitExit when the unit returns. With them a hook run can be
//
//	dry   : units are numbered (pre-order), their nesting depth, label (calling function) and number of
//	        gas-metered store accesses are counted; natural failures (error / recovered panic) are observed
//	        through the error line ApplyFuncIfNoError writes to the parent context's logger;
//	fault : the k-th access under unit u's context panics (one shot); the innermost unit active at that
//	        moment is the victim;
//	skip  : unit u is not executed and reports failure (reference "nothing of u is visible");
//	void  : unit u runs on a throw-away branch and reports whatever it reports (reference "u had no
//	        effect, the rest is processed").
//
// The harness only records; Trace_Hooks.tla judges.
package hooks

import (
	"fmt"
	"regexp"
	"runtime"
	"strings"

	"github.com/cometbft/cometbft/libs/log"
	storetypes "github.com/cosmos/cosmos-sdk/store/types"
	sdk "github.com/cosmos/cosmos-sdk/types"

	utils "github.com/comdex-official/comdex/types"
)

const (
	modeDry = iota
	modeFault
	modeSkip
	modeVoid
	modePlain
)

type unitInfo struct {
	Idx      int    `json:"i"`
	Depth    int    `json:"depth"`
	Parent   int    `json:"parent"` // index of the enclosing unit, 0 = hook body
	Label    string `json:"label"`
	N        int    `json:"n"`   // metered accesses under this unit's context (nested units included)
	Own      int    `json:"own"` // accesses outside nested units
	Start    int    `json:"start"` // accesses of the parent unit's context consumed before this unit was entered
	Failed   bool   `json:"failed"`
	Panicked bool   `json:"panicked"`
	Err      string `json:"err"`
}

type tracer struct {
	mode   int
	target int
	k      int

	next    int
	toy     bool
	force   int // toy hooks: static id of the unit about to be entered (0 = count entries)
	stack   []int
	meters  []*countMeter
	units   []unitInfo
	lastOut int

	fired      bool
	victim     int
	afterSame  int // units entered after the target left, with the same parent as the target (siblings processed afterwards)
	targetSeen bool
	targetDone bool
	targetPar  int
}

// countMeter counts ConsumeGas calls (every KVStore access of a context consumes gas); optionally panics at the k-th.
type countMeter struct {
	n      int
	parent *countMeter
	failAt int
	tr     *tracer
	// toy hooks count primitive effects instead of gas calls: the fault fires at the first store access of effect failAt
	effMode bool
	eff     int
	armed   bool
}

type injectedFault struct{ k int }

func (f injectedFault) Error() string { return fmt.Sprintf("verif: injected fault at access %d", f.k) }

func (m *countMeter) GasConsumed() storetypes.Gas        { return 0 }
func (m *countMeter) GasConsumedToLimit() storetypes.Gas { return 0 }
func (m *countMeter) GasRemaining() storetypes.Gas       { return ^storetypes.Gas(0) }
func (m *countMeter) Limit() storetypes.Gas              { return 0 }
func (m *countMeter) ConsumeGas(_ storetypes.Gas, _ string) {
	for p := m; p != nil; p = p.parent {
		p.n++
	}
	hit := m.failAt > 0 && m.n == m.failAt
	if m.effMode {
		hit = m.armed
	}
	if hit && m.tr != nil && !m.tr.fired {
		m.tr.fired = true
		if len(m.tr.stack) > 0 {
			m.tr.victim = m.tr.stack[len(m.tr.stack)-1]
		}
		panic(injectedFault{m.failAt})
	}
}

// beginEffect is called by the toy executor before every primitive effect.
func beginEffect(ctx sdk.Context) {
	if m, ok := ctx.GasMeter().(*countMeter); ok && m.effMode {
		m.eff++
		if m.eff == m.failAt {
			m.armed = true
		}
	}
}
func (m *countMeter) RefundGas(_ storetypes.Gas, _ string) {}
func (m *countMeter) IsPastLimit() bool                    { return false }
func (m *countMeter) IsOutOfGas() bool                     { return false }
func (m *countMeter) String() string                       { return "verif-meter" }

// label = first caller outside package types (the function that wrapped the unit).
func callerLabel() string {
	pcs := make([]uintptr, 24)
	n := runtime.Callers(3, pcs)
	fr := runtime.CallersFrames(pcs[:n])
	for {
		f, more := fr.Next()
		fn := f.Function
		if fn != "" && !strings.Contains(fn, "comdex/types.") && !strings.Contains(fn, "vh/fam/hooks.(*tracer)") {
			fn = strings.TrimPrefix(fn, "github.com/comdex-official/comdex/")
			return fn
		}
		if !more {
			return "?"
		}
	}
}

func (t *tracer) enter(ctx sdk.Context) (sdk.Context, bool) {
	t.next++
	idx := t.next
	if t.force > 0 {
		idx = t.force
		t.force = 0
	}
	par := 0
	if len(t.stack) > 0 {
		par = t.stack[len(t.stack)-1]
	}
	if t.targetDone && par == t.targetPar {
		t.afterSame++
	}
	u := unitInfo{Idx: idx, Depth: len(t.stack), Parent: par}
	switch t.mode {
	case modeDry:
		var pm *countMeter
		if len(t.meters) > 0 {
			pm = t.meters[len(t.meters)-1]
			u.Start = pm.n
		}
		m := &countMeter{parent: pm}
		u.Label = callerLabel()
		t.units = append(t.units, u)
		t.stack = append(t.stack, idx)
		t.meters = append(t.meters, m)
		return ctx.WithGasMeter(m), false
	case modeSkip:
		if idx == t.target {
			t.targetSeen, t.targetDone, t.targetPar = true, true, par
			return ctx, true
		}
	case modeVoid:
		if idx == t.target {
			t.targetSeen, t.targetPar = true, par
			t.units = append(t.units, u)
			t.stack = append(t.stack, idx)
			c2, _ := ctx.CacheContext()
			return c2, false
		}
	case modeFault:
		if idx == t.target {
			t.targetSeen, t.targetPar = true, par
			t.units = append(t.units, u)
			t.stack = append(t.stack, idx)
			return ctx.WithGasMeter(&countMeter{failAt: t.k, tr: t, effMode: t.toy}), false
		}
	}
	t.units = append(t.units, u)
	t.stack = append(t.stack, idx)
	return ctx, false
}

func (t *tracer) unit(idx int) *unitInfo {
	for i := len(t.units) - 1; i >= 0; i-- {
		if t.units[i].Idx == idx {
			return &t.units[i]
		}
	}
	return nil
}

func (t *tracer) exit() {
	if len(t.stack) == 0 {
		return
	}
	idx := t.stack[len(t.stack)-1]
	t.stack = t.stack[:len(t.stack)-1]
	t.lastOut = idx
	if t.mode == modeDry {
		m := t.meters[len(t.meters)-1]
		t.meters = t.meters[:len(t.meters)-1]
		t.unit(idx).N = m.n
	}
	if idx == t.target {
		t.targetDone = true
	}
}

// failure observation: ApplyFuncIfNoError logs the unit's error (error path: before the unit is left) or the
// recovered panic (panic path: after the unit was left) on the PARENT context's logger.
func (t *tracer) wrapperLogged(panicPath bool, msg string) {
	idx := t.lastOut
	if !panicPath {
		if len(t.stack) == 0 {
			return
		}
		idx = t.stack[len(t.stack)-1]
	}
	if u := t.unit(idx); u != nil {
		u.Failed = true
		u.Err = short(msg)
		if panicPath {
			u.Panicked = true
		}
	}
}

type capLogger struct{ t *tracer }

func (l capLogger) Debug(string, ...interface{}) {}
func (l capLogger) Info(string, ...interface{})  {}
func (l capLogger) Error(msg string, _ ...interface{}) {
	pcs := make([]uintptr, 4)
	n := runtime.Callers(2, pcs)
	fr := runtime.CallersFrames(pcs[:n])
	f, _ := fr.Next()
	switch {
	case strings.HasSuffix(f.Function, "comdex/types.ApplyFuncIfNoError"):
		l.t.wrapperLogged(false, msg)
	case strings.HasSuffix(f.Function, "comdex/types.PrintPanicRecoveryError"):
		l.t.wrapperLogged(true, msg)
	}
}
func (l capLogger) With(...interface{}) log.Logger { return l }

// runResult of one hook execution.
type runResult struct {
	Returned bool   // the hook returned normally (no panic escaped)
	PanicS   string // text of an escaped panic
	Digest   string
}

// run executes hook on a throw-away branch of ctx under tracer t and returns the digest of the branch afterwards.
func (t *tracer) run(ctx sdk.Context, hook func(sdk.Context), digest func(sdk.Context) string) (rr runResult) {
	bctx, _ := ctx.CacheContext()
	bctx = bctx.WithLogger(capLogger{t}).WithGasMeter(sdk.NewInfiniteGasMeter())
	if t.mode != modePlain {
		utils.VerifUnitHook = t.enter
		utils.VerifUnitExit = t.exit
	}
	defer func() {
		utils.VerifUnitHook = nil
		utils.VerifUnitExit = nil
	}()
	func() {
		defer func() {
			if r := recover(); r != nil {
				rr.Returned = false
				rr.PanicS = short(fmt.Sprint(r))
			}
		}()
		hook(bctx)
		rr.Returned = true
	}()
	rr.Digest = digest(bctx)
	if t.mode == modeDry {
		// own accesses = N minus the accesses of direct children
		for i := range t.units {
			t.units[i].Own = t.units[i].N
		}
		for i := range t.units {
			if p := t.units[i].Parent; p > 0 {
				t.units[p-1].Own -= t.units[i].N
			}
		}
	}
	return rr
}

func short(s string) string {
	s = strings.ReplaceAll(s, "\n", " ")
	if len(s) > 160 {
		s = s[:160]
	}
	return s
}

var digits = regexp.MustCompile(`[0-9]+`)

// panicKind = panic text with the numbers blanked (a stable key for known findings).
func panicKind(s string) string { return digits.ReplaceAllString(s, "N") }
