// Package gauge binds spec/gauge/Gauge.tla to x/rewards (gauges, epochs, external reward programs) and the
// farming side of x/liquidity (C19). It only executes and records; TLC (Trace_Gauge) judges.
package gauge

import (
	"fmt"
	"math/big"
	"time"

	sdkmath "cosmossdk.io/math"
	tmproto "github.com/cometbft/cometbft/proto/tendermint/types"
	sdk "github.com/cosmos/cosmos-sdk/types"

	assettypes "github.com/comdex-official/comdex/x/asset/types"
	"github.com/comdex-official/comdex/x/liquidity/amm"
	liqtypes "github.com/comdex-official/comdex/x/liquidity/types"
	markettypes "github.com/comdex-official/comdex/x/market/types"

	"vh/sim"
)

type assetCfg struct {
	Name, Denom string
	Dec         *big.Int
	Twa         uint64
}

type poolCfg struct {
	Base, Quote int      // indexes into assets
	Rx, Ry      *big.Int // initial deposit: quote (x), base (y)
	DonQ, DonB  *big.Int // donation to the reserve after creation (moves rx/ry away from the pool coin supply)
	RangedOn    int      // > 0: a ranged pool on the pair of pool RangedOn (Base/Quote are taken from it): two pools share one fee collector
}

type fxCfg struct {
	Assets  []assetCfg
	Pools   []poolCfg
	Farmers []string
	MinPs   *big.Int // MinInitialPoolCoinSupply
	Distr   string   // SwapFeeDistrDenom of the app when the pools (and their swap-fee gauges) are created; "" = default
	Give    *big.Int // pool coins handed to every farmer (per pool)
	Rewards []string // reward denoms funded to the gauge creator "gc" and to farmers
	RewAmt  *big.Int
}

type fixture struct {
	cfg      fxCfg
	app      uint64
	assetID  []uint64
	pairs    []liqtypes.Pair
	pools    []liqtypes.Pool
	users    []string // all accounts whose balances are projected: farmers + gc + lp
	rewards  []string
	nextRwd  int
	extras   *extFx
	priceOff map[uint64]bool
}

func bi(s string) *big.Int {
	x, ok := new(big.Int).SetString(s, 10)
	if !ok {
		panic("bad int " + s)
	}
	return x
}

func coin(denom string, x *big.Int) sdk.Coin { return sdk.NewCoin(denom, sdkmath.NewIntFromBigInt(x)) }

func mustOK(r sim.Result, what string) {
	if !r.OK {
		panic(fmt.Sprintf("fixture step %s failed: %s", what, r.Err))
	}
}

// newFixture boots the app and creates app "cswap", the assets with TWA prices, one pair + basic pool per poolCfg
// (through the routed liquidity messages), and hands pool coins to the farmers.
func newFixture(cfg fxCfg) (*sim.Env, *fixture) {
	huge := bi("1000000000000000000000000000000") // 10^30
	var lpCoins sdk.Coins
	for _, a := range cfg.Assets {
		lpCoins = lpCoins.Add(coin(a.Denom, huge))
	}
	lpCoins = lpCoins.Add(coin("ucmdx", huge))
	funds := []sim.Fund{{Name: "lp", Coins: lpCoins}}
	var rc sdk.Coins
	for _, d := range cfg.Rewards {
		rc = rc.Add(coin(d, cfg.RewAmt))
	}
	funds = append(funds, sim.Fund{Name: "gc", Coins: rc.Add(coin("ucmdx", huge))})
	for _, f := range cfg.Farmers {
		funds = append(funds, sim.Fund{Name: f, Coins: sdk.NewCoins(coin("ucmdx", big.NewInt(1000000)))})
	}
	e := sim.New(funds)
	fx := &fixture{cfg: cfg, rewards: cfg.Rewards, priceOff: map[uint64]bool{}}
	fx.users = append(append([]string{}, cfg.Farmers...), "gc", "lp")
	// the band oracle reports valid data (otherwise market.BeginBlocker switches every price off in each block);
	// no fetch is pending, so the TWA records stay as the drivers set them
	e.App.BandoracleKeeper.SetOracleValidationResult(e.Ctx, true)

	if err := e.App.AssetKeeper.AddAppRecords(e.Ctx, assettypes.AppData{Name: "cswap", ShortName: "cswap",
		MinGovDeposit: sdkmath.NewInt(0), GovTimeInSeconds: 0, GenesisToken: []assettypes.MintGenesisToken{}}); err != nil {
		panic(err)
	}
	apps, _ := e.App.AssetKeeper.GetApps(e.Ctx)
	for _, a := range apps {
		if a.Name == "cswap" {
			fx.app = a.Id
		}
	}
	for _, a := range cfg.Assets {
		if err := e.App.AssetKeeper.AddAssetRecords(e.Ctx, assettypes.Asset{Name: a.Name, Denom: a.Denom,
			Decimals: sdkmath.NewIntFromBigInt(a.Dec), IsOnChain: true, IsOraclePriceRequired: true}); err != nil {
			panic(err)
		}
		as, ok := e.App.AssetKeeper.GetAssetForDenom(e.Ctx, a.Denom)
		if !ok {
			panic("asset missing")
		}
		fx.assetID = append(fx.assetID, as.Id)
		fx.setPrice(e, len(fx.assetID)-1, a.Twa, true)
	}
	// liquidity parameters of the app: no fees, tiny minimums (governance-style configuration)
	gp, err := e.App.LiquidityKeeper.GetGenericParams(e.Ctx, fx.app)
	if err != nil {
		panic(err)
	}
	gp.PairCreationFee = sdk.NewCoins()
	gp.PoolCreationFee = sdk.NewCoins()
	gp.MinInitialDepositAmount = sdkmath.NewInt(1)
	gp.MinInitialPoolCoinSupply = sdkmath.NewIntFromBigInt(cfg.MinPs)
	if cfg.Distr != "" {
		gp.SwapFeeDistrDenom = cfg.Distr
	}
	e.App.LiquidityKeeper.SetGenericParams(e.Ctx, gp)

	lp := sim.Addr("lp")
	for i := range cfg.Pools {
		p := &cfg.Pools[i]
		var pair liqtypes.Pair
		if p.RangedOn > 0 {
			p.Base, p.Quote = cfg.Pools[p.RangedOn-1].Base, cfg.Pools[p.RangedOn-1].Quote
			pair = fx.pairs[p.RangedOn-1]
		} else {
			mustOK(e.Deliver(liqtypes.NewMsgCreatePair(fx.app, lp, cfg.Assets[p.Base].Denom, cfg.Assets[p.Quote].Denom)), "create pair")
			pairs := e.App.LiquidityKeeper.GetAllPairs(e.Ctx, fx.app)
			pair = pairs[len(pairs)-1]
		}
		fx.pairs = append(fx.pairs, pair)
		dep := sdk.NewCoins(coin(cfg.Assets[p.Quote].Denom, p.Rx), coin(cfg.Assets[p.Base].Denom, p.Ry))
		if p.RangedOn > 0 {
			gp, _ := e.App.LiquidityKeeper.GetGenericParams(e.Ctx, fx.app)
			tp := int(gp.TickPrecision)
			p0 := amm.PriceToDownTick(sdkmath.LegacyNewDecFromBigInt(p.Rx).Quo(sdkmath.LegacyNewDecFromBigInt(p.Ry)), tp)
			lo := amm.PriceToDownTick(p0.QuoInt64(2), tp)
			hi := amm.PriceToDownTick(p0.MulInt64(2), tp)
			mustOK(e.Deliver(liqtypes.NewMsgCreateRangedPool(fx.app, lp, pair.Id, dep, lo, hi, p0)), "create ranged pool")
		} else {
			mustOK(e.Deliver(liqtypes.NewMsgCreatePool(fx.app, lp, pair.Id, dep)), "create pool")
		}
		pools := e.App.LiquidityKeeper.GetAllPools(e.Ctx, fx.app)
		pool := pools[len(pools)-1]
		if pool.Id != uint64(i+1) {
			panic("pool ids are expected to be 1..n")
		}
		fx.pools = append(fx.pools, pool)
		don := sdk.NewCoins()
		if p.DonQ != nil && p.DonQ.Sign() > 0 {
			don = don.Add(coin(cfg.Assets[p.Quote].Denom, p.DonQ))
		}
		if p.DonB != nil && p.DonB.Sign() > 0 {
			don = don.Add(coin(cfg.Assets[p.Base].Denom, p.DonB))
		}
		if !don.IsZero() {
			if err := e.App.BankKeeper.SendCoins(e.Ctx, lp, pool.GetReserveAddress(), don); err != nil {
				panic(err)
			}
		}
		give := cfg.Give
		if give == nil { // an eighth of the supply each
			give = new(big.Int).Rsh(e.App.LiquidityKeeper.GetPoolCoinSupply(e.Ctx, pool).BigInt(), 3)
		}
		for _, f := range cfg.Farmers {
			if err := e.App.BankKeeper.SendCoins(e.Ctx, lp, sim.Addr(f), sdk.NewCoins(coin(pool.PoolCoinDenom, give))); err != nil {
				panic(err)
			}
		}
	}
	return e, fx
}

// setPrice writes the TWA record of an asset: on = active with the given price; off = inactive with price 0
// (the only shape both x/rewards and x/liquidity treat as "no price").
func (fx *fixture) setPrice(e *sim.Env, ai int, twa uint64, active bool) {
	e.App.MarketKeeper.SetTwa(e.Ctx, markettypes.TimeWeightedAverage{AssetID: fx.assetID[ai], ScriptID: 12, Twa: twa,
		CurrentIndex: 0, IsPriceActive: active, PriceValue: []uint64{twa}})
}

// setGov writes the two liquidity generic params the swap-fee gauges read (governance-style configuration).
func (fx *fixture) setGov(e *sim.Env, distr string, burnPermille int64) {
	gp, err := e.App.LiquidityKeeper.GetGenericParams(e.Ctx, fx.app)
	if err != nil {
		panic(err)
	}
	if distr != "" {
		gp.SwapFeeDistrDenom = distr
	}
	if burnPermille >= 0 {
		gp.SwapFeeBurnRate = sdkmath.LegacyNewDecWithPrec(burnPermille, 3)
	}
	e.App.LiquidityKeeper.SetGenericParams(e.Ctx, gp)
}

// ---- block stepping split in two halves so that both are logged --------------------------------------------

func endBlock(e *sim.Env) sim.BlockResult { return sim.EndBlockOn(e.App, e.Ctx) }

func beginBlock(e *sim.Env, dt time.Duration) sim.BlockResult {
	e.Height++
	e.Time = e.Time.Add(dt)
	e.Ctx = e.Ctx.WithBlockHeader(tmproto.Header{Height: e.Height, Time: e.Time, ValidatorsHash: e.ValSet.Hash(),
		NextValidatorsHash: e.ValSet.Hash(), ProposerAddress: e.ValSet.Validators[0].Address})
	return sim.BeginBlockOn(e.App, e.Ctx)
}

func rel(t time.Time) int64 { return int64(t.Sub(sim.GenesisTime) / time.Second) }
