package gauge

import (
	"math/big"
	"sort"
	"time"

	sdkmath "cosmossdk.io/math"
	sdk "github.com/cosmos/cosmos-sdk/types"

	"github.com/comdex-official/comdex/x/liquidity/amm"
	rewardstypes "github.com/comdex-official/comdex/x/rewards/types"

	"vh/sim"
)

// Projection of the real state onto the variables of Gauge.tla. All amounts are limb arrays (spec/common/Limbs.tla).

type gaugeJ struct {
	ID     int64   `json:"id"`
	Kind   string  `json:"kind"`   // "reg" | "swap"
	Denom  string  `json:"denom"`  // denom of the deposit
	DDenom string  `json:"ddenom"` // denom of the distributed total (differs after a change of the swap-fee distribution denom)
	Dep    []int64 `json:"dep"`
	Dist   []int64 `json:"dist"`
	Trig   int64   `json:"trig"`
	Tot    int64   `json:"tot"`
	Active bool    `json:"active"`
	Start  int64   `json:"start"`
	Dur    int64   `json:"dur"`
	Pool   int64   `json:"pool"`
	Master bool    `json:"master"`
	Childs []int64 `json:"childs"`
}

type epochJ struct {
	Dur   int64 `json:"dur"`
	Fresh bool  `json:"fresh"`
	Cur   int64 `json:"cur"`
	N     int64 `json:"n"`
}

type poolJ struct {
	ID       int64              `json:"id"`
	Exists   bool               `json:"exists"`
	Disabled bool               `json:"disabled"`
	Dis      bool               `json:"dis"`
	QOn      bool               `json:"qOn"`
	BOn      bool               `json:"bOn"`
	QAct     bool               `json:"qAct"`
	BAct     bool               `json:"bAct"`
	QW       []int64            `json:"qW"`
	QD       []int64            `json:"qD"`
	BW       []int64            `json:"bW"`
	BD       []int64            `json:"bD"`
	Rx       []int64            `json:"rx"`
	Ry       []int64            `json:"ry"`
	Ps       []int64            `json:"ps"`
	Coll     map[string][]int64 `json:"coll"`  // balances of the pair's swap-fee collector
	Multi    bool               `json:"multi"` // the pair has more than one pool (the collector's balance is shared by value)
}

type posJ struct {
	Pc []int64 `json:"pc"` // active farmed pool coins
	Q  []int64 `json:"q"`  // queued pool coins
	Xq []int64 `json:"xq"` // amm.Withdraw(rx, ry, ps, pc, 0): quote / base amount
	Xb []int64 `json:"xb"`
}

type userJ struct {
	Name string             `json:"name"`
	Pos  []posJ             `json:"pos"`
	Bal  map[string][]int64 `json:"bal"`
}

type extJ struct {
	Kind   string  `json:"kind"`
	ID     int64   `json:"id"`
	Denom  string  `json:"denom"`
	Total  []int64 `json:"total"`
	Avail  []int64 `json:"avail"`
	Neg    bool    `json:"neg"`
	Active bool    `json:"active"`
	Days   int64   `json:"days"`
	Count  int64   `json:"count"`
}

type burnJ struct {
	Num int64 `json:"num"`
	Den int64 `json:"den"`
}

type stJ struct {
	Now    int64              `json:"now"`
	Distr  string             `json:"distr"` // liquidity generic param SwapFeeDistrDenom of the app
	Burn   burnJ              `json:"burn"`  // SwapFeeBurnRate as num/den
	Cust   map[string][]int64 `json:"cust"`
	Denoms []string           `json:"denoms"`
	Gauges []gaugeJ           `json:"gauges"`
	Epochs []epochJ           `json:"epochs"`
	Pools  []poolJ            `json:"pools"`
	Users  []userJ            `json:"users"`
	Ext    []extJ             `json:"ext"`
}

func lim(x sdkmath.Int) []int64 {
	if x.IsNil() {
		return []int64{}
	}
	if x.IsNegative() {
		return sim.Limbs(new(big.Int).Neg(x.BigInt()))
	}
	return sim.Limbs(x.BigInt())
}

func limU(x uint64) []int64 { return sim.LimbsU64(x) }

func (fx *fixture) project(e *sim.Env) stJ {
	app, ctx := e.App, e.Ctx
	s := stJ{Now: rel(ctx.BlockTime()), Cust: map[string][]int64{}, Gauges: []gaugeJ{}, Epochs: []epochJ{}, Pools: []poolJ{},
		Users: []userJ{}, Ext: []extJ{}, Denoms: append([]string{}, fx.rewards...)}
	if gp, err := app.LiquidityKeeper.GetGenericParams(ctx, fx.app); err == nil {
		s.Distr = gp.SwapFeeDistrDenom
		s.Burn = burnJ{Num: gp.SwapFeeBurnRate.MulInt64(1000).TruncateInt64(), Den: 1000}
	}
	radr := sim.ModAddr(rewardstypes.ModuleName)
	for _, d := range fx.rewards {
		s.Cust[d] = lim(app.BankKeeper.GetBalance(ctx, radr, d).Amount)
	}
	gs := app.Rewardskeeper.GetAllGauges(ctx)
	sort.Slice(gs, func(i, j int) bool { return gs[i].Id < gs[j].Id })
	for _, g := range gs {
		j := gaugeJ{ID: int64(g.Id), Kind: "reg", Denom: g.DepositAmount.Denom, DDenom: g.DistributedAmount.Denom, Dep: lim(g.DepositAmount.Amount), Dist: lim(g.DistributedAmount.Amount),
			Trig: int64(g.TriggeredCount), Tot: int64(g.TotalTriggers), Active: g.IsActive, Start: rel(g.StartTime), Dur: int64(g.TriggerDuration / time.Second),
			Childs: []int64{}}
		if g.ForSwapFee {
			j.Kind = "swap"
		}
		if md := g.GetLiquidityMetaData(); md != nil {
			j.Pool, j.Master = int64(md.PoolId), md.IsMasterPool
			for _, c := range md.ChildPoolIds {
				j.Childs = append(j.Childs, int64(c))
			}
		}
		s.Gauges = append(s.Gauges, j)
	}
	for _, ep := range app.Rewardskeeper.GetAllEpochInfos(ctx) {
		s.Epochs = append(s.Epochs, epochJ{Dur: int64(ep.Duration / time.Second), Fresh: ep.StartTime.Equal(time.Time{}) && ep.CurrentEpoch == 0,
			Cur: rel(ep.CurrentEpochStartTime), N: ep.CurrentEpoch})
	}
	sort.Slice(s.Epochs, func(i, j int) bool { return s.Epochs[i].Dur < s.Epochs[j].Dur })

	type pinfo struct {
		rx, ry, ps sdkmath.Int
		ok         bool
	}
	pinf := make([]pinfo, len(fx.pools))
	for i := range fx.pools {
		pool, found := app.LiquidityKeeper.GetPool(ctx, fx.app, fx.pools[i].Id)
		pj := poolJ{ID: int64(fx.pools[i].Id), Exists: found, Disabled: found && pool.Disabled, QW: []int64{}, QD: []int64{}, BW: []int64{}, BD: []int64{},
			Rx: []int64{}, Ry: []int64{}, Ps: []int64{}, Coll: map[string][]int64{}}
		for _, d := range fx.rewards {
			pj.Coll[d] = []int64{}
		}
		if found {
			pair, _ := app.LiquidityKeeper.GetPair(ctx, fx.app, pool.PairId)
			for _, d := range fx.rewards {
				pj.Coll[d] = lim(app.BankKeeper.GetBalance(ctx, pair.GetSwapFeeCollectorAddress(), d).Amount)
			}
			pj.Multi = len(app.LiquidityKeeper.GetPoolsByPair(ctx, fx.app, pair.Id)) > 1
			rx, ry := app.LiquidityKeeper.GetPoolBalances(ctx, pool)
			ps := app.LiquidityKeeper.GetPoolCoinSupply(ctx, pool)
			pinf[i] = pinfo{rx.Amount, ry.Amount, ps, true}
			pj.Rx, pj.Ry, pj.Ps = lim(rx.Amount), lim(ry.Amount), lim(ps)
			_, err := app.LiquidityKeeper.GetPoolTokenDesrializerKit(ctx, fx.app, pool.Id)
			pj.Dis = err != nil
			side := func(denom string) (on, act bool, w, d []int64) {
				w, d = []int64{}, []int64{}
				as, ok := app.AssetKeeper.GetAssetForDenom(ctx, denom)
				if !ok {
					return
				}
				d = lim(as.Decimals)
				twa, ok := app.MarketKeeper.GetTwa(ctx, as.Id)
				if !ok {
					return
				}
				w = limU(twa.Twa)
				on = twa.IsPriceActive || twa.Twa > 0
				act = twa.IsPriceActive
				return
			}
			pj.QOn, pj.QAct, pj.QW, pj.QD = side(pair.QuoteCoinDenom)
			pj.BOn, pj.BAct, pj.BW, pj.BD = side(pair.BaseCoinDenom)
		} else {
			pj.Dis = true
		}
		s.Pools = append(s.Pools, pj)
	}
	for _, name := range fx.users {
		addr := sim.Addr(name)
		u := userJ{Name: name, Pos: []posJ{}, Bal: map[string][]int64{}}
		for i := range fx.pools {
			p := posJ{Pc: []int64{}, Q: []int64{}, Xq: []int64{}, Xb: []int64{}}
			if af, ok := app.LiquidityKeeper.GetActiveFarmer(ctx, fx.app, fx.pools[i].Id, addr); ok {
				p.Pc = lim(af.FarmedPoolCoin.Amount)
				if pinf[i].ok && pinf[i].ps.IsPositive() {
					x, y := amm.Withdraw(pinf[i].rx, pinf[i].ry, pinf[i].ps, af.FarmedPoolCoin.Amount, sdkmath.LegacyZeroDec())
					p.Xq, p.Xb = lim(x), lim(y)
				}
			}
			if qf, ok := app.LiquidityKeeper.GetQueuedFarmer(ctx, fx.app, fx.pools[i].Id, addr); ok {
				q := sdkmath.ZeroInt()
				for _, c := range qf.QueudCoins {
					q = q.Add(c.FarmedPoolCoin.Amount)
				}
				p.Q = lim(q)
			}
			u.Pos = append(u.Pos, p)
		}
		for _, d := range fx.rewards {
			u.Bal[d] = lim(app.BankKeeper.GetBalance(ctx, addr, d).Amount)
		}
		s.Users = append(s.Users, u)
	}
	s.Ext = fx.projectExt(e)
	return s
}

func (fx *fixture) projectExt(e *sim.Env) []extJ {
	app, ctx := e.App, e.Ctx
	out := []extJ{}
	count := func(id uint64) int64 {
		ep, _ := app.Rewardskeeper.GetEpochTime(ctx, id)
		return int64(ep.Count)
	}
	add := func(kind string, id uint64, total, avail sdk.Coin, active bool, days int64, epochID uint64) {
		x := extJ{Kind: kind, ID: int64(id), Denom: total.Denom, Total: lim(total.Amount), Avail: []int64{}, Active: active, Days: days, Count: count(epochID)}
		if !avail.Amount.IsNil() {
			x.Avail, x.Neg = lim(avail.Amount), avail.Amount.IsNegative()
		}
		out = append(out, x)
	}
	for _, v := range app.Rewardskeeper.GetExternalRewardsLockers(ctx) {
		add("locker", v.Id, v.TotalRewards, v.AvailableRewards, v.IsActive, v.DurationDays, v.EpochId)
	}
	for _, v := range app.Rewardskeeper.GetExternalRewardVaults(ctx) {
		add("vault", v.Id, v.TotalRewards, v.AvailableRewards, v.IsActive, v.DurationDays, v.EpochId)
	}
	for _, v := range app.Rewardskeeper.GetExternalRewardLends(ctx) {
		add("lend", v.Id, v.TotalRewards, v.AvailableRewards, v.IsActive, v.DurationDays, v.EpochId)
	}
	for _, v := range app.Rewardskeeper.GetAllExternalRewardStableVault(ctx) {
		add("stable", v.Id, v.TotalRewards, v.AvailableRewards, v.IsActive, v.DurationDays, v.EpochId)
	}
	return out
}
