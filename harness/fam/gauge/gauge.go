package gauge

import (
	"bufio"
	"encoding/json"
	"flag"
	"fmt"
	"math/big"
	"os"
	"strings"
	"time"

	sdkmath "cosmossdk.io/math"
	sdk "github.com/cosmos/cosmos-sdk/types"

	liqtypes "github.com/comdex-official/comdex/x/liquidity/types"
	rewardskeeper "github.com/comdex-official/comdex/x/rewards/keeper"
	rewardstypes "github.com/comdex-official/comdex/x/rewards/types"

	"vh/sim"
)

// ---------------------------------------------------------------------------------------------------------
// actions on the real application (shared by the model walk and the random drivers)

type createArgs struct {
	From   string  `json:"from"`
	Dep    []int64 `json:"dep"`
	Denom  string  `json:"denom"`
	Tot    int64   `json:"tot"`
	Dur    int64   `json:"dur"`   // seconds
	Start  int64   `json:"start"` // seconds since genesis
	Pool   int64   `json:"pool"`
	Master bool    `json:"master"`
	Childs []int64 `json:"childs"`
	Funds  []int64 `json:"funds"` // creator's balance of the deposit denom before the message
	GType  int64   `json:"gtype"`
	Ok     bool    `json:"ok"` // outcome on the real code
	Err    string  `json:"err"`
	depBig *big.Int
}

func (fx *fixture) createGauge(e *sim.Env, a *createArgs) {
	from := sim.Addr(a.From)
	msg := rewardstypes.NewMsgCreateGauge(fx.app, from, sim.GenesisTime.Add(time.Duration(a.Start)*time.Second), uint64(a.GType),
		time.Duration(a.Dur)*time.Second, coin(a.Denom, a.depBig), uint64(a.Tot))
	ch := []uint64{}
	for _, c := range a.Childs {
		ch = append(ch, uint64(c))
	}
	msg.Kind = &rewardstypes.MsgCreateGauge_LiquidityMetaData{LiquidityMetaData: &rewardstypes.LiquidtyGaugeMetaData{
		PoolId: uint64(a.Pool), IsMasterPool: a.Master, ChildPoolIds: ch}}
	a.Dep = sim.Limbs(a.depBig)
	a.Funds = lim(e.App.BankKeeper.GetBalance(e.Ctx, from, a.Denom).Amount)
	if a.Childs == nil {
		a.Childs = []int64{}
	}
	r := e.Deliver(msg)
	a.Ok, a.Err = r.OK, r.Err
}

type farmArgs struct {
	U    string  `json:"u"`
	P    int64   `json:"p"`
	Amt  []int64 `json:"amt"`
	Ok   bool    `json:"ok"`
	Err  string  `json:"err"`
	Kind string  `json:"kind"`
}

func (fx *fixture) farm(e *sim.Env, u string, p int, amt *big.Int, un bool) farmArgs {
	a := farmArgs{U: u, P: int64(p), Amt: sim.Limbs(amt), Kind: "farm"}
	denom := fmt.Sprintf("pool%d-%d", fx.app, p)
	if p >= 1 && p <= len(fx.pools) {
		denom = fx.pools[p-1].PoolCoinDenom
	}
	var r sim.Result
	if un {
		a.Kind = "unfarm"
		r = e.Deliver(liqtypes.NewMsgUnfarm(fx.app, uint64(p), sim.Addr(u), coin(denom, amt)))
	} else {
		r = e.Deliver(liqtypes.NewMsgFarm(fx.app, uint64(p), sim.Addr(u), coin(denom, amt)))
	}
	a.Ok, a.Err = r.OK, r.Err
	return a
}

// activate runs the real queue-activation routine of x/liquidity as if the queue duration had passed
// (used by the model walk, where a farming position is an environment value; the random drivers let time pass).
func (fx *fixture) activate(e *sim.Env) {
	e.App.LiquidityKeeper.ProcessQueuedFarmers(e.Ctx.WithBlockTime(e.Ctx.BlockTime().Add(49*time.Hour)), fx.app)
}

type blockRes struct {
	Panic    bool   `json:"panic"`
	Err      string `json:"err"`
	LendPaid bool   `json:"lendPaid"` // the books of a lend reward program moved in this block (observation, used to key a known finding)
}

// ---------------------------------------------------------------------------------------------------------

type runner struct {
	lg  *sim.Log
	run string
}

func (r *runner) node(parent int, a string, args, res interface{}, st stJ) int {
	return r.lg.Add(parent, r.run, a, args, res, st)
}

// ---------------------------------------------------------------------------------------------------------
// (a) Split vectors

func splitVectors(lg *sim.Log, path string, rng *sim.Rng, nbig int) (int, error) {
	n := 0
	add := func(d, k uint64, run string) {
		sp := rewardskeeper.SplitTotalAmountPerEpoch(d, k)
		out := [][]int64{}
		for _, x := range sp {
			out = append(out, sim.LimbsU64(x))
		}
		lg.Add(0, run, "Split", map[string]interface{}{"d": sim.LimbsU64(d), "n": int64(k)}, nil, map[string]interface{}{"split": out})
		n++
	}
	if path != "" {
		f, err := os.Open(path)
		if err != nil {
			return 0, err
		}
		defer f.Close()
		sc := bufio.NewScanner(f)
		sc.Buffer(make([]byte, 1<<20), 1<<26)
		for sc.Scan() {
			js := sim.TLCJSON(sc.Text())
			if js == "" {
				continue
			}
			var v struct {
				A string `json:"a"`
				D uint64 `json:"d"`
				N uint64 `json:"n"`
			}
			if err := json.Unmarshal([]byte(js), &v); err != nil {
				return 0, err
			}
			if v.A != "Split" {
				continue
			}
			add(v.D, v.N, "vec")
		}
	}
	// seeded real-size vectors: remainders at both ends, 2^64-1
	for i := 0; i < nbig; i++ {
		k := uint64(1 + rng.Intn(40))
		if rng.Intn(5) == 0 {
			k = uint64(1 + rng.Intn(2000))
		}
		var d uint64
		switch rng.Intn(5) {
		case 0:
			d = ^uint64(0) - uint64(rng.Intn(50))
		case 1:
			d = k*uint64(rng.Int63n(1<<40)) + uint64(rng.Intn(int(k)))
		case 2:
			d = k + uint64(rng.Intn(3))
		default:
			d = uint64(rng.Int63())
		}
		add(d, k, "vecbig")
	}
	return n, nil
}

// ---------------------------------------------------------------------------------------------------------
// (b) walk of the MC_Gauge transition graph on the real application

const unit = 6 * time.Hour // one model time unit; model duration D = 2 units = 12h (MinimumEpochDuration)

// walkFixture: np pools with their own two assets each (pool p >= 3: quote twa p-1, base twa 1, as in MC_Gauge.PoolC)
func walkFixture(np int) (*sim.Env, *fixture) {
	t := big.NewInt
	cfg := fxCfg{
		Assets: []assetCfg{{"AAA", "uaaa", t(1), 2}, {"BBB", "ubbb", t(1), 1}, {"CCC", "uccc", t(1), 1}, {"DDD", "uddd", t(1), 3}},
		// reserves are topped up to the pool coin supply (10^4): one pool coin withdraws exactly one unit of each side
		Pools:   []poolCfg{{Base: 0, Quote: 1, Rx: t(1000), Ry: t(1000), DonQ: t(9000), DonB: t(9000)}, {Base: 2, Quote: 3, Rx: t(1000), Ry: t(1000), DonQ: t(9000), DonB: t(9000)}},
		Farmers: []string{"f1", "f2", "f3"},
		MinPs:   t(1), Give: t(100),
		Rewards: []string{"urwda", "urwdb", "urwdc", "ufeea", "ufeeb"}, RewAmt: t(1000000),
		Distr: "ufeea",
	}
	names := "EFGHIJKLMNOP"
	for p := 3; p <= np; p++ {
		b, q := string(names[2*(p-3)]), string(names[2*(p-3)+1])
		cfg.Assets = append(cfg.Assets, assetCfg{b + b + b, "u" + strings.ToLower(b+b+b), t(1), 1}, assetCfg{q + q + q, "u" + strings.ToLower(q+q+q), t(1), uint64(p - 1)})
		cfg.Pools = append(cfg.Pools, poolCfg{Base: len(cfg.Assets) - 2, Quote: len(cfg.Assets) - 1, Rx: t(1000), Ry: t(1000), DonQ: t(9000), DonB: t(9000)})
	}
	return newFixture(cfg)
}

type edge struct {
	A    string          `json:"a"`
	Args json.RawMessage `json:"args"`
	Pre  json.RawMessage `json:"pre"`
	Post json.RawMessage `json:"post"`
	pre  string
	post string
}

// the model's fee denoms 101 / 102
func feeDenom(d int64) string {
	if d == 102 {
		return "ufeeb"
	}
	return "ufeea"
}

func canon(raw json.RawMessage) string {
	var v interface{}
	if err := json.Unmarshal(raw, &v); err != nil {
		panic(err)
	}
	b, _ := json.Marshal(v)
	return string(b)
}

func (fx *fixture) priceMode(e *sim.Env, p int, mode string) {
	pc := fx.cfg.Pools[p-1]
	q, b := fx.cfg.Assets[pc.Quote], fx.cfg.Assets[pc.Base]
	switch mode {
	case "q":
		fx.setPrice(e, pc.Quote, q.Twa, true)
		fx.setPrice(e, pc.Base, b.Twa, true)
	case "b":
		fx.setPrice(e, pc.Quote, 0, false)
		fx.setPrice(e, pc.Base, b.Twa, true)
	default:
		fx.setPrice(e, pc.Quote, 0, false)
		fx.setPrice(e, pc.Base, 0, false)
	}
}

func walkGraph(lg *sim.Log, path, name string) (int, int, error) {
	f, err := os.Open(path)
	if err != nil {
		return 0, 0, err
	}
	defer f.Close()
	out := map[string][]*edge{}
	var first string
	sc := bufio.NewScanner(f)
	sc.Buffer(make([]byte, 1<<20), 1<<26)
	nedges := 0
	for sc.Scan() {
		js := sim.TLCJSON(sc.Text())
		if js == "" {
			continue
		}
		ed := &edge{}
		if err := json.Unmarshal([]byte(js), ed); err != nil {
			return 0, 0, fmt.Errorf("bad transition line: %v", err)
		}
		ed.pre, ed.post = canon(ed.Pre), canon(ed.Post)
		ed.Pre, ed.Post = nil, nil
		if first == "" {
			first = ed.pre
		}
		out[ed.pre] = append(out[ed.pre], ed)
		nedges++
	}
	if first == "" {
		return 0, 0, fmt.Errorf("no transitions in %s", path)
	}
	// the model's initial state fixes the number of pools and the positions held from the start
	var init0 struct {
		Pools []json.RawMessage `json:"pools"`
		Users []struct {
			Pos []struct {
				Pc int64 `json:"pc"`
			} `json:"pos"`
		} `json:"users"`
	}
	must(json.Unmarshal([]byte(first), &init0))
	e0, fx := walkFixture(len(init0.Pools))
	for u, usr := range init0.Users {
		for p, pos := range usr.Pos {
			if pos.Pc > 0 {
				if fa := fx.farm(e0, fx.cfg.Farmers[u], p+1, big.NewInt(pos.Pc), false); !fa.Ok {
					return 0, 0, fmt.Errorf("initial position: %s", fa.Err)
				}
			}
		}
	}
	fx.activate(e0)
	r := &runner{lg: lg, run: "walk:" + name}
	type item struct {
		key string
		env *sim.Env
		fx  *fixture
		id  int
	}
	root := r.node(0, "Init", nil, nil, fx.project(e0))
	seen := map[string]bool{first: true}
	queue := []item{{first, e0, fx, root}}
	done := 0
	for len(queue) > 0 {
		it := queue[0]
		queue = queue[1:]
		for _, ed := range out[it.key] {
			e := it.env.Branch()
			fx2 := *it.fx
			id := fx2.applyModelEdge(r, e, it.id, ed)
			done++
			if !seen[ed.post] {
				seen[ed.post] = true
				queue = append(queue, item{ed.post, e, &fx2, id})
			}
		}
		it.env = nil
	}
	if done != nedges {
		return done, len(seen), fmt.Errorf("walk executed %d of %d model transitions (unreachable source states?)", done, nedges)
	}
	return done, len(seen), nil
}

func (fx *fixture) applyModelEdge(r *runner, e *sim.Env, parent int, ed *edge) int {
	switch ed.A {
	case "Create":
		var a struct {
			Dep, Tot, Pool, Delay, Den int64
			Master                     bool
			Childs                     []int64
		}
		must(json.Unmarshal(ed.Args, &a))
		// the k-th gauge created on a path uses the k-th reward denom (payouts of different gauges stay separable)
		ngauges := 0
		for _, g := range e.App.Rewardskeeper.GetAllGauges(e.Ctx) {
			if !g.ForSwapFee {
				ngauges++
			}
		}
		denom := fx.rewards[ngauges]
		if a.Den != 0 { // a gauge paid in one of the swap-fee distribution denoms
			denom = feeDenom(a.Den)
		}
		ca := &createArgs{From: "gc", depBig: big.NewInt(a.Dep), Denom: denom, Tot: a.Tot, Dur: int64(2 * unit / time.Second),
			Start: rel(e.Ctx.BlockTime()) + a.Delay*int64(unit/time.Second), Pool: a.Pool, Master: a.Master, Childs: a.Childs, GType: 1}
		fx.createGauge(e, ca)
		return r.node(parent, "CreateGauge", ca, nil, fx.project(e))
	case "Farm", "Unfarm":
		var a struct {
			U, P, Amt int64
		}
		must(json.Unmarshal(ed.Args, &a))
		fa := fx.farm(e, fx.cfg.Farmers[a.U-1], int(a.P), big.NewInt(a.Amt), ed.A == "Unfarm")
		id := r.node(parent, "Farm", fa, nil, fx.project(e))
		if ed.A == "Farm" {
			fx.activate(e)
			id = r.node(id, "Activate", nil, nil, fx.project(e))
		}
		return id
	case "Price":
		var a struct {
			P    int64
			Mode string
		}
		must(json.Unmarshal(ed.Args, &a))
		fx.priceMode(e, int(a.P), a.Mode)
		return r.node(parent, "Price", map[string]interface{}{"p": a.P, "mode": a.Mode}, nil, fx.project(e))
	case "Fees":
		var a struct{ P, Amt, D int64 }
		must(json.Unmarshal(ed.Args, &a))
		c := coin(feeDenom(a.D), big.NewInt(a.Amt))
		must(e.App.BankKeeper.SendCoins(e.Ctx, sim.Addr("gc"), fx.pairs[a.P-1].GetSwapFeeCollectorAddress(), sdk.NewCoins(c)))
		return r.node(parent, "SwapFee", map[string]interface{}{"p": a.P, "amt": sim.Limbs(big.NewInt(a.Amt)), "denom": c.Denom}, nil, fx.project(e))
	case "SetDenom":
		var a struct{ D int64 }
		must(json.Unmarshal(ed.Args, &a))
		fx.setGov(e, feeDenom(a.D), -1)
		return r.node(parent, "Gov", map[string]interface{}{"distr": feeDenom(a.D)}, nil, fx.project(e))
	case "Advance":
		var a struct{ K int64 }
		must(json.Unmarshal(ed.Args, &a))
		return fx.block(r, e, parent, time.Duration(a.K)*unit)
	}
	panic("unknown model action " + ed.A)
}

// block = EndBlock at the current time, then BeginBlock dt later; both halves are logged.
func (fx *fixture) block(r *runner, e *sim.Env, parent int, dt time.Duration) int {
	br := endBlock(e)
	pre := fx.project(e)
	id := r.node(parent, "EndBlock", nil, blockRes{Panic: br.Panic, Err: br.Err}, pre)
	br = beginBlock(e, dt)
	post := fx.project(e)
	lendPaid := false
	for _, x := range post.Ext {
		if x.Kind != "lend" {
			continue
		}
		for _, y := range pre.Ext {
			if y.Kind == "lend" && y.ID == x.ID && (y.Neg != x.Neg || fmt.Sprint(y.Avail) != fmt.Sprint(x.Avail)) {
				lendPaid = true
			}
		}
	}
	return r.node(id, "BeginBlock", map[string]interface{}{"dt": int64(dt / time.Second)},
		blockRes{Panic: br.Panic, Err: br.Err, LendPaid: lendPaid}, post)
}

func must(err error) {
	if err != nil {
		panic(err)
	}
}

// ---------------------------------------------------------------------------------------------------------

func Main(args []string) int {
	fs := flag.NewFlagSet("gauge", flag.ExitOnError)
	vectors := fs.String("vectors", "", "file with MC_Split transition lines")
	graphs := fs.String("graph", "", "comma separated name=file list of MC_Gauge transition dumps")
	out := fs.String("out", "gauge.ndjson", "output tree log")
	seed := fs.Int64("seed", 1, "seed")
	runs := fs.Int("runs", 10, "random behaviours")
	first := fs.Int("first", 0, "index of the first random behaviour (behaviour i is determined by seed and i)")
	steps := fs.Int("steps", 60, "steps per behaviour")
	nbig := fs.Int("bigsplits", 300, "seeded real-size Split vectors")
	fs.Parse(args)

	lg := &sim.Log{}
	rng := sim.NewRng(*seed)
	nvec, err := splitVectors(lg, *vectors, rng, *nbig)
	if err != nil {
		fmt.Fprintln(os.Stderr, err)
		return 2
	}
	nedges, nstates := 0, 0
	if *graphs != "" {
		for _, g := range strings.Split(*graphs, ",") {
			kv := strings.SplitN(g, "=", 2)
			ne, ns, err := walkGraph(lg, kv[1], kv[0])
			if err != nil {
				fmt.Fprintln(os.Stderr, err)
				return 2
			}
			nedges += ne
			nstates += ns
		}
	}
	for i := *first; i < *first+*runs; i++ {
		drive(lg, *seed, i, *steps)
	}
	if err := lg.Write(*out); err != nil {
		fmt.Fprintln(os.Stderr, err)
		return 2
	}
	fmt.Printf("gauge: vectors=%d edges=%d states=%d runs=%d nodes=%d\n", nvec, nedges, nstates, *runs, len(lg.Nodes))
	return 0
}

var _ = sdk.NewCoins
var _ = sdkmath.NewInt
