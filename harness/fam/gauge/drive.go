package gauge

import (
	"fmt"
	"math/big"
	"strings"
	"time"

	sdk "github.com/cosmos/cosmos-sdk/types"

	"vh/sim"
)

// Seeded random behaviours: several gauges (regular, master/child, shared or own reward denom) over three pools,
// four farmers with arbitrary farmed amounts, natural queue activation, epoch timing with gaps, prices going
// away and coming back, reserves moving (donations), swap fees arriving, external reward programs.

// denoms the app's SwapFeeDistrDenom moves between (all of them are also deposit denoms of created gauges)
var feeDenoms = []string{"ucmdx", "ushared", "uddd"}

func pow10(k int) *big.Int { return new(big.Int).Exp(big.NewInt(10), big.NewInt(int64(k)), nil) }

func rndBig(rng *sim.Rng, max *big.Int) *big.Int {
	if max.Sign() <= 0 {
		return big.NewInt(0)
	}
	return new(big.Int).Rand(rng.Rand, max)
}

func driveFixture(rng *sim.Rng, bigMode, ranged, many bool) (*sim.Env, *fixture) {
	t := big.NewInt
	var cfg fxCfg
	rew := []string{"urwda", "urwdb", "urwdc", "urwdd", "urwde", "urwdf", "ushared", "uexta", "uextb", "ucmdx", "uddd"}
	if !bigMode {
		decs := []*big.Int{t(1), t(1), t(10), t(100)}
		dec := func() *big.Int { return decs[rng.Intn(len(decs))] }
		tw := func() uint64 { return uint64(1 + rng.Intn(5)) }
		cfg = fxCfg{
			Assets: []assetCfg{{"AAA", "uaaa", dec(), tw()}, {"BBB", "ubbb", dec(), tw()}, {"CCC", "uccc", dec(), tw()}, {"DDD", "uddd", dec(), tw()}},
			Pools: []poolCfg{
				{Base: 0, Quote: 1, Rx: t(int64(500 + rng.Intn(1500))), Ry: t(int64(500 + rng.Intn(1500))), DonQ: t(int64(rng.Intn(9000))), DonB: t(int64(rng.Intn(9000)))},
				{Base: 2, Quote: 3, Rx: t(int64(500 + rng.Intn(1500))), Ry: t(int64(500 + rng.Intn(1500))), DonQ: t(int64(rng.Intn(9000))), DonB: t(int64(rng.Intn(9000)))},
				{Base: 2, Quote: 1, Rx: t(int64(500 + rng.Intn(1500))), Ry: t(int64(500 + rng.Intn(1500)))},
			},
			Farmers: []string{"f1", "f2", "f3", "f4"},
			MinPs:   t(1),
			Rewards: rew, RewAmt: t(100000000),
		}
	} else {
		decs := []*big.Int{pow10(6), pow10(6), pow10(18), pow10(8)}
		dec := func() *big.Int { return decs[rng.Intn(len(decs))] }
		tw := func() uint64 { return uint64(1 + rng.Int63n(30000000)) }
		res := func() *big.Int { return new(big.Int).Add(pow10(9+rng.Intn(12)), rndBig(rng, pow10(9))) }
		cfg = fxCfg{
			Assets: []assetCfg{{"AAA", "uaaa", dec(), tw()}, {"BBB", "ubbb", dec(), tw()}, {"CCC", "uccc", dec(), tw()}, {"DDD", "uddd", dec(), tw()}},
			Pools: []poolCfg{
				{Base: 0, Quote: 1, Rx: res(), Ry: res()},
				{Base: 2, Quote: 3, Rx: res(), Ry: res(), DonQ: rndBig(rng, pow10(12))},
				{Base: 2, Quote: 1, Rx: res(), Ry: res(), DonB: rndBig(rng, pow10(10))},
			},
			Farmers: []string{"f1", "f2", "f3", "f4"},
			MinPs:   pow10(12),
			Rewards: rew, RewAmt: pow10(27),
		}
		// keep the pool price inside the AMM's limits
		for i := range cfg.Pools {
			p := &cfg.Pools[i]
			for new(big.Int).Mul(p.Rx, pow10(15)).Cmp(p.Ry) < 0 {
				p.Rx.Mul(p.Rx, t(10))
			}
			for new(big.Int).Mul(p.Ry, pow10(15)).Cmp(p.Rx) < 0 {
				p.Ry.Mul(p.Ry, t(10))
			}
		}
	}
	if many { // five pools: pools 3 and 4 get assets of their own (a whole child pool can lose its prices), pool 5 = the old pool 3
		old3 := cfg.Pools[2]
		cfg.Pools = cfg.Pools[:2]
		for _, n := range []string{"EEE", "FFF", "GGG", "HHH"} {
			a := cfg.Assets[rng.Intn(4)]
			cfg.Assets = append(cfg.Assets, assetCfg{n, "u" + strings.ToLower(n), a.Dec, a.Twa + uint64(rng.Intn(3))})
		}
		for k := 0; k < 2; k++ {
			src := cfg.Pools[k]
			cfg.Pools = append(cfg.Pools, poolCfg{Base: 4 + 2*k, Quote: 5 + 2*k, Rx: new(big.Int).Add(src.Ry, big.NewInt(int64(rng.Intn(300)))),
				Ry: new(big.Int).Add(src.Rx, big.NewInt(int64(rng.Intn(300))))})
		}
		cfg.Pools = append(cfg.Pools, old3)
	}
	if ranged { // pool 4: a ranged pool on the pair of pool 1 (both pools' swap-fee gauges draw on one collector)
		cfg.Pools = append(cfg.Pools, poolCfg{RangedOn: 1, Rx: new(big.Int).Set(cfg.Pools[0].Rx), Ry: new(big.Int).Set(cfg.Pools[0].Ry)})
	}
	return newFixture(cfg)
}

func drive(lg *sim.Log, seed int64, idx, steps int) {
	rng := sim.NewRng(seed*1000003 + int64(idx)*7919 + 17)
	bigMode := idx%2 == 1
	k8 := idx % 8
	ranged := k8 == 2 || k8 == 3 || k8 == 7
	many := k8 >= 4 && k8 <= 6
	e, fx := driveFixture(rng, bigMode, ranged, many)
	mode := "small"
	if bigMode {
		mode = "big"
	}
	if ranged {
		mode += "+ranged"
	}
	if many {
		mode += "+many"
	}
	r := &runner{lg: lg, run: fmt.Sprintf("drive:%d:%d:%s", seed, idx, mode)}
	fx.setupExt(e, rng, bigMode)
	cur := r.node(0, "Init", map[string]interface{}{"mode": mode}, nil, fx.project(e))

	np := len(fx.pools)
	ownDenoms := []string{"urwda", "urwdb", "urwdc", "urwdd", "urwde", "urwdf"}
	nextOwn := 0
	amount := func(small int64, bigDigits int) *big.Int {
		if !bigMode {
			return big.NewInt(1 + rng.Int63n(small))
		}
		return new(big.Int).Add(big.NewInt(1), rndBig(rng, pow10(3+rng.Intn(bigDigits))))
	}
	dts := []time.Duration{time.Hour, 6 * time.Hour, 12*time.Hour + time.Second, 12 * time.Hour, 13 * time.Hour, 24*time.Hour + time.Second,
		25 * time.Hour, 30 * time.Hour, 49 * time.Hour, 80 * time.Hour, 6 * time.Second}
	if ranged {
		// directed opening of the shared-pair runs: two pools of one pair are farmed, fees reach their common collector and are
		// paid out; then one oracle price of the pair goes away for two epochs (the payout needs one price, the split of the
		// collector between the two pools needs both) while a gauge created in the fee denom holds coins next to them
		feeAmt := func() *big.Int { return new(big.Int).Add(amount(3000, 10), big.NewInt(50)) }
		send := func(denom string) {
			amt := feeAmt()
			must(e.App.BankKeeper.SendCoins(e.Ctx, sim.Addr("gc"), fx.pairs[0].GetSwapFeeCollectorAddress(), sdk.NewCoins(coin(denom, amt))))
			cur = r.node(cur, "SwapFee", map[string]interface{}{"p": 1, "amt": sim.Limbs(amt), "denom": denom}, nil, fx.project(e))
		}
		for i, f := range fx.cfg.Farmers[:3] {
			p := []int{1, np, 1}[i]
			cur = r.node(cur, "Farm", fx.farm(e, f, p, amount(400, 8), false), nil, fx.project(e))
		}
		a := &createArgs{From: "gc", GType: 1, Pool: 2, Tot: 3, depBig: amount(5000, 12), Dur: int64(36 * time.Hour / time.Second),
			Start: rel(e.Ctx.BlockTime()), Denom: "ucmdx"}
		fx.createGauge(e, a)
		cur = r.node(cur, "CreateGauge", a, nil, fx.project(e))
		send("ucmdx")
		for i := 0; i < 3; i++ {
			cur = fx.block(r, e, cur, 25*time.Hour)
		}
		off := fx.cfg.Pools[0].Quote
		if rng.Intn(2) == 0 {
			off = fx.cfg.Pools[0].Base
		}
		fx.setPrice(e, off, 0, false)
		cur = r.node(cur, "Price", map[string]interface{}{"asset": off + 1, "kind": 0}, nil, fx.project(e))
		send("ucmdx")
		for i := 0; i < 2; i++ {
			cur = fx.block(r, e, cur, 25*time.Hour)
		}
		fx.setPrice(e, off, fx.cfg.Assets[off].Twa, true)
		cur = r.node(cur, "Price", map[string]interface{}{"asset": off + 1, "kind": 1}, nil, fx.project(e))
	}
	for k := 0; k < steps; k++ {
		switch rng.Weighted([]int{12, 22, 10, 34, 4, 3, 6, 9, 3}) {
		case 0: // create gauge
			a := &createArgs{From: "gc", GType: 1}
			a.Pool = int64(1 + rng.Intn(np))
			a.Tot = int64(1 + rng.Intn(6))
			if rng.Intn(6) == 0 {
				a.Tot = int64(7 + rng.Intn(40))
			}
			a.depBig = amount(5000, 15)
			if rng.Intn(4) == 0 { // deposit with / without remainder near the epoch count
				a.depBig = big.NewInt(a.Tot*int64(1+rng.Intn(4)) + int64(rng.Intn(int(a.Tot))))
			}
			a.Dur = int64([]time.Duration{12 * time.Hour, 12 * time.Hour, 24 * time.Hour, 36 * time.Hour}[rng.Intn(4)] / time.Second)
			a.Start = rel(e.Ctx.BlockTime()) + []int64{0, 0, 3600, 20 * 3600, 50 * 3600}[rng.Intn(5)]
			if nextOwn < len(ownDenoms) && rng.Intn(5) != 0 {
				a.Denom = ownDenoms[nextOwn]
				nextOwn++
			} else if x := rng.Intn(6); x == 0 {
				a.Denom = "uddd" // a priced asset, also used by lend reward programs and as swap-fee distribution denom
			} else if x == 1 {
				a.Denom = "ucmdx" // the default swap-fee distribution denom
			} else {
				a.Denom = "ushared"
			}
			if rng.Intn(3) == 0 {
				a.Master = true
				// default (all other pools) or a random selection of the other pools in random order
				a.Childs = []int64{}
				if rng.Intn(3) != 0 {
					others := []int64{}
					for q := int64(1); q <= int64(np); q++ {
						if q != a.Pool {
							others = append(others, q)
						}
					}
					rng.Shuffle(len(others), func(i, j int) { others[i], others[j] = others[j], others[i] })
					a.Childs = others[:1+rng.Intn(len(others))]
				}
			}
			switch rng.Intn(14) { // rejected shapes
			case 0:
				a.depBig = big.NewInt(a.Tot - 1)
			case 1:
				a.Dur = int64(11 * time.Hour / time.Second)
			case 2:
				a.Start = rel(e.Ctx.BlockTime()) - 1
			case 3:
				a.Master, a.Childs = true, []int64{a.Pool}
			case 4:
				a.Pool = 9
			}
			fx.createGauge(e, a)
			cur = r.node(cur, "CreateGauge", a, nil, fx.project(e))
		case 1: // farm
			u := fx.cfg.Farmers[rng.Intn(len(fx.cfg.Farmers))]
			p := 1 + rng.Intn(np)
			amt := amount(400, 8)
			fa := fx.farm(e, u, p, amt, false)
			cur = r.node(cur, "Farm", fa, nil, fx.project(e))
		case 2: // unfarm
			u := fx.cfg.Farmers[rng.Intn(len(fx.cfg.Farmers))]
			p := 1 + rng.Intn(np)
			for try := 0; try < 6; try++ { // prefer somebody who farms
				_, a := e.App.LiquidityKeeper.GetActiveFarmer(e.Ctx, fx.app, uint64(p), sim.Addr(u))
				_, q := e.App.LiquidityKeeper.GetQueuedFarmer(e.Ctx, fx.app, uint64(p), sim.Addr(u))
				if a || q {
					break
				}
				u, p = fx.cfg.Farmers[rng.Intn(len(fx.cfg.Farmers))], 1+rng.Intn(np)
			}
			amt := amount(400, 8)
			if rng.Intn(3) == 0 { // everything that is farmed (active + queued)
				tot := big.NewInt(0)
				if af, ok := e.App.LiquidityKeeper.GetActiveFarmer(e.Ctx, fx.app, uint64(p), sim.Addr(u)); ok {
					tot.Add(tot, af.FarmedPoolCoin.Amount.BigInt())
				}
				if qf, ok := e.App.LiquidityKeeper.GetQueuedFarmer(e.Ctx, fx.app, uint64(p), sim.Addr(u)); ok {
					for _, c := range qf.QueudCoins {
						tot.Add(tot, c.FarmedPoolCoin.Amount.BigInt())
					}
				}
				if tot.Sign() > 0 {
					amt = tot
				}
			}
			fa := fx.farm(e, u, p, amt, true)
			cur = r.node(cur, "Farm", fa, nil, fx.project(e))
		case 3: // time passes
			cur = fx.block(r, e, cur, dts[rng.Intn(len(dts))])
		case 4: // oracle price of one asset goes away / comes back / is stale-but-positive
			ai := rng.Intn(len(fx.cfg.Assets))
			kind := []int{0, 1, 1, 1, 2, 3, 3}[rng.Intn(7)]
			switch kind {
			case 0:
				fx.setPrice(e, ai, 0, false)
			case 3: // a whole pool loses both prices (also hits the pools that share one of its assets)
				pc := fx.cfg.Pools[rng.Intn(np)]
				fx.setPrice(e, pc.Quote, 0, false)
				fx.setPrice(e, pc.Base, 0, false)
			case 1: // every price is back
				for i := range fx.cfg.Assets {
					fx.setPrice(e, i, fx.cfg.Assets[i].Twa, true)
				}
			default:
				fx.setPrice(e, ai, fx.cfg.Assets[ai].Twa, false)
			}
			cur = r.node(cur, "Price", map[string]interface{}{"asset": ai + 1, "kind": kind}, nil, fx.project(e))
		case 5: // reserves move (donation to a pool's reserve account)
			p := rng.Intn(np)
			pc := fx.cfg.Pools[p]
			side := pc.Quote
			if rng.Intn(2) == 0 {
				side = pc.Base
			}
			amt := amount(2000, 12)
			err := e.App.BankKeeper.SendCoins(e.Ctx, sim.Addr("lp"), fx.pools[p].GetReserveAddress(), sdk.NewCoins(coin(fx.cfg.Assets[side].Denom, amt)))
			must(err)
			cur = r.node(cur, "Donate", map[string]interface{}{"p": p + 1}, nil, fx.project(e))
		case 6: // swap fees accumulate at a pair's fee collector (paid out by the pool's swap-fee gauge)
			p := rng.Intn(np)
			amt := amount(3000, 10)
			gp, err := e.App.LiquidityKeeper.GetGenericParams(e.Ctx, fx.app)
			must(err)
			denom := gp.SwapFeeDistrDenom // fees are converted to the current distribution denom; sometimes a stale denom is left behind
			if rng.Intn(6) == 0 {
				denom = feeDenoms[rng.Intn(len(feeDenoms))]
			}
			err = e.App.BankKeeper.SendCoins(e.Ctx, sim.Addr("gc"), fx.pairs[p].GetSwapFeeCollectorAddress(), sdk.NewCoins(coin(denom, amt)))
			must(err)
			cur = r.node(cur, "SwapFee", map[string]interface{}{"p": p + 1, "amt": sim.Limbs(amt), "denom": denom}, nil, fx.project(e))
		case 7: // external reward programs and the positions they pay
			cur = fx.extStep(r, e, rng, cur, bigMode)
		case 8: // governance changes what the swap-fee gauges read: distribution denom and burn rate
			distr, burn := "", int64(-1)
			if rng.Intn(4) != 0 {
				distr = feeDenoms[rng.Intn(len(feeDenoms))]
			}
			if distr == "" || rng.Intn(3) == 0 {
				burn = []int64{0, 0, 100, 500}[rng.Intn(4)]
			}
			fx.setGov(e, distr, burn)
			cur = r.node(cur, "Gov", map[string]interface{}{"distr": distr, "burn": burn}, nil, fx.project(e))
		}
	}
}
