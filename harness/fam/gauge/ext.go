package gauge

import (
	"math/big"

	sdkmath "cosmossdk.io/math"
	sdk "github.com/cosmos/cosmos-sdk/types"

	"github.com/comdex-official/comdex/app/wasm/bindings"
	assettypes "github.com/comdex-official/comdex/x/asset/types"
	esmtypes "github.com/comdex-official/comdex/x/esm/types"
	lendtypes "github.com/comdex-official/comdex/x/lend/types"
	lockertypes "github.com/comdex-official/comdex/x/locker/types"
	rewardstypes "github.com/comdex-official/comdex/x/rewards/types"

	"vh/sim"
)

// External reward programs (x/rewards ActivateExternalRewards*): they share the rewards module account with the
// gauges. The drivers create locker programs (fixture: collector lookup entry with zero saving rate, whitelisted
// locker asset, user lockers) and record every program's books; the payout rule of these programs is not part of
// C19 - only their custody (`available`) is.

type extFx struct {
	lockerAsset int // index into fx.cfg.Assets
	ready       bool
	lendAsset   int
	lendReady   bool
}

// setupLend writes a lend pool with one borrow position per farmer using the lend keeper's own setters (fixture
// records only: the positions are not created through lend messages); the reward distribution over them is the
// real x/rewards code.
func (fx *fixture) setupLend(e *sim.Env, rng *sim.Rng, bigMode bool) {
	const ai = 2 // CCC is the borrowed asset
	fx.extras.lendAsset = ai
	zi, zd, od := sdkmath.ZeroInt(), sdkmath.LegacyZeroDec(), sdkmath.LegacyOneDec()
	k := e.App.LendKeeper
	// the lend positions belong to a second app whose kill switch is on: the (unwrapped) borrow-liquidation sweep of
	// liquidationsV2 then returns an error for these fixture records instead of computing interest on them
	if err := e.App.AssetKeeper.AddAppRecords(e.Ctx, assettypes.AppData{Name: "commodo", ShortName: "comdo", MinGovDeposit: zi, GovTimeInSeconds: 0,
		GenesisToken: []assettypes.MintGenesisToken{}}); err != nil {
		return
	}
	lendApp := uint64(0)
	apps, _ := e.App.AssetKeeper.GetApps(e.Ctx)
	for _, a := range apps {
		if a.Name == "commodo" {
			lendApp = a.Id
		}
	}
	if err := e.App.EsmKeeper.SetKillSwitchData(e.Ctx, esmtypes.KillSwitchParams{AppId: lendApp, BreakerEnable: true}); err != nil {
		return
	}
	k.SetPool(e.Ctx, lendtypes.Pool{PoolID: 1, ModuleName: "cmdx", CPoolName: "CMDX-POOL"})
	ids := []uint64{}
	for i, f := range fx.cfg.Farmers {
		id := uint64(i + 1)
		amt := big.NewInt(50 + rng.Int63n(5000))
		if bigMode {
			amt = new(big.Int).Add(pow10(6), rndBig(rng, pow10(8+rng.Intn(8))))
		}
		c := coin(fx.cfg.Assets[ai].Denom, amt)
		k.SetLend(e.Ctx, lendtypes.LendAsset{ID: id, AssetID: fx.assetID[ai], PoolID: 1, Owner: sim.Addr(f).String(), AmountIn: c,
			LendingTime: e.Ctx.BlockTime(), AvailableToBorrow: zi, AppID: lendApp, GlobalIndex: od, LastInteractionTime: e.Ctx.BlockTime(),
			CPoolName: "CMDX-POOL", TotalRewards: zi})
		k.SetBorrow(e.Ctx, lendtypes.BorrowAsset{ID: id, LendingID: id, PairID: 1, AmountIn: c, AmountOut: c, BridgedAssetAmount: coin(fx.cfg.Assets[ai].Denom, big.NewInt(0)),
			BorrowingTime: e.Ctx.BlockTime(), StableBorrowRate: zd, InterestAccumulated: zd, GlobalIndex: od, ReserveGlobalIndex: od,
			LastInteractionTime: e.Ctx.BlockTime(), CPoolName: "CMDX-POOL"})
		ids = append(ids, id)
	}
	k.SetAssetStatsByPoolIDAndAssetID(e.Ctx, lendtypes.PoolAssetLBMapping{PoolID: 1, AssetID: fx.assetID[ai], LendIds: ids, BorrowIds: ids, TotalBorrowed: zi,
		TotalStableBorrowed: zi, TotalLend: zi, TotalInterestAccumulated: zi, LendApr: zd, BorrowApr: zd, StableBorrowApr: zd, UtilisationRatio: zd})
	fx.extras.lendReady = true
}

func (fx *fixture) setupExt(e *sim.Env, rng *sim.Rng, bigMode bool) {
	fx.extras = &extFx{lockerAsset: 0}
	fx.setupLend(e, rng, bigMode)
	aid, sec := fx.assetID[0], fx.assetID[1]
	err := e.App.CollectorKeeper.WasmSetCollectorLookupTable(e.Ctx, &bindings.MsgSetCollectorLookupTable{AppID: fx.app, CollectorAssetID: aid,
		SecondaryAssetID: sec, SurplusThreshold: sdkmath.NewInt(10000000), DebtThreshold: sdkmath.NewInt(5000000), LockerSavingRate: sdkmath.LegacyZeroDec(),
		LotSize: sdkmath.NewInt(2000000), BidFactor: sdkmath.LegacyMustNewDecFromStr("0.01"), DebtLotSize: sdkmath.NewInt(2000000)})
	if err != nil {
		return
	}
	if _, err := e.App.LockerKeeper.AddWhiteListedAsset(e.Ctx, &lockertypes.MsgAddWhiteListedAssetRequest{From: sim.Addr("lp").String(), AppId: fx.app, AssetId: aid}); err != nil {
		return
	}
	amt := big.NewInt(100000)
	if bigMode {
		amt = pow10(14)
	}
	for _, f := range fx.cfg.Farmers {
		must(e.App.BankKeeper.SendCoins(e.Ctx, sim.Addr("lp"), sim.Addr(f), sdk.NewCoins(coin(fx.cfg.Assets[0].Denom, amt))))
	}
	fx.extras.ready = true
}

func (fx *fixture) extStep(r *runner, e *sim.Env, rng *sim.Rng, cur int, bigMode bool) int {
	if fx.extras == nil || !fx.extras.ready {
		return cur
	}
	aid := fx.assetID[fx.extras.lockerAsset]
	amount := func(small int64, digits int) *big.Int {
		if !bigMode {
			return big.NewInt(1 + rng.Int63n(small))
		}
		return new(big.Int).Add(big.NewInt(1), rndBig(rng, pow10(3+rng.Intn(digits))))
	}
	switch rng.Weighted([]int{5, 3, 2, 4, 3}) {
	case 0, 1, 2: // locker create / deposit / withdraw (never down to zero)
		u := fx.cfg.Farmers[rng.Intn(len(fx.cfg.Farmers))]
		addr := sim.Addr(u)
		m, ok := e.App.LockerKeeper.GetUserLockerAssetMapping(e.Ctx, addr.String(), fx.app, aid)
		amt := amount(500, 9)
		var res sim.Result
		kind := "create"
		if !ok || m.LockerId == 0 {
			res = e.Deliver(&lockertypes.MsgCreateLockerRequest{Depositor: addr.String(), Amount: sdkmath.NewIntFromBigInt(amt), AssetId: aid, AppId: fx.app})
		} else if rng.Intn(3) > 0 {
			kind = "deposit"
			res = e.Deliver(&lockertypes.MsgDepositAssetRequest{Depositor: addr.String(), LockerId: m.LockerId, Amount: sdkmath.NewIntFromBigInt(amt), AssetId: aid, AppId: fx.app})
		} else {
			kind = "withdraw"
			lk, _ := e.App.LockerKeeper.GetLocker(e.Ctx, m.LockerId)
			half := new(big.Int).Rsh(lk.NetBalance.BigInt(), 1)
			if half.Sign() == 0 {
				return cur
			}
			res = e.Deliver(&lockertypes.MsgWithdrawAssetRequest{Depositor: addr.String(), LockerId: m.LockerId, Amount: sdkmath.NewIntFromBigInt(half), AssetId: aid, AppId: fx.app})
		}
		return r.node(cur, "Locker", map[string]interface{}{"u": u, "kind": kind, "ok": res.OK, "err": res.Err}, nil, fx.project(e))
	case 4: // a lend (borrowers') reward program funded by gc, paid in a priced asset (DDD)
		if !fx.extras.lendReady {
			return cur
		}
		denom := fx.cfg.Assets[3].Denom
		tot := amount(5000, 12)
		days := int64(1 + rng.Intn(4))
		master := int64(1 + rng.Intn(3))
		res := e.Deliver(rewardstypes.NewMsgActivateExternalRewardsLend(fx.app, 1, []uint64{fx.assetID[fx.extras.lendAsset]}, fx.app, 0, coin(denom, tot), master, days, 1, sim.Addr("gc")))
		return r.node(cur, "ExtLend", map[string]interface{}{"denom": denom, "total": sim.Limbs(tot), "days": days, "master": master, "ok": res.OK, "err": res.Err}, nil, fx.project(e))
	default: // a locker reward program funded by gc
		denom := []string{"uexta", "uextb", "ushared", "ushared"}[rng.Intn(4)]
		tot := amount(5000, 12)
		days := int64(1 + rng.Intn(4))
		lock := []int64{1, 1, 86400}[rng.Intn(3)]
		res := e.Deliver(rewardstypes.NewMsgActivateExternalRewardsLockers(fx.app, aid, coin(denom, tot), days, lock, sim.Addr("gc")))
		return r.node(cur, "ExtLocker", map[string]interface{}{"denom": denom, "total": sim.Limbs(tot), "days": days, "ok": res.OK, "err": res.Err}, nil, fx.project(e))
	}
}
