package gauge

import (
	"math/big"

	sdkmath "cosmossdk.io/math"
	sdk "github.com/cosmos/cosmos-sdk/types"

	"github.com/comdex-official/comdex/app/wasm/bindings"
	lockertypes "github.com/comdex-official/comdex/x/locker/types"
	rewardstypes "github.com/comdex-official/comdex/x/rewards/types"

	"vh/sim"
)

// External reward programs (x/rewards ActivateExternalRewards*): they share the rewards module account with the
// gauges. The drivers create locker programs (fixture: collector lookup entry with zero saving rate, whitelisted
// locker asset, user lockers) and record every program's books; the payout rule of these programs is not part of
// C19 - only their custody (`available`) is.

type extFx struct {
	lockerAsset int // index into fx.cfg.Assets
	ready       bool
}

func (fx *fixture) setupExt(e *sim.Env, rng *sim.Rng, bigMode bool) {
	fx.extras = &extFx{lockerAsset: 0}
	aid, sec := fx.assetID[0], fx.assetID[1]
	err := e.App.CollectorKeeper.WasmSetCollectorLookupTable(e.Ctx, &bindings.MsgSetCollectorLookupTable{AppID: fx.app, CollectorAssetID: aid,
		SecondaryAssetID: sec, SurplusThreshold: sdkmath.NewInt(10000000), DebtThreshold: sdkmath.NewInt(5000000), LockerSavingRate: sdkmath.LegacyZeroDec(),
		LotSize: sdkmath.NewInt(2000000), BidFactor: sdkmath.LegacyMustNewDecFromStr("0.01"), DebtLotSize: sdkmath.NewInt(2000000)})
	if err != nil {
		return
	}
	if _, err := e.App.LockerKeeper.AddWhiteListedAsset(e.Ctx, &lockertypes.MsgAddWhiteListedAssetRequest{From: sim.Addr("lp").String(), AppId: fx.app, AssetId: aid}); err != nil {
		return
	}
	amt := big.NewInt(100000)
	if bigMode {
		amt = pow10(14)
	}
	for _, f := range fx.cfg.Farmers {
		must(e.App.BankKeeper.SendCoins(e.Ctx, sim.Addr("lp"), sim.Addr(f), sdk.NewCoins(coin(fx.cfg.Assets[0].Denom, amt))))
	}
	fx.extras.ready = true
}

func (fx *fixture) extStep(r *runner, e *sim.Env, rng *sim.Rng, cur int, bigMode bool) int {
	if fx.extras == nil || !fx.extras.ready {
		return cur
	}
	aid := fx.assetID[fx.extras.lockerAsset]
	amount := func(small int64, digits int) *big.Int {
		if !bigMode {
			return big.NewInt(1 + rng.Int63n(small))
		}
		return new(big.Int).Add(big.NewInt(1), rndBig(rng, pow10(3+rng.Intn(digits))))
	}
	switch rng.Weighted([]int{5, 3, 2, 4}) {
	case 0, 1, 2: // locker create / deposit / withdraw (never down to zero)
		u := fx.cfg.Farmers[rng.Intn(len(fx.cfg.Farmers))]
		addr := sim.Addr(u)
		m, ok := e.App.LockerKeeper.GetUserLockerAssetMapping(e.Ctx, addr.String(), fx.app, aid)
		amt := amount(500, 9)
		var res sim.Result
		kind := "create"
		if !ok || m.LockerId == 0 {
			res = e.Deliver(&lockertypes.MsgCreateLockerRequest{Depositor: addr.String(), Amount: sdkmath.NewIntFromBigInt(amt), AssetId: aid, AppId: fx.app})
		} else if rng.Intn(3) > 0 {
			kind = "deposit"
			res = e.Deliver(&lockertypes.MsgDepositAssetRequest{Depositor: addr.String(), LockerId: m.LockerId, Amount: sdkmath.NewIntFromBigInt(amt), AssetId: aid, AppId: fx.app})
		} else {
			kind = "withdraw"
			lk, _ := e.App.LockerKeeper.GetLocker(e.Ctx, m.LockerId)
			half := new(big.Int).Rsh(lk.NetBalance.BigInt(), 1)
			if half.Sign() == 0 {
				return cur
			}
			res = e.Deliver(&lockertypes.MsgWithdrawAssetRequest{Depositor: addr.String(), LockerId: m.LockerId, Amount: sdkmath.NewIntFromBigInt(half), AssetId: aid, AppId: fx.app})
		}
		return r.node(cur, "Locker", map[string]interface{}{"u": u, "kind": kind, "ok": res.OK, "err": res.Err}, nil, fx.project(e))
	default: // a locker reward program funded by gc
		denom := []string{"uexta", "uextb", "ushared", "ushared"}[rng.Intn(4)]
		tot := amount(5000, 12)
		days := int64(1 + rng.Intn(4))
		lock := []int64{1, 1, 86400}[rng.Intn(3)]
		res := e.Deliver(rewardstypes.NewMsgActivateExternalRewardsLockers(fx.app, aid, coin(denom, tot), days, lock, sim.Addr("gc")))
		return r.node(cur, "ExtLocker", map[string]interface{}{"denom": denom, "total": sim.Limbs(tot), "days": days, "ok": res.OK, "err": res.Err}, nil, fx.project(e))
	}
}
