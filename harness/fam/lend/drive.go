package lend

import (
	"math/big"

	lendtypes "github.com/comdex-official/comdex/x/lend/types"

	"vh/sim"
)

type driver struct {
	f    *Fix
	e    *sim.Env
	rng  *sim.Rng
	lg   *sim.Log
	mode string
	run  string
	node int
	root int
}

func (d *driver) do(a string, args M) M {
	res := d.f.Exec(d.e, a, args)
	st := d.f.Project(d.e)
	args["mode"] = d.mode
	args["root"] = d.root
	d.node = d.lg.Add(d.node, d.run, a, args, res, st)
	return res
}

func (d *driver) user() string { return d.f.V.Users[d.rng.Intn(len(d.f.V.Users))] }

func (d *driver) asset(id uint64) assetDef {
	for _, a := range d.f.Assets {
		if a.ID == id {
			return a
		}
	}
	panic("asset")
}

func (d *driver) price(id uint64) int64 {
	twa, _ := d.e.App.MarketKeeper.GetTwa(d.e.Ctx, id)
	return int64(twa.Twa)
}

// maxLoan = floor(cin * pIn * dOut * n / (pOut * dIn * den)): the largest loan allowed by the exact LTV inequality.
func (d *driver) maxLoan(cin int64, ain, aout uint64, ltv []int64) int64 {
	num := new(big.Int).SetInt64(cin)
	num.Mul(num, big.NewInt(d.price(ain)))
	num.Mul(num, big.NewInt(d.asset(aout).Dec))
	num.Mul(num, big.NewInt(ltv[0]))
	den := new(big.Int).SetInt64(d.price(aout))
	den.Mul(den, big.NewInt(d.asset(ain).Dec))
	den.Mul(den, big.NewInt(ltv[1]))
	if den.Sign() == 0 {
		return 0
	}
	q := new(big.Int).Quo(num, den)
	if !q.IsInt64() || q.Int64() > 1500000000 {
		return 1500000000
	}
	return q.Int64()
}

func (d *driver) amount() int64 {
	if d.mode == "b" {
		return []int64{100000, 1000000, 2500000, 10000000, 33333333, 70000000}[d.rng.Intn(6)] + int64(d.rng.Intn(1000))
	}
	return []int64{10, 100, 250, 1000, 3333, 7000, 15000}[d.rng.Intn(7)] + int64(d.rng.Intn(10))
}

func (d *driver) around(x int64) int64 {
	switch d.rng.Intn(8) {
	case 0:
		return x - 1
	case 1, 2, 3:
		return x
	case 4, 5:
		return x + 1
	case 6:
		return x/2 + 1
	}
	return x*2 + 1
}

func pos(x int64) int64 {
	if x < 1 {
		return 1
	}
	return x
}

func (d *driver) pair(id uint64) lendtypes.Extended_Pair {
	p, _ := d.e.App.LendKeeper.GetLendPair(d.e.Ctx, id)
	return p
}

// ltvOf returns the fraction the code applies for a pair (plain, e-mode, or the cross-pool product with the first transit asset).
func (d *driver) ltvOf(p lendtypes.Extended_Pair) []int64 {
	rp, _ := d.e.App.LendKeeper.GetAssetRatesParams(d.e.Ctx, p.AssetIn)
	l := frac(rp.Ltv)
	if p.IsEModeEnabled {
		l = frac(rp.ELtv)
	}
	if p.IsInterPool {
		t, _ := d.e.App.LendKeeper.GetAssetRatesParams(d.e.Ctx, d.f.Assets[1].ID)
		tl := frac(t.Ltv)
		l = []int64{l[0] * tl[0], l[1] * tl[1]}
	}
	return l
}

func (d *driver) behaviour(steps int, r int) {
	f, e, rng := d.f, d.e, d.rng
	k := e.App.LendKeeper
	st0 := f.Project(e)
	d.root = d.lg.Add(0, d.run, "Init", M{"mode": d.mode}, M{"ok": true}, M{"cfg": f.Config(), "m": st0["m"], "x": st0["x"]})
	d.node = d.root
	poolAssets := [][2]uint64{{1, 1}, {1, 2}, {1, 3}, {2, 4}, {2, 2}, {2, 3}}
	if f.V.LowT1 { // keep pool 1 short of its first transit asset: cross-pool borrows from pool 1 bridge through the second one
		poolAssets = [][2]uint64{{1, 1}, {1, 1}, {1, 1}, {1, 3}, {2, 4}, {2, 2}, {2, 3}}
	}
	killLeft := 0
	pairsOf := func(asset, pool uint64) []uint64 {
		m, _ := k.GetAssetToPair(e.Ctx, asset, pool)
		return m.PairID
	}
	// a reserve so that lend rewards can be paid when the pool's own interest bucket is short
	if rng.Intn(3) > 0 {
		for _, a := range f.Assets {
			d.do("FundReserve", M{"u": "u1", "asset": int64(a.ID), "da": int64(a.ID), "amt": f.V.Fund / 50})
		}
	}
	d.preface(r)
	for s := 0; s < steps; s++ {
		lends := k.GetAllLend(e.Ctx)
		borrows := k.GetAllBorrow(e.Ctx)
		u := d.user()
		var myL []lendtypes.LendAsset
		for _, l := range lends {
			if f.name(l.Owner) == u || rng.Intn(12) == 0 { // sometimes a foreign position
				myL = append(myL, l)
			}
		}
		var myB []lendtypes.BorrowAsset
		for _, b := range borrows {
			l, _ := k.GetLend(e.Ctx, b.LendingID)
			if f.name(l.Owner) == u || rng.Intn(12) == 0 {
				myB = append(myB, b)
			}
		}
		if killLeft > 0 { // the circuit breaker stays on for a few steps only
			killLeft--
			if killLeft == 0 {
				d.do("Kill", M{"on": false})
			}
		}
		w := []int{10, 5, 8, 3, 14, 4, 5, 8, 8, 3, 2, 3, 2, 12, 4, 5, 7, 1}
		if f.V.LowT1 {
			w[4], w[5], w[15] = 20, 8, 10
		}
		if len(myL) == 0 {
			w[1], w[2], w[3], w[4] = 0, 0, 0, 0
		}
		if len(myB) == 0 {
			w[6], w[7], w[8], w[9], w[10] = 0, 0, 0, 0, 0
		}
		if len(borrows) == 0 {
			w[15] = 0
		}
		switch rng.Weighted(w) {
		case 0: // Lend
			pa := poolAssets[rng.Intn(len(poolAssets))]
			d.do("Lend", M{"u": u, "pool": int64(pa[0]), "asset": int64(pa[1]), "da": int64(pa[1]), "amt": d.amount()})
		case 1: // Deposit
			l := myL[rng.Intn(len(myL))]
			d.do("Deposit", M{"u": u, "lend": int64(l.ID), "da": int64(l.AssetID), "amt": d.amount()})
		case 2: // Withdraw around the available amount
			l := myL[rng.Intn(len(myL))]
			amt := pos(d.around(i64(l.AvailableToBorrow)))
			if rng.Intn(3) == 0 {
				amt = pos(i64(l.AvailableToBorrow) / int64(2+rng.Intn(4)))
			}
			d.do("Withdraw", M{"u": u, "lend": int64(l.ID), "da": int64(l.AssetID), "amt": amt})
		case 3: // CloseLend
			l := myL[rng.Intn(len(myL))]
			d.do("CloseLend", M{"u": u, "lend": int64(l.ID)})
		case 4: // Borrow around the LTV boundary
			l := myL[rng.Intn(len(myL))]
			if f.V.LowT1 && rng.Intn(3) > 0 { // positions of pool 1's main asset: their cross-pool pair bridges through the second transit asset
				for _, x := range myL {
					if x.PoolID == 1 && x.AssetID == 1 && x.AvailableToBorrow.IsPositive() {
						l = x
					}
				}
			}
			ps := pairsOf(l.AssetID, l.PoolID)
			var pid uint64
			if len(ps) > 0 {
				pid = ps[rng.Intn(len(ps))]
				if f.V.LowT1 && rng.Intn(4) > 0 { // more cross-pool borrows where the first transit asset is scarce
					for _, q := range ps {
						if d.pair(q).IsInterPool {
							pid = q
						}
					}
				}
			}
			ca := int64(l.AssetID)
			if rng.Intn(10) == 0 || pid == 0 { // a pair of another asset of the same pool (probe: collateral asset mismatch)
				pa := poolAssets[rng.Intn(len(poolAssets))]
				if ps2 := pairsOf(pa[1], l.PoolID); len(ps2) > 0 {
					pid = ps2[rng.Intn(len(ps2))]
					ca = int64(d.pair(pid).AssetIn)
				}
			}
			if pid == 0 {
				continue
			}
			p := d.pair(pid)
			av := i64(l.AvailableToBorrow)
			cin := pos([]int64{av, av / 2, av / 3, av + 1, d.amount()}[rng.Intn(5)])
			loan := pos(d.around(d.maxLoan(cin, p.AssetIn, p.AssetOut, d.ltvOf(p))))
			if rng.Intn(4) == 0 {
				loan = pos(loan / int64(2+rng.Intn(3)))
			}
			d.do("Borrow", M{"u": u, "lend": int64(l.ID), "pair": int64(pid), "ca": ca, "cin": cin, "la": int64(p.AssetOut), "loan": loan, "stable": rng.Intn(4) == 0,
				"mis": ca != int64(l.AssetID)}) // mis: the offered cToken is not the cToken of the named lend position's asset (input class)
		case 5: // BorrowAlternate
			pa := poolAssets[rng.Intn(len(poolAssets))]
			ps := pairsOf(pa[1], pa[0])
			if len(ps) == 0 {
				continue
			}
			p := d.pair(ps[rng.Intn(len(ps))])
			cin := d.amount()
			loan := pos(d.around(d.maxLoan(cin, p.AssetIn, p.AssetOut, d.ltvOf(p))))
			d.do("BorrowAlt", M{"u": u, "asset": int64(pa[1]), "pool": int64(pa[0]), "da": int64(pa[1]), "cin": cin, "pair": int64(p.Id), "la": int64(p.AssetOut), "loan": loan, "stable": rng.Intn(5) == 0})
		case 6: // DepositBorrow
			b := myB[rng.Intn(len(myB))]
			l, _ := k.GetLend(e.Ctx, b.LendingID)
			amt := pos([]int64{i64(l.AvailableToBorrow), i64(l.AvailableToBorrow) + 1, d.amount() / 4, 1}[rng.Intn(4)])
			d.do("DepositBorrow", M{"u": u, "b": int64(b.ID), "ca": f.assetOfDenom(b.AmountIn.Denom), "amt": amt})
		case 7: // Draw around the boundary (debt = principal + interest + new)
			b := myB[rng.Intn(len(myB))]
			p := d.pair(b.PairID)
			rp, _ := k.GetAssetRatesParams(e.Ctx, p.AssetIn)
			l := frac(rp.Ltv)
			if p.IsEModeEnabled {
				l = frac(rp.ELtv)
			}
			room := d.maxLoan(i64(b.AmountIn.Amount), p.AssetIn, p.AssetOut, l) - i64(b.AmountOut.Amount) - i64(b.InterestAccumulated.TruncateInt())
			amt := pos(d.around(room))
			if rng.Intn(4) == 0 {
				amt = pos(room / int64(2+rng.Intn(3)))
			}
			d.do("Draw", M{"u": u, "b": int64(b.ID), "da": int64(p.AssetOut), "amt": amt})
		case 8: // Repay: part of interest, interest, part of principal, everything, too much
			b := myB[rng.Intn(len(myB))]
			p := d.pair(b.PairID)
			out, it := i64(b.AmountOut.Amount), i64(b.InterestAccumulated.TruncateInt())
			amt := pos([]int64{it, it + 1, it / 2, out / 2, out/3 + it, out + it, out + it + 1, out + it - 1, 1}[rng.Intn(9)])
			d.do("Repay", M{"u": u, "b": int64(b.ID), "da": int64(p.AssetOut), "amt": amt})
		case 9: // CloseBorrow
			b := myB[rng.Intn(len(myB))]
			d.do("CloseBorrow", M{"u": u, "b": int64(b.ID)})
		case 10: // RepayWithdraw
			b := myB[rng.Intn(len(myB))]
			d.do("RepayWithdraw", M{"u": u, "b": int64(b.ID)})
		case 11: // interest / reward calculation message
			d.do("CalcInterest", M{"u": u})
		case 12: // FundReserve / FundModuleAccounts
			a := f.Assets[rng.Intn(4)]
			if rng.Intn(2) == 0 {
				pa := poolAssets[rng.Intn(len(poolAssets))]
				d.do("FundMod", M{"u": u, "pool": int64(pa[0]), "asset": int64(pa[1]), "da": int64(pa[1]), "amt": pos(d.amount() / 10)})
			} else {
				d.do("FundReserve", M{"u": u, "asset": int64(a.ID), "da": int64(a.ID), "amt": pos(d.amount() / 10)})
			}
		case 13: // time passes (interest accrues lazily at the next interaction; V2 liquidation sweep runs in BeginBlock)
			dt := []int64{0, 6, 6, 3600, 86400, 86400, 2592000, 15552000, 31557600}[rng.Intn(9)]
			if r := d.do("Tick", M{"dt": dt}); getb(r, "panic") {
				return // a panicking block hook halts the chain: the behaviour ends here
			}
		case 14: // price move
			a := f.Assets[rng.Intn(4)]
			cur := d.price(a.ID) / PU
			np := []int64{cur + 1, cur - 1, cur * 2, cur / 2, int64(1 + rng.Intn(20))}[rng.Intn(5)]
			if np < 1 {
				np = 1
			}
			if np > 40 {
				np = 40
			}
			d.do("Price", M{"asset": int64(a.ID), "p": np})
		case 15: // V2 liquidation: move prices just below / just above the position's threshold, then the message or the sweep
			b := borrows[rng.Intn(len(borrows))]
			if rng.Intn(2) == 0 { // prefer cross-pool (bridged) positions that are still open
				var br []lendtypes.BorrowAsset
				for _, x := range borrows {
					if x.BridgedAssetAmount.Amount.IsPositive() && !x.IsLiquidated {
						br = append(br, x)
					}
				}
				if len(br) > 0 {
					b = br[rng.Intn(len(br))]
				}
			}
			switch rng.Intn(5) {
			case 0, 1:
				d.aim(b, 1.0, 1.12) // just unsafe
			case 2:
				d.aim(b, 0.90, 1.0) // just safe (inside the band between LTV and threshold)
			case 3:
				d.aim(b, 1.0, 3.0)
			}
			if rng.Intn(3) == 0 { // the per-block sweep (small batch sizes): a burst of blocks
				for n := 2 + rng.Intn(5); n > 0; n-- {
					if r := d.do("Tick", M{"dt": int64(6)}); getb(r, "panic") {
						return
					}
				}
			} else {
				d.do(d.liqAction(), M{"u": "kp", "b": int64(b.ID)})
			}
		case 16: // bid on a running auction (full or partial)
			if f.V.V1 {
				d.bidV1()
				continue
			}
			aucs := e.App.NewaucKeeper.GetAuctions(e.Ctx)
			if len(aucs) == 0 {
				continue
			}
			a := aucs[rng.Intn(len(aucs))]
			left := i64(a.DebtToken.Amount)
			amt := pos([]int64{left, left, left + 1 + int64(rng.Intn(50)), left / 2, left / 3, left - 1, 1, 2, left * 3}[rng.Intn(9)])
			d.do("Bid", M{"u": "kp", "auc": int64(a.AuctionId), "da": f.assetOfDenom(a.DebtToken.Denom), "amt": amt})
		case 17: // circuit breaker on for a few steps
			if killLeft == 0 {
				d.do("Kill", M{"on": true})
				killLeft = 2 + rng.Intn(4)
				if len(borrows) > 0 && rng.Intn(2) == 0 {
					b := borrows[rng.Intn(len(borrows))]
					d.aim(b, 1.0, 3.0)
					if rng.Intn(2) == 0 {
						d.do(d.liqAction(), M{"u": "kp", "b": int64(b.ID)})
					} else {
						d.do("Tick", M{"dt": int64(6)})
					}
				}
			}
		}
	}
}

// aim moves the oracle prices of the position's collateral and debt assets so that debt value / collateral value lands in
// (lo, hi] times the liquidation threshold that applies to the position (plain, e-mode, or the product with the bridged asset's).
func (d *driver) aim(b lendtypes.BorrowAsset, lo, hi float64) {
	k := d.e.App.LendKeeper
	p := d.pair(b.PairID)
	rp, _ := k.GetAssetRatesParams(d.e.Ctx, p.AssetIn)
	thr := rp.LiquidationThreshold.MustFloat64()
	if p.IsEModeEnabled {
		thr = rp.ELiquidationThreshold.MustFloat64()
	}
	if b.BridgedAssetAmount.Amount.IsPositive() {
		if ba := d.f.assetOfDenom(b.BridgedAssetAmount.Denom); ba != 0 {
			brp, _ := k.GetAssetRatesParams(d.e.Ctx, uint64(ba))
			thr *= brp.LiquidationThreshold.MustFloat64()
		}
	}
	debt := float64(i64(b.AmountOut.Amount)+i64(b.InterestAccumulated.TruncateInt())) / float64(d.asset(p.AssetOut).Dec)
	col := float64(i64(b.AmountIn.Amount)) / float64(d.asset(p.AssetIn).Dec)
	if col <= 0 || debt <= 0 || thr <= 0 {
		return
	}
	var cands [][2]int64
	for pi := int64(1); pi <= 40; pi++ {
		for po := int64(1); po <= 40; po++ {
			r := debt * float64(po) / (col * float64(pi)) / thr
			if r > lo && r <= hi {
				cands = append(cands, [2]int64{pi, po})
			}
		}
	}
	if len(cands) == 0 {
		return
	}
	c := cands[d.rng.Intn(len(cands))]
	if d.price(p.AssetIn)/PU != c[0] {
		d.do("Price", M{"asset": int64(p.AssetIn), "p": c[0]})
	}
	if d.price(p.AssetOut)/PU != c[1] {
		d.do("Price", M{"asset": int64(p.AssetOut), "p": c[1]})
	}
}

// preface: a short scripted opening so that the rarer situations are present in every log (the seeded steps follow it)
func (d *driver) preface(r int) {
	f, e, k := d.f, d.e, d.e.App.LendKeeper
	amt := d.amount() + 500
	lastBorrow := func() (lendtypes.BorrowAsset, bool) {
		bs := k.GetAllBorrow(e.Ctx)
		if len(bs) == 0 {
			return lendtypes.BorrowAsset{}, false
		}
		return bs[len(bs)-1], true
	}
	lendID := func(u string, asset, pool uint64) int64 {
		for _, l := range k.GetAllLend(e.Ctx) {
			if f.name(l.Owner) == u && l.AssetID == asset && l.PoolID == pool {
				return int64(l.ID)
			}
		}
		return 0
	}
	switch {
	case f.V.V1 && r%2 == 1:
		// first-generation sweep as a cursor machine: more open borrows than the batch size, full rounds of the cursor while everything is
		// safe, then positions at the middle, the head and the tail of the list become unsafe AFTER the cursor has passed them
		batch := int(f.V.Batch)
		n := 2*batch + 2
		if n > 6 {
			n = 6
		}
		rounds := 2*((n+batch-1)/batch) + 2
		fracs := []int64{60, 90, 75, 70, 88, 65}
		k2 := 0
		for _, pid := range []int64{1, 2} { // list order of the sweep: borrows on TB first, then borrows on TC
			for _, u := range f.V.Users {
				if k2 >= n || (pid == 2 && k2 < 3 && n <= 3) {
					continue
				}
				p := d.pair(uint64(pid))
				if lendID(u, 1, 1) == 0 {
					d.do("Lend", M{"u": u, "pool": int64(1), "asset": int64(1), "da": int64(1), "amt": amt * 3})
				}
				cin := amt
				if ml := d.maxLoan(cin, p.AssetIn, p.AssetOut, d.ltvOf(p)); ml > f.V.Pool/10 { // keep every loan well inside the debt pool's liquidity
					cin = pos(cin * (f.V.Pool / 10) / ml)
				}
				loan := pos(d.maxLoan(cin, p.AssetIn, p.AssetOut, d.ltvOf(p)) * fracs[k2] / 100)
				d.do("Borrow", M{"u": u, "lend": lendID(u, 1, 1), "pair": pid, "ca": int64(1), "cin": cin, "la": int64(p.AssetOut), "loan": loan, "stable": false, "mis": false})
				k2++
			}
		}
		ticks := func(m int) bool {
			for ; m > 0; m-- {
				if r := d.do("Tick", M{"dt": int64(6)}); getb(r, "panic") {
					return false
				}
			}
			return true
		}
		if !ticks(rounds) { // everything safe: the cursor goes round the list
			return
		}
		bs := k.GetAllBorrow(e.Ctx)
		for _, idx := range []int{1, 0, len(bs) - 1} { // middle, head, tail
			if idx < 0 || idx >= len(bs) {
				continue
			}
			if b, found := k.GetBorrow(e.Ctx, bs[idx].ID); found && !b.IsLiquidated {
				d.aim(b, 1.03, 1.12)
				if !ticks(rounds) {
					return
				}
			}
		}
	case f.V.V1:
		// first generation: two users borrow, prices make the positions unsafe, message / sweep, then bids: partial, over-sized closing
		for i, u := range []string{"u1", "u2"} {
			pid := int64(1 + i) // pairs 1 (XA->TB) and 2 (XA->TC)
			p := d.pair(uint64(pid))
			d.do("Lend", M{"u": u, "pool": int64(1), "asset": int64(1), "da": int64(1), "amt": amt * 3})
			loan := pos(d.maxLoan(amt*3, p.AssetIn, p.AssetOut, d.ltvOf(p)) * 95 / 100)
			d.do("Borrow", M{"u": u, "lend": lendID(u, 1, 1), "pair": pid, "ca": int64(1), "cin": amt * 3, "la": int64(p.AssetOut), "loan": loan, "stable": false, "mis": false})
		}
		if b, ok := lastBorrow(); ok {
			d.aim(b, 0.93, 1.0)
			d.do("LiquidateV1", M{"u": "kp", "b": int64(b.ID)})
			d.do("Tick", M{"dt": int64(6)}) // the sweep looks at the nearly unsafe positions too
			d.do("Tick", M{"dt": int64(6)})
			d.aim(b, 1.02, 1.2)
			d.do("Kill", M{"on": true}) // circuit breaker on: neither the sweep nor the message may seize the unsafe positions
			d.do("Tick", M{"dt": int64(6)})
			d.do("Tick", M{"dt": int64(6)})
			d.do("LiquidateV1", M{"u": "kp", "b": int64(b.ID)})
			d.do("Kill", M{"on": false})
			if r%2 == 0 {
				d.do("LiquidateV1", M{"u": "kp", "b": int64(b.ID)})
			}
			d.do("Tick", M{"dt": int64(6)})
			d.do("Tick", M{"dt": int64(6)})
			for _, a := range e.App.AuctionKeeper.GetDutchLendAuctions(e.Ctx, f.App) {
				left := i64(a.OutflowTokenCurrentAmount.Amount)
				da := f.assetOfDenom(a.OutflowTokenCurrentAmount.Denom)
				d.do("BidV1", M{"u": "kp", "auc": int64(a.AuctionId), "map": int64(a.AuctionMappingId), "da": da, "amt": pos(left / 4)})
				d.do("Tick", M{"dt": int64(300)})
				d.do("BidV1", M{"u": "kp", "auc": int64(a.AuctionId), "map": int64(a.AuctionMappingId), "da": da, "amt": pos(left - left/4)})
			}
		}
	case f.V.LowT1:
		// cross-pool borrow from pool 1 while pool 1 lacks its first transit asset: bridged through the second one; then a liquidation
		// request with the ratio just below the applicable threshold (nothing may happen), just above it (seizure), and a closing bid
		d.do("Lend", M{"u": "u1", "pool": int64(1), "asset": int64(1), "da": int64(1), "amt": amt})
		p := d.pair(5)
		l := d.ltvOf(p)
		t2, _ := k.GetAssetRatesParams(e.Ctx, f.Assets[2].ID)
		l2 := frac(t2.Ltv)
		t1, _ := k.GetAssetRatesParams(e.Ctx, f.Assets[1].ID)
		l1 := frac(t1.Ltv)
		loan := pos(d.maxLoan(amt, p.AssetIn, p.AssetOut, []int64{l[0] * l2[0] * l1[1], l[1] * l2[1] * l1[0]}) - 1)
		d.do("Borrow", M{"u": "u1", "lend": lendID("u1", 1, 1), "pair": int64(5), "ca": int64(1), "cin": amt, "la": int64(p.AssetOut), "loan": loan, "stable": false, "mis": false})
		if b, ok := lastBorrow(); ok && b.PairID == 5 {
			d.aim(b, 0.92, 1.0)
			d.do("Liquidate", M{"u": "kp", "b": int64(b.ID)})
			d.do("Tick", M{"dt": int64(6)})
			d.aim(b, 1.0, 1.1)
			if r%4 == 1 {
				d.do("Liquidate", M{"u": "kp", "b": int64(b.ID)})
			} else {
				d.do("Tick", M{"dt": int64(6)})
				d.do("Tick", M{"dt": int64(6)})
			}
			for _, a := range e.App.NewaucKeeper.GetAuctions(e.Ctx) {
				d.do("Bid", M{"u": "kp", "auc": int64(a.AuctionId), "da": f.assetOfDenom(a.DebtToken.Denom), "amt": pos(i64(a.DebtToken.Amount) / 3)})
				d.do("Tick", M{"dt": int64(600)})
				d.do("Bid", M{"u": "kp", "auc": int64(a.AuctionId), "da": f.assetOfDenom(a.DebtToken.Denom), "amt": i64(a.DebtToken.Amount) + 5})
			}
		}
	case r%4 == 2:
		// several positions become unsafe at once; the sweep (batch 1..3) needs more than one block for them
		p := d.pair(2)
		for _, u := range f.V.Users {
			d.do("Lend", M{"u": u, "pool": int64(1), "asset": int64(1), "da": int64(1), "amt": amt})
			loan := pos(d.maxLoan(amt, p.AssetIn, p.AssetOut, d.ltvOf(p)) * 9 / 10)
			d.do("Borrow", M{"u": u, "lend": lendID(u, 1, 1), "pair": int64(2), "ca": int64(1), "cin": amt, "la": int64(p.AssetOut), "loan": loan, "stable": false, "mis": false})
		}
		// an e-mode position between the plain and the e-mode threshold: neither the message nor the sweep may seize it
		pe := d.pair(11)
		d.do("Lend", M{"u": "u1", "pool": int64(1), "asset": int64(2), "da": int64(2), "amt": amt * 2})
		le := pos(d.maxLoan(amt*2, pe.AssetIn, pe.AssetOut, d.ltvOf(pe)) * 9 / 10)
		d.do("Borrow", M{"u": "u1", "lend": lendID("u1", 2, 1), "pair": int64(11), "ca": int64(2), "cin": amt * 2, "la": int64(pe.AssetOut), "loan": le, "stable": false, "mis": false})
		if b, ok := lastBorrow(); ok && b.PairID == 11 {
			d.aim(b, 0.93, 0.99)
			d.do(d.liqAction(), M{"u": "kp", "b": int64(b.ID)})
			d.do("Tick", M{"dt": int64(6)})
			d.do("Tick", M{"dt": int64(6)})
			d.do("Tick", M{"dt": int64(6)})
		}
		if bs := k.GetAllBorrow(e.Ctx); len(bs) > 0 {
			d.aim(bs[0], 1.05, 1.5)
			for n := 0; n < 7; n++ {
				d.do("Tick", M{"dt": int64(6)})
			}
		}
	case r%4 == 0:
		// interest and lend rewards: a year passes on a well-used pool, then the positions are touched
		d.do("Lend", M{"u": "u2", "pool": int64(1), "asset": int64(2), "da": int64(2), "amt": amt * 10})
		d.do("Lend", M{"u": "u1", "pool": int64(1), "asset": int64(1), "da": int64(1), "amt": amt * 4})
		p := d.pair(1)
		loan := pos(d.maxLoan(amt*4, p.AssetIn, p.AssetOut, d.ltvOf(p)) * 8 / 10)
		d.do("Borrow", M{"u": "u1", "lend": lendID("u1", 1, 1), "pair": int64(1), "ca": int64(1), "cin": amt * 4, "la": int64(p.AssetOut), "loan": loan, "stable": false, "mis": false})
		d.do("Tick", M{"dt": int64(31557600)})
		d.do("CalcInterest", M{"u": "u1"})
		if b, ok := lastBorrow(); ok {
			it := i64(b.InterestAccumulated.TruncateInt())
			d.do("Repay", M{"u": "u1", "b": int64(b.ID), "da": int64(p.AssetOut), "amt": pos(it + loan/10)})
			d.do("Tick", M{"dt": int64(15552000)})
			d.do("CalcInterest", M{"u": "u2"})
			d.do("Draw", M{"u": "u1", "b": int64(b.ID), "da": int64(p.AssetOut), "amt": pos(loan / 20)})
			d.do("Deposit", M{"u": "u2", "lend": lendID("u2", 2, 1), "da": int64(2), "amt": int64(7)})
		}
	}
}

func (d *driver) liqAction() string {
	if d.f.V.V1 {
		return "LiquidateV1"
	}
	return "Liquidate"
}

// bidV1: first-generation lend Dutch bid; the amount is collateral asked for: tiny, partial, everything left (over-sized for the
// remaining target while the posted price is above the oracle price), more than left
func (d *driver) bidV1() {
	aucs := d.e.App.AuctionKeeper.GetDutchLendAuctions(d.e.Ctx, d.f.App)
	if len(aucs) == 0 {
		return
	}
	a := aucs[d.rng.Intn(len(aucs))]
	left := i64(a.OutflowTokenCurrentAmount.Amount)
	amt := pos([]int64{left, left, left / 2, left / 3, left - 1, 1, 3, left + 1, left * 3 / 4}[d.rng.Intn(9)])
	d.do("BidV1", M{"u": "kp", "auc": int64(a.AuctionId), "map": int64(a.AuctionMappingId), "da": d.f.assetOfDenom(a.OutflowTokenCurrentAmount.Denom), "amt": amt})
}
