package lend

import (
	"bufio"
	"encoding/json"
	"flag"
	"fmt"
	"os"

	"vh/sim"
)

// canon renders a decoded JSON value canonically (object keys sorted by encoding/json).
func canon(v interface{}) string {
	b, err := json.Marshal(v)
	must(err)
	var x interface{}
	must(json.Unmarshal(b, &x))
	b, err = json.Marshal(x)
	must(err)
	return string(b)
}

type edge struct {
	A    string `json:"a"`
	Args M      `json:"args"`
	OK   bool   `json:"ok"`
}

// normArgs turns JSON numbers (float64) into int64 so that the log carries integers.
func normArgs(a M) M {
	out := M{}
	for k, v := range a {
		if fl, ok := v.(float64); ok {
			out[k] = int64(fl)
		} else {
			out[k] = v
		}
	}
	return out
}

func Main(args []string) int {
	fs := flag.NewFlagSet("lend", flag.ExitOnError)
	out := fs.String("out", "lend.ndjson", "output tree log")
	initOut := fs.String("init", "", "write the root node (cfg + initial state of variant w) as one JSON document and exit")
	trans := fs.String("trans", "", "file with TLC transition lines of MC_Lend (walk mode)")
	seed := fs.Int64("seed", 1, "seed")
	runsS := fs.Int("runs-small", 6, "small-mode random behaviours")
	runsB := fs.Int("runs-big", 3, "big-mode random behaviours")
	runsV1 := fs.Int("runs-v1", 0, "small-mode behaviours of the first-generation liquidation / lend auction profile")
	steps := fs.Int("steps", 120, "steps per behaviour")
	maxWalk := fs.Int("max-walk", 200000, "bound on walked transitions")
	fs.Parse(args)

	if *initOut != "" {
		f := NewFix(Variants["w"])
		st := f.Project(f.E)
		must(sim.WriteJSON(*initOut, M{"cfg": f.Config(), "st": st}))
		fmt.Println("lend: init written")
		return 0
	}

	lg := &sim.Log{}
	walked, wstates := 0, 0
	if *trans != "" {
		graph := map[string][]edge{}
		dup := map[string]bool{}
		fh, err := os.Open(*trans)
		if err != nil {
			fmt.Fprintln(os.Stderr, err)
			return 2
		}
		sc := bufio.NewScanner(fh)
		sc.Buffer(make([]byte, 1<<20), 1<<28)
		for sc.Scan() {
			js := sim.TLCJSON(sc.Text())
			if js == "" {
				continue
			}
			var t struct {
				A    string      `json:"a"`
				Args M           `json:"args"`
				Pre  interface{} `json:"pre"`
				OK   bool        `json:"ok"`
			}
			if err := json.Unmarshal([]byte(js), &t); err != nil {
				fmt.Fprintln(os.Stderr, "bad transition:", err)
				return 2
			}
			k := canon(t.Pre)
			ek := k + "|" + t.A + "|" + canon(t.Args)
			if dup[ek] { // the same (state, action) reached at another depth of the bounded search
				continue
			}
			dup[ek] = true
			graph[k] = append(graph[k], edge{A: t.A, Args: normArgs(t.Args), OK: t.OK})
		}
		fh.Close()
		f := NewFix(Variants["w"])
		st0 := f.Project(f.E)
		root := lg.Add(0, "walk", "Init", M{"mode": "w"}, M{"ok": true}, M{"cfg": f.Config(), "m": st0["m"], "x": st0["x"]})
		seen := map[string]bool{}
		var dfs func(e *sim.Env, node int, key string)
		dfs = func(e *sim.Env, node int, key string) {
			if seen[key] {
				return
			}
			seen[key] = true
			wstates++
			for _, ed := range graph[key] {
				if walked >= *maxWalk {
					return
				}
				b := e.Branch()
				res := f.Exec(b, ed.A, ed.Args)
				res["mok"] = ed.OK
				st := f.Project(b)
				walked++
				args := M{"mode": "w", "root": root}
				for k, v := range ed.Args {
					args[k] = v
				}
				id := lg.Add(node, "walk", ed.A, args, res, st)
				dfs(b, id, canon(st["m"]))
			}
		}
		dfs(f.E, root, canon(st0["m"]))
		if _, ok := graph[canon(st0["m"])]; !ok && len(graph) > 0 {
			fmt.Fprintln(os.Stderr, "lend: the model's initial state is not the projection of the real initial state")
			return 2
		}
	}

	rng := sim.NewRng(*seed)
	nrun := 0
	for _, mode := range []string{"s", "b", "v"} {
		n := *runsS
		if mode == "b" {
			n = *runsB
		}
		if mode == "v" {
			n = *runsV1
		}
		for r := 0; r < n; r++ {
			nrun++
			v := Variants[map[string]string{"s": "s", "b": "b", "v": "s"}[mode]]
			v.V1 = mode == "v"
			v.Batch = uint64(1 + rng.Intn(3)) // small sweep batches: the liveness bound is exercised
			if v.V1 && r%2 == 1 { // cursor behaviours: batch sizes 1 and 2 against 4 / 6 open borrows
				v.Batch = uint64(1 + (r/2)%2)
			}
			v.LowT1 = mode == "s" && r%2 == 1
			f := NewFix(v)
			d := &driver{f: f, e: f.E, rng: rng, lg: lg, mode: map[string]string{"s": "s", "b": "b", "v": "s"}[mode], run: fmt.Sprintf("drive:%s:%d:%d", mode, *seed, r)}
			d.behaviour(*steps, r)
		}
	}
	if err := lg.Write(*out); err != nil {
		fmt.Fprintln(os.Stderr, err)
		return 2
	}
	fmt.Printf("lend: walked=%d walk_states=%d runs=%d nodes=%d\n", walked, wstates, nrun, len(lg.Nodes))
	return 0
}
