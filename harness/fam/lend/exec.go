package lend

import (
	"fmt"
	"time"

	sdk "github.com/cosmos/cosmos-sdk/types"

	abci "github.com/cometbft/cometbft/abci/types"

	auctionv1 "github.com/comdex-official/comdex/x/auction"
	auctionv1types "github.com/comdex-official/comdex/x/auction/types"
	auctypes "github.com/comdex-official/comdex/x/auctionsV2/types"
	liquidationv1 "github.com/comdex-official/comdex/x/liquidation"
	liqv1types "github.com/comdex-official/comdex/x/liquidation/types"
	esmtypes "github.com/comdex-official/comdex/x/esm/types"
	lendtypes "github.com/comdex-official/comdex/x/lend/types"
	liqtypes "github.com/comdex-official/comdex/x/liquidationsV2/types"

	"vh/sim"
)

func geti(a M, k string) int64 {
	switch v := a[k].(type) {
	case int64:
		return v
	case int:
		return int64(v)
	case float64:
		return int64(v)
	case nil:
		return 0
	}
	panic(fmt.Sprintf("arg %s: unexpected %T", k, a[k]))
}
func gets(a M, k string) string { s, _ := a[k].(string); return s }
func getb(a M, k string) bool   { b, _ := a[k].(bool); return b }

func resOf(r sim.Result) M {
	return M{"ok": r.OK, "code": r.Code, "panic": r.Panic, "err": trunc(r.Err, 160)}
}

func trunc(s string, n int) string {
	if len(s) > n {
		return s[:n]
	}
	return s
}

// Exec performs one action on the real application (msg router for every user message).
func (f *Fix) Exec(e *sim.Env, a string, args M) M {
	addr := func() string { return e.Users[gets(args, "u")].String() }
	coin := func(assetKey, amtKey string) sdk.Coin {
		return sdk.NewInt64Coin(f.denom(uint64(geti(args, assetKey))), geti(args, amtKey))
	}
	ccoin := func(assetKey, amtKey string) sdk.Coin {
		return sdk.NewInt64Coin(f.cdenom(uint64(geti(args, assetKey))), geti(args, amtKey))
	}
	u64 := func(k string) uint64 { return uint64(geti(args, k)) }
	switch a {
	case "Lend":
		return resOf(e.Deliver(lendtypes.NewMsgLend(addr(), u64("asset"), coin("da", "amt"), u64("pool"), f.App)))
	case "Deposit":
		return resOf(e.Deliver(lendtypes.NewMsgDeposit(addr(), u64("lend"), coin("da", "amt"))))
	case "Withdraw":
		return resOf(e.Deliver(lendtypes.NewMsgWithdraw(addr(), u64("lend"), coin("da", "amt"))))
	case "CloseLend":
		return resOf(e.Deliver(lendtypes.NewMsgCloseLend(addr(), u64("lend"))))
	case "Borrow":
		return resOf(e.Deliver(lendtypes.NewMsgBorrow(addr(), u64("lend"), u64("pair"), getb(args, "stable"), ccoin("ca", "cin"), coin("la", "loan"))))
	case "BorrowAlt":
		return resOf(e.Deliver(lendtypes.NewMsgBorrowAlternate(addr(), u64("asset"), u64("pool"), coin("da", "cin"), u64("pair"), getb(args, "stable"), coin("la", "loan"), f.App)))
	case "DepositBorrow":
		return resOf(e.Deliver(lendtypes.NewMsgDepositBorrow(addr(), u64("b"), ccoin("ca", "amt"))))
	case "Draw":
		return resOf(e.Deliver(lendtypes.NewMsgDraw(addr(), u64("b"), coin("da", "amt"))))
	case "Repay":
		return resOf(e.Deliver(lendtypes.NewMsgRepay(addr(), u64("b"), coin("da", "amt"))))
	case "CloseBorrow":
		return resOf(e.Deliver(lendtypes.NewMsgCloseBorrow(addr(), u64("b"))))
	case "RepayWithdraw":
		return resOf(e.Deliver(lendtypes.NewMsgRepayWithdraw(addr(), u64("b"))))
	case "CalcInterest":
		return resOf(e.Deliver(lendtypes.NewMsgCalculateInterestAndRewards(addr())))
	case "FundMod":
		return resOf(e.Deliver(lendtypes.NewMsgFundModuleAccounts(u64("pool"), u64("asset"), addr(), coin("da", "amt"))))
	case "FundReserve":
		return resOf(e.Deliver(lendtypes.NewMsgFundReserveAccounts(u64("asset"), addr(), coin("da", "amt"))))
	case "Liquidate":
		return resOf(e.Deliver(liqtypes.NewMsgLiquidateInternalKeeperRequest(e.Users[gets(args, "u")], 1, u64("b"))))
	case "LiquidateV1": // first-generation liquidation request for a borrow position
		return resOf(e.Deliver(liqv1types.NewMsgLiquidateBorrowRequest(e.Users[gets(args, "u")], u64("b"))))
	case "BidV1": // first-generation lend Dutch bid: the amount is the COLLATERAL asked for
		return resOf(e.Deliver(auctionv1types.NewMsgPlaceDutchLendBid(addr(), u64("auc"), coin("da", "amt"), f.App, u64("map"))))
	case "Bid":
		return resOf(e.Deliver(auctypes.NewMsgPlaceMarketBid(addr(), u64("auc"), coin("da", "amt"))))
	case "Kill": // environment: the app's circuit breaker (admin check is C12's matter)
		_ = e.App.EsmKeeper.SetKillSwitchData(e.Ctx, esmtypes.KillSwitchParams{AppId: f.App, BreakerEnable: getb(args, "on")})
		return M{"ok": true}
	case "Price": // environment: oracle price move
		f.SetPrice(e.Ctx, u64("asset"), geti(args, "p"))
		for _, as := range f.Assets {
			if as.ID == u64("asset") {
				f.SetPrice(e.Ctx, as.CID, geti(args, "p"))
			}
		}
		return M{"ok": true}
	case "Tick": // environment: block boundary with a time gap (all end/begin blockers of the real app)
		br := e.NextBlock(time.Duration(geti(args, "dt")) * time.Second)
		if !br.Panic && f.V.V1 { // the first-generation hooks are not wired into the app: called directly, as the repository's tests do
			func() {
				defer func() {
					if r := recover(); r != nil {
						br = sim.BlockResult{Panic: true, Err: fmt.Sprint(r)}
					}
				}()
				liquidationv1.BeginBlocker(e.Ctx, abci.RequestBeginBlock{}, e.App.LiquidationKeeper)
				auctionv1.BeginBlocker(e.Ctx, e.App.AuctionKeeper, e.App.AssetKeeper, e.App.CollectorKeeper, e.App.EsmKeeper)
			}()
		}
		return M{"ok": !br.Panic, "panic": br.Panic, "err": trunc(br.Err, 160)}
	case "Accrue": // environment (walk mode only): interest of d whole coins lands on a borrow position
		b, found := e.App.LendKeeper.GetBorrow(e.Ctx, u64("b"))
		if !found || b.IsLiquidated {
			return M{"ok": false}
		}
		b.InterestAccumulated = b.InterestAccumulated.Add(sdk.NewDec(geti(args, "d")))
		e.App.LendKeeper.SetBorrow(e.Ctx, b)
		return M{"ok": true}
	}
	panic("unknown action " + a)
}

var _ = sim.GenesisTime
