package lend

import (
	"sort"

	sdk "github.com/cosmos/cosmos-sdk/types"

	auctionv1types "github.com/comdex-official/comdex/x/auction/types"
	auctypes "github.com/comdex-official/comdex/x/auctionsV2/types"
	lendtypes "github.com/comdex-official/comdex/x/lend/types"
	liqv1types "github.com/comdex-official/comdex/x/liquidation/types"
	liqtypes "github.com/comdex-official/comdex/x/liquidationsV2/types"

	"vh/sim"
)

type M = map[string]interface{}

func i64(x sdk.Int) int64 {
	if x.IsNil() {
		return 0
	}
	if !x.IsInt64() {
		panic("amount does not fit int64: " + x.String())
	}
	v := x.Int64()
	if v > 2000000000 || v < -2000000000 {
		panic("amount beyond the 32-bit domain of the trace spec: " + x.String())
	}
	return v
}

func ids(xs []uint64) []int64 {
	out := make([]int64, 0, len(xs))
	for _, x := range xs {
		out = append(out, int64(x))
	}
	return out
}

// Config projects the lend configuration (cfg in the root node of every run).
func (f *Fix) Config() M {
	ctx, k := f.E.Ctx, f.E.App.LendKeeper
	var assets []M
	for _, a := range f.Assets {
		rp, _ := k.GetAssetRatesParams(ctx, a.ID)
		assets = append(assets, M{"id": int64(a.ID), "dec": a.Dec, "c": int64(a.CID), "ltv": frac(rp.Ltv), "eltv": frac(rp.ELtv),
			"liq": frac(rp.LiquidationThreshold), "eliq": frac(rp.ELiquidationThreshold), "pen": frac(rp.LiquidationPenalty),
			"epen": frac(rp.ELiquidationPenalty), "bonus": frac(rp.LiquidationBonus), "stable": rp.EnableStableBorrow})
	}
	var pools []M
	for _, p := range k.GetPools(ctx) {
		var as []int64
		t1, t2 := int64(0), int64(0)
		for _, d := range p.AssetData {
			as = append(as, int64(d.AssetID))
			if d.AssetTransitType == 2 {
				t1 = int64(d.AssetID)
			}
			if d.AssetTransitType == 3 {
				t2 = int64(d.AssetID)
			}
		}
		pools = append(pools, M{"id": int64(p.PoolID), "assets": as, "t1": t1, "t2": t2})
	}
	var pairs []M
	for _, p := range k.GetLendPairs(ctx) {
		pairs = append(pairs, M{"id": int64(p.Id), "ain": int64(p.AssetIn), "aout": int64(p.AssetOut), "inter": p.IsInterPool,
			"opool": int64(p.AssetOutPoolID), "emode": p.IsEModeEnabled})
	}
	var a2p []M
	for _, m := range k.GetAllAssetToPair(ctx) {
		a2p = append(a2p, M{"asset": int64(m.AssetID), "pool": int64(m.PoolID), "pairs": ids(m.PairID)})
	}
	wl, _ := f.E.App.NewliqKeeper.GetLiquidationWhiteListing(ctx, f.App)
	prem, disc := []int64{1, 1}, []int64{1, 1}
	if wl.DutchAuctionParam != nil {
		prem, disc = frac(wl.DutchAuctionParam.Premium), frac(wl.DutchAuctionParam.Discount)
	}
	ap, _ := f.E.App.NewaucKeeper.GetAuctionParams(ctx)
	v1b, v1c := []int64{1, 1}, []int64{1, 1}
	if lap, found := k.GetAddAuctionParamsData(ctx, f.App); found {
		v1b, v1c = frac(lap.Buffer), frac(lap.Cusp)
	}
	return M{"assets": assets, "pools": pools, "pairs": pairs, "a2p": a2p, "users": f.V.Users, "app": int64(f.App), "pu": int64(PU), "v": f.V.Name,
		"batch": int64(f.E.App.NewliqKeeper.GetParams(ctx).LiquidationBatchSize), "premium": prem, "discount": disc,
		"dur": int64(ap.AuctionDurationSeconds), "dutch": wl.IsDutchActivated, "v1": f.V.V1, "v1buffer": v1b, "v1cusp": v1c,
		"batch1": int64(f.E.App.LiquidationKeeper.GetParams(ctx).LiquidationBatchSize)}
}

func (f *Fix) poolModule(ctx sdk.Context, pool uint64) string {
	p, _ := f.E.App.LendKeeper.GetPool(ctx, pool)
	return p.ModuleName
}

// Project maps the real state onto the variables of Lend.tla ("m") plus extra observations ("x").
func (f *Fix) Project(e *sim.Env) M {
	ctx, k, bank := e.Ctx, e.App.LendKeeper, e.App.BankKeeper
	bal := func(addr sdk.AccAddress, denom string) int64 { return i64(bank.GetBalance(ctx, addr, denom).Amount) }

	var price []M
	for _, a := range f.Assets {
		twa, found := e.App.MarketKeeper.GetTwa(ctx, a.ID)
		p := int64(0)
		if found {
			p = int64(twa.Twa)
		}
		price = append(price, M{"a": int64(a.ID), "p": p, "act": found && twa.IsPriceActive})
	}
	lends := []M{}
	for _, l := range k.GetAllLend(ctx) {
		lends = append(lends, M{"id": int64(l.ID), "o": f.name(l.Owner), "pool": int64(l.PoolID), "asset": int64(l.AssetID),
			"ain": i64(l.AmountIn.Amount), "av": i64(l.AvailableToBorrow), "rew": i64(l.TotalRewards)})
	}
	sort.Slice(lends, func(i, j int) bool { return lends[i]["id"].(int64) < lends[j]["id"].(int64) })
	borrows := []M{}
	xb := []M{}
	// handed over to a liquidation auction = the liquidation module holds a locked vault for the borrow position
	underV1 := map[uint64]bool{} // first generation: the liquidation module holds a locked vault (kind borrow) for the position
	v1lv := []M{}
	for _, lv := range e.App.LiquidationKeeper.GetLockedVaults(ctx) {
		if lv.GetBorrowMetaData() == nil {
			continue
		}
		underV1[lv.OriginalVaultId] = true
		v1lv = append(v1lv, M{"id": int64(lv.LockedVaultId), "b": int64(lv.OriginalVaultId), "owner": f.name(lv.Owner), "ain": i64(lv.AmountIn), "aout": i64(lv.AmountOut),
			"uout": i64(lv.UpdatedAmountOut), "prog": lv.IsAuctionInProgress, "done": lv.IsAuctionComplete, "lend": int64(lv.GetBorrowMetaData().LendingId)})
	}
	sort.Slice(v1lv, func(i, j int) bool { return v1lv[i]["id"].(int64) < v1lv[j]["id"].(int64) })
	handed := map[uint64]bool{}
	for _, lv := range e.App.NewliqKeeper.GetLockedVaults(ctx) {
		if lv.InitiatorType == "lend" {
			handed[lv.OriginalVaultId] = true
		}
	}
	for _, b := range k.GetAllBorrow(ctx) {
		iT := int64(0)
		iF := int64(0)
		if !b.InterestAccumulated.IsNil() {
			iT = i64(b.InterestAccumulated.TruncateInt())
			if !b.InterestAccumulated.Equal(sdk.NewDecFromInt(b.InterestAccumulated.TruncateInt())) {
				iF = 1
			}
		}
		borrows = append(borrows, M{"id": int64(b.ID), "lend": int64(b.LendingID), "pair": int64(b.PairID), "cin": i64(b.AmountIn.Amount),
			"ca": f.assetOfDenom(b.AmountIn.Denom), "out": i64(b.AmountOut.Amount), "oa": f.assetOfDenom(b.AmountOut.Denom), "iT": iT, "liq": b.IsLiquidated, "ho": handed[b.ID], "uv": underV1[b.ID], "st": b.IsStableBorrow,
			"bra": f.assetOfDenom(b.BridgedAssetAmount.Denom), "bram": i64(b.BridgedAssetAmount.Amount)})
		tr, _ := k.GetBorrowInterestTracker(ctx, b.ID)
		rT := int64(0)
		if !tr.ReservePoolInterest.IsNil() {
			rT = i64(tr.ReservePoolInterest.TruncateInt())
		}
		xb = append(xb, M{"id": int64(b.ID), "iF": iF, "rT": rT})
	}
	sort.Slice(borrows, func(i, j int) bool { return borrows[i]["id"].(int64) < borrows[j]["id"].(int64) })
	sort.Slice(xb, func(i, j int) bool { return xb[i]["id"].(int64) < xb[j]["id"].(int64) })

	stats := []M{}
	pb := []M{}
	for _, p := range k.GetPools(ctx) {
		maddr := sim.ModAddr(p.ModuleName)
		for _, d := range p.AssetData {
			s, _ := k.GetAssetStatsByPoolIDAndAssetID(ctx, p.PoolID, d.AssetID)
			stats = append(stats, M{"pool": int64(p.PoolID), "asset": int64(d.AssetID), "tl": i64(s.TotalLend), "tb": i64(s.TotalBorrowed),
				"tsb": i64(s.TotalStableBorrowed), "tia": i64(s.TotalInterestAccumulated), "lids": ids(s.LendIds), "bids": ids(s.BorrowIds)})
			pb = append(pb, M{"pool": int64(p.PoolID), "asset": int64(d.AssetID), "amt": bal(maddr, f.denom(d.AssetID)), "c": bal(maddr, f.cdenom(d.AssetID))})
		}
	}
	ub := []M{}
	for _, u := range f.V.Users {
		for _, a := range f.Assets {
			ub = append(ub, M{"u": u, "asset": int64(a.ID), "amt": bal(e.Users[u], a.Denom), "c": bal(e.Users[u], a.CDenom)})
		}
	}
	res, rout, auc, cs := []M{}, []M{}, []M{}, []M{}
	for _, a := range f.Assets {
		res = append(res, M{"asset": int64(a.ID), "amt": bal(sim.ModAddr(lendtypes.ModuleName), a.Denom)})
		rs, _ := k.GetAllReserveStatsByAssetID(ctx, a.ID)
		rout = append(rout, M{"asset": int64(a.ID), "amt": i64(rs.TotalAmountOutToLenders)})
		auc = append(auc, M{"asset": int64(a.ID), "amt": bal(sim.ModAddr(auctypes.ModuleName), a.Denom)})
		cs = append(cs, M{"asset": int64(a.ID), "amt": i64(bank.GetSupply(ctx, a.CDenom).Amount)})
	}
	// V2 liquidation / auction records of lend-initiated seizures
	lvs := []M{}
	for _, lv := range e.App.NewliqKeeper.GetLockedVaults(ctx) {
		if lv.InitiatorType != "lend" {
			continue
		}
		lvs = append(lvs, M{"id": int64(lv.LockedVaultId), "b": int64(lv.OriginalVaultId), "owner": f.name(lv.Owner), "coll": i64(lv.CollateralToken.Amount),
			"collA": f.assetOfDenom(lv.CollateralToken.Denom), "debt": i64(lv.DebtToken.Amount), "target": i64(lv.TargetDebt.Amount), "debtA": f.assetOfDenom(lv.TargetDebt.Denom),
			"fee": i64(lv.FeeToBeCollected), "bonus": i64(lv.BonusToBeGiven), "ikeeper": lv.IsInternalKeeper, "keeper": f.name(lv.InternalKeeperAddress), "dutch": lv.AuctionType})
	}
	sort.Slice(lvs, func(i, j int) bool { return lvs[i]["id"].(int64) < lvs[j]["id"].(int64) })
	aucs := []M{}
	for _, a := range e.App.NewaucKeeper.GetAuctions(ctx) {
		lv, _ := e.App.NewliqKeeper.GetLockedVault(ctx, a.AppId, a.LockedVaultId)
		aucs = append(aucs, M{"id": int64(a.AuctionId), "lv": int64(a.LockedVaultId), "b": int64(lv.OriginalVaultId), "debtLeft": i64(a.DebtToken.Amount), "debtA": f.assetOfDenom(a.DebtToken.Denom),
			"collLeft": i64(a.CollateralToken.Amount), "collA": f.assetOfDenom(a.CollateralToken.Denom), "lend": lv.InitiatorType == "lend", "dutch": a.AuctionType,
			"price": sim.Limbs(a.CollateralTokenAuctionPrice.BigInt()), "init": sim.Limbs(a.CollateralTokenInitialPrice.BigInt()), "bonusLeft": i64(a.BonusAmount),
			"start": int64(a.StartTime.Sub(sim.GenesisTime).Seconds()), "end": int64(a.EndTime.Sub(sim.GenesisTime).Seconds())})
	}
	sort.Slice(aucs, func(i, j int) bool { return aucs[i]["id"].(int64) < aucs[j]["id"].(int64) })
	v1aucs := []M{}
	for _, a := range e.App.AuctionKeeper.GetDutchLendAuctions(ctx, f.App) {
		lv, _ := e.App.LiquidationKeeper.GetLockedVault(ctx, a.AppId, a.LockedVaultId)
		v1aucs = append(v1aucs, M{"id": int64(a.AuctionId), "map": int64(a.AuctionMappingId), "lv": int64(a.LockedVaultId), "b": int64(lv.OriginalVaultId), "owner": f.name(a.VaultOwner.String()),
			"outInit": i64(a.OutflowTokenInitAmount.Amount), "outLeft": i64(a.OutflowTokenCurrentAmount.Amount), "collA": f.assetOfDenom(a.OutflowTokenCurrentAmount.Denom),
			"target": i64(a.InflowTokenTargetAmount.Amount), "got": i64(a.InflowTokenCurrentAmount.Amount), "debtA": f.assetOfDenom(a.InflowTokenTargetAmount.Denom),
			"price": sim.Limbs(a.OutflowTokenCurrentPrice.BigInt()), "init": sim.Limbs(a.OutflowTokenInitialPrice.BigInt()), "endp": sim.Limbs(a.OutflowTokenEndPrice.BigInt()),
			"dprice": sim.Limbs(a.InflowTokenCurrentPrice.BigInt()), "start": int64(a.StartTime.Sub(sim.GenesisTime).Seconds()), "end": int64(a.EndTime.Sub(sim.GenesisTime).Seconds()),
			"status": int64(a.AuctionStatus)})
	}
	sort.Slice(v1aucs, func(i, j int) bool { return v1aucs[i]["id"].(int64) < v1aucs[j]["id"].(int64) })
	auc1 := []M{}
	for _, a := range f.Assets {
		auc1 = append(auc1, M{"asset": int64(a.ID), "amt": bal(sim.ModAddr(auctionv1types.ModuleName), a.Denom)})
	}
	kb := []M{}
	for _, a := range f.Assets {
		kb = append(kb, M{"asset": int64(a.ID), "amt": bal(e.Users["kp"], a.Denom)})
	}
	ks, _ := e.App.EsmKeeper.GetKillSwitchData(ctx, f.App)
	off, _ := e.App.NewliqKeeper.GetLiquidationOffsetHolder(ctx, liqtypes.VaultLiquidationsOffsetPrefix, 1)
	off1, _ := e.App.LiquidationKeeper.GetLiquidationOffsetHolder(ctx, lendtypes.AppID, liqv1types.VaultLiquidationsOffsetPrefix)
	m := M{"nl": int64(k.GetUserLendIDCounter(ctx)), "nb": int64(k.GetUserBorrowIDCounter(ctx)), "price": price, "lends": lends, "borrows": borrows,
		"stats": stats, "pb": pb, "ub": ub, "res": res, "rout": rout}
	x := M{"t": int64(e.Time.Sub(sim.GenesisTime).Seconds()), "h": e.Height, "xb": xb, "auc": auc, "cs": cs, "aucs": aucs, "lv": lvs, "kb": kb,
		"ks": ks.BreakerEnable, "off": int64(off.CurrentOffset), "off1": int64(off1.CurrentOffset), "v1lv": v1lv, "v1aucs": v1aucs, "auc1": auc1}
	return M{"m": m, "x": x}
}
