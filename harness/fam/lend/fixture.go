// Package lend binds spec/lend/Lend.tla to x/lend (+ the V2 borrow-liquidation hand-over) for property C08.
//
//	walk : every transition of the bounded model MC_Lend is executed once on the REAL msg servers (graph walk on
//	       CacheContext branches, model state = projection of the real state);
//	drive: seeded multi-user behaviours (2 pools, same-pool / cross-pool / e-mode pairs, amounts around the LTV
//	       boundary, time gaps so that interest and lend rewards accrue, price moves, V2 liquidation + auction close);
//	the harness only executes and records (tree log); every formula is evaluated by TLC (Trace_Lend.tla).
package lend

import (
	"fmt"
	"math/big"

	sdk "github.com/cosmos/cosmos-sdk/types"

	assettypes "github.com/comdex-official/comdex/x/asset/types"
	auctypes "github.com/comdex-official/comdex/x/auctionsV2/types"
	lendtypes "github.com/comdex-official/comdex/x/lend/types"
	liqv1types "github.com/comdex-official/comdex/x/liquidation/types"
	liqtypes "github.com/comdex-official/comdex/x/liquidationsV2/types"
	markettypes "github.com/comdex-official/comdex/x/market/types"

	"vh/sim"
)

// PU is the price unit of the fixtures: every TWA written by the harness is a multiple of it ($1 = 10^6).
const PU = 1000000

type assetDef struct {
	ID     uint64
	Name   string
	Denom  string
	Dec    int64
	CID    uint64
	CDenom string
	Ltv    string
	Liq    string
	Stable bool
}

type pairDef struct {
	In, Out uint64
	Inter   bool
	OutPool uint64
}

// Variant describes one fixture configuration.
type Variant struct {
	Name  string
	Dec   [4]int64 // decimals of XA, TB, TC, XD
	Price [4]int64 // initial prices in PU
	Fund  int64    // user funds per asset
	Pool  int64    // pool liquidity per asset funded through MsgFundModuleAccounts
	Users []string
	LowT1 bool  // pool 1 holds almost none of its first transit asset: cross-pool borrows bridge through the second one
	Batch uint64 // liquidation sweep batch size (0 = module default)
	V1    bool   // first generation: x/liquidation borrow liquidation + x/auction lend Dutch auctions (V2 liquidation not enabled for the app)
}

var Variants = map[string]Variant{
	// the model's configuration: decimals 1, prices 1, tiny amounts
	"w": {Name: "w", Dec: [4]int64{1, 1, 1, 1}, Price: [4]int64{1, 1, 1, 1}, Fund: 40, Pool: 30, Users: []string{"u1", "u2"}},
	// small drives: mixed decimals, small prices (every product of the predictive spec stays < 2^31)
	"s": {Name: "s", Dec: [4]int64{1, 10, 1, 10}, Price: [4]int64{2, 1, 1, 3}, Fund: 60000, Pool: 20000, Users: []string{"u1", "u2", "u3"}},
	// big drives: realistic magnitudes (monitored by the C08 formulas, not predicted)
	"b": {Name: "b", Dec: [4]int64{100, 100, 10, 100}, Price: [4]int64{7, 12, 1, 3}, Fund: 200000000, Pool: 100000000, Users: []string{"u1", "u2", "u3"}},
}

type Fix struct {
	E      *sim.Env
	V      Variant
	App    uint64
	Assets []assetDef // underlying assets XA TB TC XD (ids 1..4)
	Pairs  []lendtypes.Extended_Pair
	names  map[string]string // bech32 -> symbolic name
}

func must(err error) {
	if err != nil {
		panic(err)
	}
}

func dec(s string) sdk.Dec { return sdk.MustNewDecFromStr(s) }

func (f *Fix) addAsset(name, denom string, d int64) uint64 {
	must(f.E.App.AssetKeeper.AddAssetRecords(f.E.Ctx, assettypes.Asset{Name: name, Denom: denom, Decimals: sdk.NewInt(d),
		IsOnChain: true, IsOraclePriceRequired: true}))
	for _, a := range f.E.App.AssetKeeper.GetAssets(f.E.Ctx) {
		if a.Denom == denom {
			return a.Id
		}
	}
	panic("asset not found")
}

// SetPrice writes an active TWA record (price in PU) the way the repository's own lend tests do.
func (f *Fix) SetPrice(ctx sdk.Context, asset uint64, p int64) {
	f.E.App.MarketKeeper.SetTwa(ctx, markettypes.TimeWeightedAverage{AssetID: asset, ScriptID: 10, Twa: uint64(p * PU),
		CurrentIndex: 0, IsPriceActive: true, PriceValue: []uint64{uint64(p * PU)}})
}

// NewFix boots a chain and configures the lend application through the exported keeper entry points that
// governance proposals use (AddPoolRecords, AddAssetRatesParams, AddLendPairsRecords, AddAssetToPair, AddEModePairs).
func NewFix(v Variant) *Fix {
	var funds []sim.Fund
	denoms := []string{"uxa", "utb", "utc", "uxd"}
	for _, u := range append([]string{}, "u1", "u2", "u3", "kp") {
		cs := sdk.NewCoins()
		for _, d := range denoms {
			cs = cs.Add(sdk.NewInt64Coin(d, v.Fund))
		}
		if u == "kp" { // liquidation keeper / bidder: deep pockets
			cs = sdk.NewCoins()
			for _, d := range denoms {
				cs = cs.Add(sdk.NewInt64Coin(d, v.Fund*8+1000))
			}
		}
		funds = append(funds, sim.Fund{Name: u, Coins: cs})
	}
	funds = append(funds, sim.Fund{Name: "gov", Coins: func() sdk.Coins {
		cs := sdk.NewCoins()
		for _, d := range denoms {
			cs = cs.Add(sdk.NewInt64Coin(d, v.Pool*4+1000))
		}
		return cs
	}()})
	e := sim.New(funds)
	f := &Fix{E: e, V: v, names: map[string]string{}}
	for n, a := range e.Users {
		f.names[a.String()] = n
	}
	k := e.App.LendKeeper
	ctx := e.Ctx
	// oracle: validation result true and no band request pending => market.BeginBlocker leaves the TWA records alone
	e.App.BandoracleKeeper.SetOracleValidationResult(ctx, true)

	names := []string{"XA", "TB", "TC", "XD"}
	ltv := []string{"0.7", "0.8", "0.5", "0.6"}
	liq := []string{"0.75", "0.85", "0.55", "0.65"}
	stable := []bool{false, true, false, true}
	for i := 0; i < 4; i++ {
		id := f.addAsset(names[i], denoms[i], v.Dec[i])
		f.Assets = append(f.Assets, assetDef{ID: id, Name: names[i], Denom: denoms[i], Dec: v.Dec[i], Ltv: ltv[i], Liq: liq[i], Stable: stable[i]})
	}
	for i := 0; i < 4; i++ {
		cid := f.addAsset("C"+names[i], "uc"+denoms[i][1:], v.Dec[i])
		f.Assets[i].CID, f.Assets[i].CDenom = cid, "uc"+denoms[i][1:]
	}
	for i := 0; i < 4; i++ {
		f.SetPrice(ctx, f.Assets[i].ID, v.Price[i])
		f.SetPrice(ctx, f.Assets[i].CID, v.Price[i])
	}
	capd := sdk.NewDec(9000000000000000000)
	ad := func(id, tt uint64) *lendtypes.AssetDataPoolMapping {
		return &lendtypes.AssetDataPoolMapping{AssetID: id, AssetTransitType: tt, SupplyCap: capd}
	}
	XA, TB, TC, XD := f.Assets[0].ID, f.Assets[1].ID, f.Assets[2].ID, f.Assets[3].ID
	must(k.AddPoolRecords(ctx, lendtypes.Pool{ModuleName: lendtypes.ModuleAcc1, CPoolName: "XA-TB-TC",
		AssetData: []*lendtypes.AssetDataPoolMapping{ad(XA, 1), ad(TB, 2), ad(TC, 3)}}))
	must(k.AddPoolRecords(ctx, lendtypes.Pool{ModuleName: lendtypes.ModuleAcc3, CPoolName: "XD-TB-TC",
		AssetData: []*lendtypes.AssetDataPoolMapping{ad(XD, 1), ad(TB, 2), ad(TC, 3)}}))
	for _, a := range f.Assets {
		// stable-rate parameters are non-zero for every asset: with all-zero parameters and only stable debt outstanding the
		// code stores a reserve index of 0 for the next borrow and every later interest calculation of that position divides by
		// zero (also inside the V2 liquidation sweep in BeginBlock). That is a C15/C18 matter; it is kept out of the C08 runs.
		sb, ss1, ss2 := "0.04", "0.04", "0.06"
		must(k.AddAssetRatesParams(ctx, lendtypes.AssetRatesParams{AssetID: a.ID, UOptimal: dec("0.8"), Base: dec("0.002"),
			Slope1: dec("0.07"), Slope2: dec("1.25"), EnableStableBorrow: a.Stable, StableBase: dec(sb), StableSlope1: dec(ss1), StableSlope2: dec(ss2),
			Ltv: dec(a.Ltv), LiquidationThreshold: dec(a.Liq), LiquidationPenalty: dec("0.05"), LiquidationBonus: dec("0.05"),
			ReserveFactor: dec("0.2"), CAssetID: a.CID}))
	}
	pairs := []pairDef{
		{XA, TB, false, 1}, // 1
		{XA, TC, false, 1}, // 2
		{TB, XA, false, 1}, // 3
		{TC, XA, false, 1}, // 4
		{XA, XD, true, 2},  // 5 cross-pool
		{TB, XD, true, 2},  // 6 cross-pool
		{XD, TB, false, 2}, // 7
		{XD, TC, false, 2}, // 8
		{TB, XD, false, 2}, // 9
		{XD, XA, true, 1},  // 10 cross-pool
		{TB, TC, false, 1}, // 11 e-mode
	}
	for _, p := range pairs {
		must(k.AddLendPairsRecords(ctx, lendtypes.Extended_Pair{AssetIn: p.In, AssetOut: p.Out, IsInterPool: p.Inter, AssetOutPoolID: p.OutPool, MinUsdValueLeft: 100000}))
	}
	must(k.AddAssetToPair(ctx, lendtypes.AssetToPairMapping{AssetID: XA, PoolID: 1, PairID: []uint64{1, 2, 5}}))
	must(k.AddAssetToPair(ctx, lendtypes.AssetToPairMapping{AssetID: TB, PoolID: 1, PairID: []uint64{3, 6, 11}}))
	must(k.AddAssetToPair(ctx, lendtypes.AssetToPairMapping{AssetID: TC, PoolID: 1, PairID: []uint64{4}}))
	must(k.AddAssetToPair(ctx, lendtypes.AssetToPairMapping{AssetID: XD, PoolID: 2, PairID: []uint64{7, 8, 10}}))
	must(k.AddAssetToPair(ctx, lendtypes.AssetToPairMapping{AssetID: TB, PoolID: 2, PairID: []uint64{9}}))
	must(k.AddEModePairs(ctx, lendtypes.EModePairsForProposal{EModePairs: []lendtypes.EModePairs{{PairID: 11, ELtv: dec("0.9"),
		ELiquidationThreshold: dec("0.95"), ELiquidationPenalty: dec("0.02")}}}))
	f.Pairs = k.GetLendPairs(ctx)

	must(e.App.AssetKeeper.AddAppRecords(ctx, assettypes.AppData{Name: "commodo", ShortName: "cmdo", MinGovDeposit: sdk.NewInt(0), GovTimeInSeconds: 0}))
	apps, _ := e.App.AssetKeeper.GetApps(ctx)
	for _, a := range apps {
		if a.Name == "commodo" {
			f.App = a.Id
		}
	}
	if v.V1 {
		// first generation: lend Dutch auction parameters of the app; the V2 liquidation module is NOT enabled for it
		must(k.AddAuctionParamsData(ctx, lendtypes.AuctionParams{AppId: f.App, AuctionDurationSeconds: 3600, Buffer: dec("1.2"), Cusp: dec("0.7"),
			Step: sdk.NewInt(360), PriceFunctionType: 1, DutchId: 3, BidDurationSeconds: 3600}))
		if v.Batch > 0 {
			e.App.LiquidationKeeper.SetParams(ctx, liqv1types.Params{LiquidationBatchSize: v.Batch})
		}
	} else {
		// V2 liquidation / auction configuration for the lend app (Dutch auctions only)
		e.App.NewliqKeeper.SetLiquidationWhiteListing(ctx, liqtypes.LiquidationWhiteListing{AppId: f.App, Initiator: true, IsDutchActivated: true,
			DutchAuctionParam:  &liqtypes.DutchAuctionParam{Premium: dec("1.2"), Discount: dec("0.7"), DecrementFactor: sdk.NewInt(1)},
			IsEnglishActivated: false, KeeeperIncentive: dec("0.1")})
	}
	e.App.NewaucKeeper.SetAuctionParams(ctx, auctypes.AuctionParams{AuctionDurationSeconds: 3600, Step: dec("0.1"), WithdrawalFee: dec("0.0"),
		ClosingFee: dec("0.0"), MinUsdValueLeft: 100000, BidFactor: dec("0.1"), LiquidationPenalty: dec("0.1"), AuctionBonus: dec("0.0")})

	// app reserve of the liquidation module (covers auction shortfalls)
	for _, a := range f.Assets {
		r := e.Deliver(liqtypes.NewMsgAppReserveFundsRequest(e.Users["gov"].String(), f.App, a.ID, sdk.NewInt64Coin(a.Denom, v.Pool)))
		if !r.OK {
			panic("app reserve: " + r.Err)
		}
	}
	if v.Batch > 0 {
		e.App.NewliqKeeper.SetParams(ctx, liqtypes.Params{LiquidationBatchSize: v.Batch})
	}
	// pool liquidity: governance funds every (pool, asset) through the real message
	gov := e.Users["gov"].String()
	for _, pa := range [][2]uint64{{1, XA}, {1, TB}, {1, TC}, {2, XD}, {2, TB}, {2, TC}} {
		amt := v.Pool
		if v.LowT1 && pa[0] == 1 && pa[1] == TB {
			amt = 3
		}
		r := e.Deliver(lendtypes.NewMsgFundModuleAccounts(pa[0], pa[1], gov, sdk.NewInt64Coin(f.denom(pa[1]), amt)))
		if !r.OK {
			panic("fund: " + r.Err)
		}
	}
	return f
}

func (f *Fix) denom(asset uint64) string {
	for _, a := range f.Assets {
		if a.ID == asset {
			return a.Denom
		}
		if a.CID == asset {
			return a.CDenom
		}
	}
	panic(fmt.Sprint("unknown asset ", asset))
}

func (f *Fix) cdenom(asset uint64) string {
	for _, a := range f.Assets {
		if a.ID == asset {
			return a.CDenom
		}
	}
	panic(fmt.Sprint("unknown asset ", asset))
}

// assetOfDenom maps an underlying or cToken denom to the underlying asset id (0 if unknown).
func (f *Fix) assetOfDenom(d string) int64 {
	for _, a := range f.Assets {
		if a.Denom == d || a.CDenom == d {
			return int64(a.ID)
		}
	}
	return 0
}

func (f *Fix) name(addr string) string {
	if n, ok := f.names[addr]; ok {
		return n
	}
	return addr
}

// frac renders a Dec as a reduced fraction [n, d] (TLC has no decimals).
func frac(d sdk.Dec) []int64 {
	if d.IsNil() {
		return []int64{0, 1}
	}
	n := new(big.Int).Set(d.BigInt())
	den := new(big.Int).Exp(big.NewInt(10), big.NewInt(18), nil)
	g := new(big.Int).GCD(nil, nil, new(big.Int).Abs(n), den)
	if g.Sign() > 0 {
		n.Quo(n, g)
		den.Quo(den, g)
	}
	return []int64{n.Int64(), den.Int64()}
}
