// Package matrix binds spec/matrix/{Auth,Controls}.tla to the real message handlers, the custom wasm
// dispatcher and the block hooks of comdex (C12, C14).
//
// The harness only executes and records: TLC (MC_Matrix) enumerates the cells of the two matrices, `vh matrix`
// executes every cell on the real code from prepared states (one Env.Branch per cell) and writes a tree log;
// TLC (Trace_Matrix) judges every recorded cell.
package matrix

import (
	"fmt"
	"time"

	sdk "github.com/cosmos/cosmos-sdk/types"

	"github.com/comdex-official/comdex/app/wasm/bindings"
	assettypes "github.com/comdex-official/comdex/x/asset/types"
	auctiontypes "github.com/comdex-official/comdex/x/auction/types"
	auctionsV2types "github.com/comdex-official/comdex/x/auctionsV2/types"
	esmtypes "github.com/comdex-official/comdex/x/esm/types"
	lendtypes "github.com/comdex-official/comdex/x/lend/types"
	liquidationtypes "github.com/comdex-official/comdex/x/liquidation/types"
	liquidationsV2types "github.com/comdex-official/comdex/x/liquidationsV2/types"
	liquiditytypes "github.com/comdex-official/comdex/x/liquidity/types"
	lockertypes "github.com/comdex-official/comdex/x/locker/types"
	markettypes "github.com/comdex-official/comdex/x/market/types"
	rewardstypes "github.com/comdex-official/comdex/x/rewards/types"
	tokenminttypes "github.com/comdex-official/comdex/x/tokenmint/types"
	vaulttypes "github.com/comdex-official/comdex/x/vault/types"

	"vh/sim"
)

// Fix holds the ids of everything the fixture created. Symbolic actors: owner (holds one position of every
// kind), other (a funded user with positions of his own), lp (liquidity / gov-token holder, executes ESM),
// admin (esm admin).
type Fix struct {
	E *sim.Env

	Owner, Other, LP, Admin, Risk, Newbie, RiskTwin sdk.AccAddress

	// assets
	CMDX, CMST, HARBOR, ATOM, USDC, GOVC, CCMDX, CCMST, CATOM, GOVT, CUSDC, FEED uint64
	// apps
	AppHarbor, AppCommodo, AppCswap, AppDecoy, AppTwin uint64
	// vault products
	EpCmdx, EpAtom, EpStable, EpStable2, EpTwin uint64
	// lend
	Pool, PairCmdxCmst, PairAtomCmst, PairCmdxAtom uint64
	PoolTwo, PairCross uint64 // second pool (main asset USDC) and the inter-pool pair CMDX -> USDC
	// liquidity
	LPair, LPool uint64
	AltPair, DecoyPair uint64 // another pair of the same app / a pair of a second liquidity app, with colliding order ids
	PoolCoin     string
}

const unit = int64(1000000)

func i(n int64) sdk.Int   { return sdk.NewInt(n) }
func d(s string) sdk.Dec  { return sdk.MustNewDecFromStr(s) }
func must(err error) {
	if err != nil {
		panic(err)
	}
}
func mustOK(r sim.Result, what string) {
	if !r.OK {
		panic(fmt.Sprintf("fixture step %s failed: %+v", what, r))
	}
}

func coin(denom string, n int64) sdk.Coin { return sdk.NewCoin(denom, i(n)) }

var denomOf = map[string]string{"CMDX": "ucmdx", "CMST": "ucmst", "HARBOR": "uharbor", "ATOM": "uatom", "USDC": "uusdc",
	"GOVC": "ugovc", "GOVT": "ugovt", "CUSDC": "ucusdc", "FEED": "ufeed", "CCMDX": "uccmdx", "CCMST": "uccmst", "CATOM": "ucatom"}

func (f *Fix) addAsset(name string, priced, mintable bool) uint64 {
	e := f.E
	must(e.App.AssetKeeper.AddAssetRecords(e.Ctx, assettypes.Asset{Name: name, Denom: denomOf[name], Decimals: i(unit),
		IsOnChain: true, IsOraclePriceRequired: priced, IsCdpMintable: mintable}))
	for _, a := range e.App.AssetKeeper.GetAssets(e.Ctx) {
		if a.Denom == denomOf[name] {
			return a.Id
		}
	}
	panic("asset not found")
}

// SetPrice writes a TWA record (active or not) for the asset.
func SetPrice(e *sim.Env, asset uint64, price uint64, active bool) {
	e.App.MarketKeeper.SetTwa(e.Ctx, markettypes.TimeWeightedAverage{AssetID: asset, ScriptID: 12, Twa: price,
		CurrentIndex: 0, IsPriceActive: active, PriceValue: []uint64{price}})
}

// PriceActive flips only the activity flag of an existing TWA record.
func PriceActive(e *sim.Env, asset uint64, active bool) {
	twa, found := e.App.MarketKeeper.GetTwa(e.Ctx, asset)
	if !found {
		return
	}
	twa.IsPriceActive = active
	e.App.MarketKeeper.SetTwa(e.Ctx, twa)
}

// PriceMissing removes the TWA record of the asset altogether.
func PriceMissing(e *sim.Env, asset uint64) {
	e.App.MarketKeeper.Store(e.Ctx).Delete(markettypes.TwaKey(asset))
}

func (f *Fix) addApp(name, short string, gov uint64, recipient sdk.AccAddress) uint64 {
	e := f.E
	gt := []assettypes.MintGenesisToken{}
	if gov != 0 {
		gt = append(gt, assettypes.MintGenesisToken{AssetId: gov, GenesisSupply: i(1000000 * unit), IsGovToken: true, Recipient: recipient.String()})
	}
	must(e.App.AssetKeeper.AddAppRecords(e.Ctx, assettypes.AppData{Name: name, ShortName: short, MinGovDeposit: i(0), GovTimeInSeconds: 0, GenesisToken: gt}))
	apps, _ := e.App.AssetKeeper.GetApps(e.Ctx)
	for _, a := range apps {
		if a.Name == name {
			return a.Id
		}
	}
	panic("app not found")
}

func (f *Fix) addPair(in, out uint64) uint64 {
	e := f.E
	must(e.App.AssetKeeper.AddPairsRecords(e.Ctx, assettypes.Pair{AssetIn: in, AssetOut: out}))
	for _, p := range e.App.AssetKeeper.GetPairs(e.Ctx) {
		if p.AssetIn == in && p.AssetOut == out {
			return p.Id
		}
	}
	panic("pair not found")
}

func (f *Fix) addExtPair(app, pair uint64, name string, stable, oracleOut bool, drawDown string) uint64 {
	e := f.E
	must(e.App.AssetKeeper.WasmAddExtendedPairsVaultRecords(e.Ctx, &bindings.MsgAddExtendedPairsVault{
		AppID: app, PairID: pair, StabilityFee: d("0.02"), ClosingFee: d("0"), LiquidationPenalty: d("0.12"),
		DrawDownFee: d(drawDown), IsVaultActive: true, DebtCeiling: i(1000000000 * unit), DebtFloor: i(1 * unit),
		IsStableMintVault: stable, MinCr: d("1.5"), PairName: name, AssetOutOraclePrice: oracleOut,
		AssetOutPrice: 1000000, MinUsdValueLeft: 100000}))
	eps, _ := e.App.AssetKeeper.GetPairsVaults(e.Ctx)
	for _, ep := range eps {
		if ep.PairName == name && ep.AppId == app {
			return ep.Id
		}
	}
	panic("ext pair not found")
}

func fund(e *sim.Env, to sdk.AccAddress, coins ...sdk.Coin) {
	cs := sdk.NewCoins(coins...)
	must(e.App.BankKeeper.MintCoins(e.Ctx, vaulttypes.ModuleName, cs))
	must(e.App.BankKeeper.SendCoinsFromModuleToAccount(e.Ctx, vaulttypes.ModuleName, to, cs))
}

// NewFixture builds the base state: every position kind exists for `owner`, and `other` holds comparable
// positions of his own, so that an attempt on the owner's positions fails (or not) only because of the
// authorisation logic and not for lack of funds.
func NewFixture() *Fix {
	e := sim.New(nil)
	f := &Fix{E: e, Owner: sim.Addr("owner"), Other: sim.Addr("other"), LP: sim.Addr("lp"), Admin: sim.Addr("admin"), Risk: sim.Addr("risk"), Newbie: sim.Addr("newbie"), RiskTwin: sim.Addr("risktwin")}

	f.CMDX = f.addAsset("CMDX", true, false)
	f.CMST = f.addAsset("CMST", true, true)
	f.HARBOR = f.addAsset("HARBOR", false, false)
	f.ATOM = f.addAsset("ATOM", true, false)
	f.USDC = f.addAsset("USDC", true, false)
	f.GOVC = f.addAsset("GOVC", false, false)
	f.CCMDX = f.addAsset("CCMDX", false, false)
	f.CCMST = f.addAsset("CCMST", false, false)
	f.CATOM = f.addAsset("CATOM", false, false)
	SetPrice(e, f.CMDX, 2000000, true)
	SetPrice(e, f.CMST, 1000000, true)
	SetPrice(e, f.ATOM, 10000000, true)
	SetPrice(e, f.USDC, 1000000, true)
	// the band oracle reports a valid feed (otherwise market.BeginBlocker deactivates every price each block);
	// no fetch result is stored, so the hook does not overwrite the prices above
	e.App.BandoracleKeeper.SetOracleValidationResult(e.Ctx, true)

	f.AppHarbor = f.addApp("harbor", "hbr", f.HARBOR, f.LP)
	f.AppCommodo = f.addApp("commodo", "cmdo", f.GOVC, f.LP)
	f.AppCswap = f.addApp("cswap", "cswap", 0, nil)
	f.AppDecoy = f.addApp("decoy", "decoy", 0, nil)
	// a second vault app ("twin") that sits in the same liquidation / auction loops as harbor
	f.GOVT = f.addAsset("GOVT", false, false)
	f.CUSDC = f.addAsset("CUSDC", false, false)
	// an oracle-priced asset that no position uses: switching its feed off blocks the shutdown price snapshot and nothing else
	f.FEED = f.addAsset("FEED", true, false)
	SetPrice(e, f.FEED, 1000000, true)
	f.AppTwin = f.addApp("twinvault", "twin", f.GOVT, f.LP)

	for _, u := range []sdk.AccAddress{f.Owner, f.Other, f.LP, f.Risk, f.Newbie, f.RiskTwin} {
		fund(e, u, coin("ucmdx", 1000000*unit), coin("ucmst", 1000000*unit), coin("uatom", 1000000*unit), coin("uusdc", 1000000*unit))
	}
	fund(e, f.Admin, coin("ucmdx", 10*unit))

	// governance tokens of both apps (genesis mint through the tokenmint message)
	mustOK(e.Deliver(&tokenminttypes.MsgMintNewTokensRequest{From: f.LP.String(), AppId: f.AppHarbor, AssetId: f.HARBOR}), "mint harbor")
	mustOK(e.Deliver(&tokenminttypes.MsgMintNewTokensRequest{From: f.LP.String(), AppId: f.AppCommodo, AssetId: f.GOVC}), "mint govc")
	mustOK(e.Deliver(&tokenminttypes.MsgMintNewTokensRequest{From: f.LP.String(), AppId: f.AppTwin, AssetId: f.GOVT}), "mint govt")

	// ---- vault products (app harbor)
	p1 := f.addPair(f.CMDX, f.CMST)
	p2 := f.addPair(f.ATOM, f.CMST)
	p3 := f.addPair(f.USDC, f.CMST)
	f.EpCmdx = f.addExtPair(f.AppHarbor, p1, "CMDX-A", false, true, "0.01")
	f.EpAtom = f.addExtPair(f.AppHarbor, p2, "ATOM-A", false, false, "0.01")
	f.EpStable = f.addExtPair(f.AppHarbor, p3, "USDC-PSM", true, false, "0.01")
	f.EpStable2 = f.addExtPair(f.AppHarbor, p3, "USDC-PSMB", true, false, "0.01")
	f.EpTwin = f.addExtPair(f.AppTwin, p1, "CMDX-T", false, true, "0.01")

	// ---- collector / locker configuration (app harbor, CMST)
	must(e.App.CollectorKeeper.WasmSetCollectorLookupTable(e.Ctx, &bindings.MsgSetCollectorLookupTable{AppID: f.AppHarbor,
		CollectorAssetID: f.CMST, SecondaryAssetID: f.HARBOR, SurplusThreshold: i(10 * unit), DebtThreshold: i(5 * unit),
		LockerSavingRate: d("0.1"), LotSize: i(200000), BidFactor: d("0.01"), DebtLotSize: i(2 * unit)}))
	must(e.App.CollectorKeeper.WasmSetAuctionMappingForApp(e.Ctx, &bindings.MsgSetAuctionMappingForApp{AppID: f.AppHarbor,
		AssetIDs: f.CMST, IsSurplusAuctions: false, IsDebtAuctions: false, IsDistributor: false, AssetOutOraclePrices: false, AssetOutPrices: 1000000}))
	_, err := e.App.LockerKeeper.AddWhiteListedAsset(e.Ctx, &lockertypes.MsgAddWhiteListedAssetRequest{From: f.Admin.String(), AppId: f.AppHarbor, AssetId: f.CMST})
	must(err)
	_, err = e.App.LockerKeeper.AddWhiteListedAsset(e.Ctx, &lockertypes.MsgAddWhiteListedAssetRequest{From: f.Admin.String(), AppId: f.AppHarbor, AssetId: f.USDC})
	must(err)
	// locker savings rewards for CMST lockers and stability-fee accrual for harbor vaults are switched on
	_, err = e.App.Rewardskeeper.Whitelist(e.Ctx, &rewardstypes.WhitelistAsset{From: f.Admin.String(), AppMappingId: f.AppHarbor, AssetId: f.CMST})
	must(err)
	_, err = e.App.Rewardskeeper.WhitelistAppVault(e.Ctx, &rewardstypes.WhitelistAppIdVault{From: f.Admin.String(), AppMappingId: f.AppHarbor})
	must(err)

	// ---- liquidation / auction configuration
	dutch := liquidationsV2types.DutchAuctionParam{Premium: d("1.2"), Discount: d("0.7"), DecrementFactor: i(1)}
	english := liquidationsV2types.EnglishAuctionParam{DecrementFactor: i(1)}
	for _, app := range []uint64{f.AppHarbor, f.AppCommodo, f.AppTwin} {
		e.App.NewliqKeeper.SetLiquidationWhiteListing(e.Ctx, liquidationsV2types.LiquidationWhiteListing{AppId: app, Initiator: true,
			IsDutchActivated: true, DutchAuctionParam: &dutch, IsEnglishActivated: true, EnglishAuctionParam: &english, KeeeperIncentive: d("0.1")})
	}
	e.App.NewaucKeeper.SetAuctionParams(e.Ctx, auctionsV2types.AuctionParams{AuctionDurationSeconds: 3600, Step: d("0.1"),
		WithdrawalFee: d("0.0"), ClosingFee: d("0.0"), MinUsdValueLeft: 100000, BidFactor: d("0.1"), LiquidationPenalty: d("0.1"), AuctionBonus: d("0.0")})
	// V1 liquidation whitelist + V1 auction params (the V1 hooks are called directly, they are not wired in the app)
	must(e.App.LiquidationKeeper.WasmWhitelistAppIDLiquidation(e.Ctx, f.AppHarbor))
	must(e.App.LiquidationKeeper.WasmWhitelistAppIDLiquidation(e.Ctx, f.AppTwin))
	for _, app := range []uint64{f.AppHarbor, f.AppCommodo, f.AppTwin} {
		must(e.App.AuctionKeeper.AddAuctionParams(e.Ctx, &bindings.MsgAddAuctionParams{AppID: app, AuctionDurationSeconds: 3600,
			Buffer: d("1.2"), Cusp: d("0.7"), Step: 360, PriceFunctionType: 1, SurplusID: 1, DebtID: 2, DutchID: 3, BidDurationSeconds: 600}))
	}

	// ---- emergency shutdown configuration
	for _, x := range []struct {
		app  uint64
		gov  string
		debt uint64
	}{{f.AppHarbor, "uharbor", f.CMST}, {f.AppCommodo, "ugovc", f.CMST}, {f.AppTwin, "ugovt", f.CMST}} {
		must(e.App.EsmKeeper.AddESMTriggerParamsForApp(e.Ctx, &bindings.MsgAddESMTriggerParams{AppID: x.app,
			TargetValue: coin(x.gov, 1000*unit), CoolOffPeriod: 3600, AssetID: []uint64{x.debt}, Rates: []uint64{1000000}}))
	}
	e.App.EsmKeeper.SetParams(e.Ctx, esmtypes.NewParams([]string{f.Admin.String()}))

	// ---- vault positions
	for _, u := range []sdk.AccAddress{f.Owner, f.Other} {
		mustOK(e.Deliver(&vaulttypes.MsgCreateRequest{From: u.String(), AppId: f.AppHarbor, ExtendedPairVaultId: f.EpCmdx, AmountIn: i(1000 * unit), AmountOut: i(500 * unit)}), "vault create cmdx")
		mustOK(e.Deliver(&vaulttypes.MsgCreateRequest{From: u.String(), AppId: f.AppHarbor, ExtendedPairVaultId: f.EpAtom, AmountIn: i(100 * unit), AmountOut: i(300 * unit)}), "vault create atom")
	}
	// a vault just above the minimum ratio: becomes unsafe when the hook cells lower the CMDX price
	mustOK(e.Deliver(&vaulttypes.MsgCreateRequest{From: f.RiskTwin.String(), AppId: f.AppTwin, ExtendedPairVaultId: f.EpTwin, AmountIn: i(1000 * unit), AmountOut: i(1300 * unit)}), "risk vault of the twin app")
	mustOK(e.Deliver(&vaulttypes.MsgCreateRequest{From: f.Risk.String(), AppId: f.AppHarbor, ExtendedPairVaultId: f.EpCmdx, AmountIn: i(1000 * unit), AmountOut: i(1300 * unit)}), "risk vault")
	mustOK(e.Deliver(&vaulttypes.MsgCreateStableMintRequest{From: f.LP.String(), AppId: f.AppHarbor, ExtendedPairVaultId: f.EpStable, Amount: i(5000 * unit)}), "stable create")

	// ---- lockers
	for _, u := range []sdk.AccAddress{f.Owner, f.Other} {
		mustOK(e.Deliver(&lockertypes.MsgCreateLockerRequest{Depositor: u.String(), Amount: i(200 * unit), AssetId: f.CMST, AppId: f.AppHarbor}), "locker create")
	}

	// ---- lend (app commodo): one pool with CMDX (main), CMST (first bridge), ATOM (second bridge)
	f.lendSetup()

	// ---- liquidity (app cswap)
	f.liquiditySetup()

	// ---- auctionsV2 limit bids
	for _, x := range []struct {
		u sdk.AccAddress
		p int64
	}{{f.Owner, 5}, {f.Other, 7}} {
		mustOK(e.Deliver(&auctionsV2types.MsgDepositLimitBidRequest{Bidder: x.u.String(), CollateralTokenId: f.CMDX, DebtTokenId: f.CMST,
			PremiumDiscount: i(x.p), Amount: coin("ucmst", 100*unit)}), "limit bid")
	}

	// one block so that the orders leave their placement batch and every module's hooks ran once
	br := e.NextBlock(6 * time.Second)
	if br.Panic {
		panic("fixture block panicked: " + br.Err)
	}
	_ = auctiontypes.ModuleName
	_ = liquidationtypes.ModuleName
	return f
}

func (f *Fix) lendSetup() {
	e := f.E
	k := e.App.LendKeeper
	assetData := []*lendtypes.AssetDataPoolMapping{
		{AssetID: f.CMDX, AssetTransitType: 1, SupplyCap: sdk.NewDec(5000000000000000000)},
		{AssetID: f.CMST, AssetTransitType: 2, SupplyCap: sdk.NewDec(5000000000000000000)},
		{AssetID: f.ATOM, AssetTransitType: 3, SupplyCap: sdk.NewDec(5000000000000000000)},
	}
	must(k.AddAssetRatesParams(e.Ctx, lendtypes.AssetRatesParams{AssetID: f.CMST, UOptimal: d("0.8"), Base: d("0.002"), Slope1: d("0.06"), Slope2: d("0.6"),
		EnableStableBorrow: true, StableBase: d("0.04"), StableSlope1: d("0.04"), StableSlope2: d("0.06"), Ltv: d("0.8"), LiquidationThreshold: d("0.85"),
		LiquidationPenalty: d("0.025"), LiquidationBonus: d("0.025"), ReserveFactor: d("0.1"), CAssetID: f.CCMST}))
	must(k.AddAssetRatesParams(e.Ctx, lendtypes.AssetRatesParams{AssetID: f.ATOM, UOptimal: d("0.75"), Base: d("0.002"), Slope1: d("0.07"), Slope2: d("1.25"),
		EnableStableBorrow: false, StableBase: d("0"), StableSlope1: d("0"), StableSlope2: d("0"), Ltv: d("0.7"), LiquidationThreshold: d("0.75"),
		LiquidationPenalty: d("0.05"), LiquidationBonus: d("0.05"), ReserveFactor: d("0.2"), CAssetID: f.CATOM}))
	must(k.AddAssetRatesPoolPairs(e.Ctx, lendtypes.AssetRatesPoolPairs{AssetID: f.CMDX, UOptimal: d("0.5"), Base: d("0.002"), Slope1: d("0.08"), Slope2: d("2.0"),
		EnableStableBorrow: false, StableBase: d("0"), StableSlope1: d("0"), StableSlope2: d("0"), Ltv: d("0.5"), LiquidationThreshold: d("0.55"),
		LiquidationPenalty: d("0.05"), LiquidationBonus: d("0.05"), ReserveFactor: d("0.2"), CAssetID: f.CCMDX,
		ModuleName: "cmdx", CPoolName: "CMDX-CMST-ATOM", AssetData: assetData, MinUsdValueLeft: 100000, IsIsolated: false}))
	// V1 lend auctions (started by the V1 borrow liquidation paths) need their own parameters
	must(k.AddAuctionParamsData(e.Ctx, lendtypes.AuctionParams{AppId: f.AppCommodo, AuctionDurationSeconds: 21600, Buffer: d("1.2"), Cusp: d("0.7"),
		Step: i(360), PriceFunctionType: 1, DutchId: 3, BidDurationSeconds: 3600}))
	pools := k.GetPools(e.Ctx)
	f.Pool = pools[len(pools)-1].PoolID
	for _, p := range k.GetLendPairs(e.Ctx) {
		if p.IsInterPool {
			continue
		}
		switch {
		case p.AssetIn == f.CMDX && p.AssetOut == f.CMST:
			f.PairCmdxCmst = p.Id
		case p.AssetIn == f.ATOM && p.AssetOut == f.CMST:
			f.PairAtomCmst = p.Id
		case p.AssetIn == f.CMDX && p.AssetOut == f.ATOM:
			f.PairCmdxAtom = p.Id
		}
	}
	if f.PairCmdxCmst == 0 || f.PairAtomCmst == 0 {
		panic(fmt.Sprintf("lend pairs not created: %+v", k.GetLendPairs(e.Ctx)))
	}
	// The order is chosen so that lend ids and borrow ids differ per user and every borrow id equals the id of a lend position
	// of ANOTHER user (a handler that confuses the two ids then checks / pays the wrong party):
	//   lend 1 other/CMDX, lend 2 owner/ATOM, lend 3 owner/CMDX, lends 4-6 liquidity provider, lend 7 other/ATOM, lend 8 risk/CMDX
	//   borrow 1 owner (on lend 3) ~ lend 1 of other; borrow 2 other (on lend 1) ~ lend 2 of owner; borrow 3 risk (on lend 8) ~ lend 3 of owner
	lendOf := func(u sdk.AccAddress, asset uint64) uint64 {
		id, found := k.GetLendIDForAssetIDPoolID(e.Ctx, u.String(), asset, f.Pool)
		if !found {
			panic("lend id")
		}
		return id
	}
	mustOK(e.Deliver(lendtypes.NewMsgLend(f.Other.String(), f.CMDX, coin("ucmdx", 3000*unit), f.Pool, f.AppCommodo)), "other lend cmdx")
	mustOK(e.Deliver(lendtypes.NewMsgLend(f.Owner.String(), f.ATOM, coin("uatom", 100*unit), f.Pool, f.AppCommodo)), "owner lend atom")
	mustOK(e.Deliver(lendtypes.NewMsgLend(f.Owner.String(), f.CMDX, coin("ucmdx", 3000*unit), f.Pool, f.AppCommodo)), "owner lend cmdx")
	for _, x := range []struct {
		asset uint64
		denom string
	}{{f.CMDX, "ucmdx"}, {f.CMST, "ucmst"}, {f.ATOM, "uatom"}} {
		mustOK(e.Deliver(lendtypes.NewMsgLend(f.LP.String(), x.asset, coin(x.denom, 100000*unit), f.Pool, f.AppCommodo)), "lp lend "+x.denom)
		mustOK(e.Deliver(lendtypes.NewMsgFundModuleAccounts(f.Pool, x.asset, f.LP.String(), coin(x.denom, 1000*unit))), "fund module "+x.denom)
	}
	mustOK(e.Deliver(lendtypes.NewMsgBorrow(f.Owner.String(), lendOf(f.Owner, f.CMDX), f.PairCmdxCmst, false, coin("uccmdx", 1000*unit), coin("ucmst", 300*unit))), "owner borrow cmst")
	mustOK(e.Deliver(lendtypes.NewMsgLend(f.Other.String(), f.ATOM, coin("uatom", 100*unit), f.Pool, f.AppCommodo)), "other lend atom")
	mustOK(e.Deliver(lendtypes.NewMsgBorrow(f.Other.String(), lendOf(f.Other, f.CMDX), f.PairCmdxCmst, false, coin("uccmdx", 1000*unit), coin("ucmst", 300*unit))), "other borrow cmst")
	// ---- a second pool (main asset USDC, the same two transit assets): adding it creates the inter-pool pairs between the main
	// assets; owner and other each open a CROSS-POOL borrow (collateral CMDX, which is not a transit asset; debt USDC)
	must(k.AddAssetRatesPoolPairs(e.Ctx, lendtypes.AssetRatesPoolPairs{AssetID: f.USDC, UOptimal: d("0.8"), Base: d("0.002"), Slope1: d("0.06"), Slope2: d("0.6"),
		EnableStableBorrow: false, StableBase: d("0"), StableSlope1: d("0"), StableSlope2: d("0"), Ltv: d("0.8"), LiquidationThreshold: d("0.85"),
		LiquidationPenalty: d("0.025"), LiquidationBonus: d("0.025"), ReserveFactor: d("0.1"), CAssetID: f.CUSDC,
		ModuleName: "atom", CPoolName: "USDC-CMST-ATOM", AssetData: []*lendtypes.AssetDataPoolMapping{
			{AssetID: f.USDC, AssetTransitType: 1, SupplyCap: sdk.NewDec(5000000000000000000)},
			{AssetID: f.CMST, AssetTransitType: 2, SupplyCap: sdk.NewDec(5000000000000000000)},
			{AssetID: f.ATOM, AssetTransitType: 3, SupplyCap: sdk.NewDec(5000000000000000000)}},
		MinUsdValueLeft: 100000, IsIsolated: false}))
	ps := k.GetPools(e.Ctx)
	f.PoolTwo = ps[len(ps)-1].PoolID
	for _, p := range k.GetLendPairs(e.Ctx) {
		if p.IsInterPool && p.AssetIn == f.CMDX && p.AssetOut == f.USDC {
			f.PairCross = p.Id
		}
	}
	if f.PairCross == 0 {
		panic(fmt.Sprintf("inter-pool pair not created: %+v", k.GetLendPairs(e.Ctx)))
	}
	for _, x := range []struct {
		asset uint64
		denom string
	}{{f.USDC, "uusdc"}, {f.CMST, "ucmst"}, {f.ATOM, "uatom"}} {
		mustOK(e.Deliver(lendtypes.NewMsgLend(f.LP.String(), x.asset, coin(x.denom, 100000*unit), f.PoolTwo, f.AppCommodo)), "lp lend pool two "+x.denom)
	}
	for _, u := range []sdk.AccAddress{f.Owner, f.Other} {
		mustOK(e.Deliver(lendtypes.NewMsgBorrow(u.String(), lendOf(u, f.CMDX), f.PairCross, false, coin("uccmdx", 500*unit), coin("uusdc", 100*unit))), "cross-pool borrow")
	}
	// a borrow at the loan-to-value limit: becomes unsafe when the hook cells lower the CMDX price
	mustOK(e.Deliver(lendtypes.NewMsgLend(f.Risk.String(), f.CMDX, coin("ucmdx", 1000*unit), f.Pool, f.AppCommodo)), "risk lend")
	rl, _ := k.GetLendIDForAssetIDPoolID(e.Ctx, f.Risk.String(), f.CMDX, f.Pool)
	mustOK(e.Deliver(lendtypes.NewMsgBorrow(f.Risk.String(), rl, f.PairCmdxCmst, false, coin("uccmdx", 1000*unit), coin("ucmst", 990*unit))), "risk borrow")
}

// LendOf / BorrowOf return the ids of the user's CMDX lend position and of his CMST borrow (0 when absent).
func (f *Fix) LendOf(e *sim.Env, u sdk.AccAddress) uint64 {
	id, _ := e.App.LendKeeper.GetLendIDForAssetIDPoolID(e.Ctx, u.String(), f.CMDX, f.Pool)
	return id
}

func (f *Fix) BorrowOf(e *sim.Env, u sdk.AccAddress) uint64 {
	id, _ := e.App.LendKeeper.GetBorrowIDForAddressByPair(e.Ctx, u.String(), f.PairCmdxCmst)
	return id
}

func (f *Fix) liquiditySetup() {
	e := f.E
	k := e.App.LiquidityKeeper
	params, err := k.GetGenericParams(e.Ctx, f.AppCswap)
	must(err)
	fund(e, f.LP, params.PairCreationFee...)
	fund(e, f.LP, params.PoolCreationFee...)
	// two filler pairs so that the traded pair gets id 3 = app id (the market-making cancel path mixes the two ids up
	// when they differ; that defect belongs to C07 and would make the owner's own cancel a no-op here)
	fund(e, f.LP, params.PairCreationFee...)
	fund(e, f.LP, params.PairCreationFee...)
	mustOK(e.Deliver(liquiditytypes.NewMsgCreatePair(f.AppCswap, f.LP, "ucmdx", "uatom")), "create filler pair 1")
	mustOK(e.Deliver(liquiditytypes.NewMsgCreatePair(f.AppCswap, f.LP, "uatom", "ucmst")), "create filler pair 2")
	mustOK(e.Deliver(liquiditytypes.NewMsgCreatePair(f.AppCswap, f.LP, "ucmdx", "ucmst")), "create pair")
	pairs := k.GetAllPairs(e.Ctx, f.AppCswap)
	f.LPair = pairs[len(pairs)-1].Id
	f.AltPair = pairs[0].Id
	// a second liquidity app whose pair ids (and per-pair order ids) collide with those of cswap
	dparams, err := k.GetGenericParams(e.Ctx, f.AppDecoy)
	must(err)
	fund(e, f.LP, dparams.PairCreationFee...)
	mustOK(e.Deliver(liquiditytypes.NewMsgCreatePair(f.AppDecoy, f.LP, "ucmdx", "uatom")), "create decoy pair")
	f.DecoyPair = k.GetAllPairs(e.Ctx, f.AppDecoy)[0].Id
	// resting sell orders of owner, other and risk in the alt pair and in the decoy app, interleaved, enough of them that their
	// per-pair ids cover every order id handed out in the traded pair (limit orders + both market-making ladders)
	rest := func(app, pair uint64, u sdk.AccAddress, n int64) {
		offer := coin("ucmdx", n*unit)
		offer = offer.AddAmount(sdk.NewDecFromInt(offer.Amount).Mul(params.SwapFeeRate).RoundInt())
		mustOK(e.Deliver(liquiditytypes.NewMsgLimitOrder(app, u, pair, liquiditytypes.OrderDirectionSell, offer, "uatom", d("0.25"), i(n*unit), 12*time.Hour)), "resting order")
	}
	for n := int64(0); n < 20; n++ {
		for _, u := range []sdk.AccAddress{f.Owner, f.Other, f.Risk} {
			rest(f.AppCswap, f.AltPair, u, 1+n%3)
		}
	}
	for n := int64(0); n < 4; n++ {
		for _, u := range []sdk.AccAddress{f.Owner, f.Other, f.Risk} {
			rest(f.AppDecoy, f.DecoyPair, u, 1+n%3)
		}
	}
	mustOK(e.Deliver(liquiditytypes.NewMsgCreatePool(f.AppCswap, f.LP, f.LPair, sdk.NewCoins(coin("ucmdx", 1000*unit), coin("ucmst", 2000*unit)))), "create pool")
	pools := k.GetAllPools(e.Ctx, f.AppCswap)
	f.LPool = pools[len(pools)-1].Id
	f.PoolCoin = pools[len(pools)-1].PoolCoinDenom
	for _, u := range []sdk.AccAddress{f.Owner, f.Other} {
		// pool deposit (executed at the end of the batch), one resting limit order, one market-making ladder
		mustOK(e.Deliver(liquiditytypes.NewMsgDeposit(f.AppCswap, u, f.LPool, sdk.NewCoins(coin("ucmdx", 100*unit), coin("ucmst", 200*unit)))), "pool deposit")
		amt := i(50 * unit)
		offer := coin("ucmdx", 50*unit)
		offer = offer.AddAmount(sdk.NewDecFromInt(offer.Amount).Mul(params.SwapFeeRate).RoundInt())
		mustOK(e.Deliver(liquiditytypes.NewMsgLimitOrder(f.AppCswap, u, f.LPair, liquiditytypes.OrderDirectionSell, offer, "ucmst", d("2.15"), amt, 12*time.Hour)), "limit order")
		mustOK(e.Deliver(liquiditytypes.NewMsgMMOrder(f.AppCswap, u, f.LPair, d("2.19"), d("2.16"), i(40*unit), d("1.85"), d("1.82"), i(40*unit), 12*time.Hour)), "mm order")
	}
	br := e.NextBlock(6 * time.Second)
	if br.Panic {
		panic("liquidity block panicked: " + br.Err)
	}
	for _, u := range []sdk.AccAddress{f.Owner, f.Other} {
		bal := e.App.BankKeeper.GetBalance(e.Ctx, u, f.PoolCoin)
		if !bal.Amount.IsPositive() {
			panic("no pool coin after deposit")
		}
		half := sdk.NewCoin(f.PoolCoin, bal.Amount.QuoRaw(2))
		mustOK(e.Deliver(liquiditytypes.NewMsgFarm(f.AppCswap, f.LPool, u, half)), "farm")
	}
}
