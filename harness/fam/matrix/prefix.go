package matrix

import (
	"fmt"
	"sort"
	"strings"
	"time"

	sdk "github.com/cosmos/cosmos-sdk/types"

	auctionsV2types "github.com/comdex-official/comdex/x/auctionsV2/types"
	esmtypes "github.com/comdex-official/comdex/x/esm/types"
	lendtypes "github.com/comdex-official/comdex/x/lend/types"
	liquiditytypes "github.com/comdex-official/comdex/x/liquidity/types"
	lockertypes "github.com/comdex-official/comdex/x/locker/types"
	vaulttypes "github.com/comdex-official/comdex/x/vault/types"

	"vh/sim"
)

// urlToID binds the registered Msg types of the DeFi modules to the ids of spec/matrix/Catalogue.tla
// (<module>.<service method>).
var urlToID = map[string]string{
	"vault.MsgCreateRequest": "vault.MsgCreate", "vault.MsgDepositRequest": "vault.MsgDeposit", "vault.MsgWithdrawRequest": "vault.MsgWithdraw",
	"vault.MsgDrawRequest": "vault.MsgDraw", "vault.MsgRepayRequest": "vault.MsgRepay", "vault.MsgCloseRequest": "vault.MsgClose",
	"vault.MsgDepositAndDrawRequest": "vault.MsgDepositAndDraw", "vault.MsgCreateStableMintRequest": "vault.MsgCreateStableMint",
	"vault.MsgDepositStableMintRequest": "vault.MsgDepositStableMint", "vault.MsgWithdrawStableMintRequest": "vault.MsgWithdrawStableMint",
	"vault.MsgVaultInterestCalcRequest": "vault.MsgVaultInterestCalc",
	"locker.MsgCreateLockerRequest": "locker.MsgCreateLocker", "locker.MsgDepositAssetRequest": "locker.MsgDepositAsset",
	"locker.MsgWithdrawAssetRequest": "locker.MsgWithdrawAsset", "locker.MsgCloseLockerRequest": "locker.MsgCloseLocker",
	"locker.MsgLockerRewardCalcRequest": "locker.MsgLockerRewardCalc",
	"lend.MsgLend": "lend.Lend", "lend.MsgWithdraw": "lend.Withdraw", "lend.MsgDeposit": "lend.Deposit", "lend.MsgCloseLend": "lend.CloseLend",
	"lend.MsgBorrow": "lend.Borrow", "lend.MsgRepay": "lend.Repay", "lend.MsgDepositBorrow": "lend.DepositBorrow", "lend.MsgDraw": "lend.Draw",
	"lend.MsgCloseBorrow": "lend.CloseBorrow", "lend.MsgBorrowAlternate": "lend.BorrowAlternate", "lend.MsgFundModuleAccounts": "lend.FundModuleAccounts",
	"lend.MsgCalculateInterestAndRewards": "lend.CalculateInterestAndRewards", "lend.MsgFundReserveAccounts": "lend.FundReserveAccounts",
	"lend.MsgRepayWithdraw": "lend.RepayWithdraw",
	"liquidity.MsgCreatePair": "liquidity.CreatePair", "liquidity.MsgCreatePool": "liquidity.CreatePool", "liquidity.MsgCreateRangedPool": "liquidity.CreateRangedPool",
	"liquidity.MsgDeposit": "liquidity.Deposit", "liquidity.MsgWithdraw": "liquidity.Withdraw", "liquidity.MsgLimitOrder": "liquidity.LimitOrder",
	"liquidity.MsgMarketOrder": "liquidity.MarketOrder", "liquidity.MsgMMOrder": "liquidity.MMOrder", "liquidity.MsgCancelOrder": "liquidity.CancelOrder",
	"liquidity.MsgCancelAllOrders": "liquidity.CancelAllOrders", "liquidity.MsgCancelMMOrder": "liquidity.CancelMMOrder", "liquidity.MsgFarm": "liquidity.Farm",
	"liquidity.MsgUnfarm": "liquidity.Unfarm", "liquidity.MsgDepositAndFarm": "liquidity.DepositAndFarm", "liquidity.MsgUnfarmAndWithdraw": "liquidity.UnfarmAndWithdraw",
	"auctionsV2.MsgPlaceMarketBidRequest": "auctionsV2.MsgPlaceMarketBid", "auctionsV2.MsgDepositLimitBidRequest": "auctionsV2.MsgDepositLimitBid",
	"auctionsV2.MsgCancelLimitBidRequest": "auctionsV2.MsgCancelLimitBid", "auctionsV2.MsgWithdrawLimitBidRequest": "auctionsV2.MsgWithdrawLimitBid",
	"liquidationsV2.MsgLiquidateInternalKeeperRequest": "liquidationsV2.MsgLiquidateInternalKeeper",
	"liquidationsV2.MsgAppReserveFundsRequest": "liquidationsV2.MsgAppReserveFunds", "liquidationsV2.MsgLiquidateExternalKeeperRequest": "liquidationsV2.MsgLiquidateExternalKeeper",
	"liquidation.MsgLiquidateVaultRequest": "liquidation.MsgLiquidateVault", "liquidation.MsgLiquidateBorrowRequest": "liquidation.MsgLiquidateBorrow",
	"auction.MsgPlaceSurplusBidRequest": "auction.MsgPlaceSurplusBid", "auction.MsgPlaceDebtBidRequest": "auction.MsgPlaceDebtBid",
	"auction.MsgPlaceDutchBidRequest": "auction.MsgPlaceDutchBid", "auction.MsgPlaceDutchLendBidRequest": "auction.MsgPlaceDutchLendBid",
	"esm.MsgDepositESM": "esm.DepositESM", "esm.MsgExecuteESM": "esm.ExecuteESM", "esm.MsgKillRequest": "esm.MsgKillSwitch",
	"esm.MsgCollateralRedemptionRequest": "esm.MsgCollateralRedemption",
	"rewards.MsgCreateGauge": "rewards.CreateGauge", "rewards.ActivateExternalRewardsLockers": "rewards.ExternalRewardsLockers",
	"rewards.ActivateExternalRewardsVault": "rewards.ExternalRewardsVault", "rewards.ActivateExternalRewardsLend": "rewards.ExternalRewardsLend",
	"rewards.ActivateExternalRewardsStableMint": "rewards.ExternalRewardsStableMint",
	"collector.MsgDeposit": "collector.Deposit", "tokenmint.MsgMintNewTokensRequest": "tokenmint.MsgMintNewTokens", "asset.MsgAddAsset": "asset.AddAsset",
}

// RoutedIDs lists the Msg types of the comdex modules that the application's message router can deliver,
// as catalogue ids (or the raw type URL when the binding above does not know the type).
func (f *Fix) RoutedIDs() []string {
	var out []string
	for _, url := range f.E.App.InterfaceRegistry().ListImplementations(sdk.MsgInterfaceProtoName) {
		if !strings.HasPrefix(url, "/comdex.") {
			continue
		}
		msg, err := f.E.App.InterfaceRegistry().Resolve(url)
		if err != nil {
			continue
		}
		m, ok := msg.(sdk.Msg)
		if !ok || f.E.App.MsgServiceRouter().Handler(m) == nil {
			continue
		}
		p := strings.Split(strings.TrimPrefix(url, "/comdex."), ".") // module, version, type
		k := p[0] + "." + p[len(p)-1]
		if id, ok := urlToID[k]; ok {
			out = append(out, id)
		} else {
			out = append(out, url)
		}
	}
	sort.Strings(out)
	return out
}

// RandomPrefix applies a seeded sequence of operations to s (owner, other and the risk account acting on their own
// positions, blocks with time gaps, mild price moves) and returns the names of those that succeeded. It produces
// the non-fresh states on which the matrices are executed again: positions with accrued interest, partially
// repaid / topped-up positions, an already liquidated vault, extra orders.
func (f *Fix) RandomPrefix(s *sim.Env, rng *sim.Rng, steps int) []string {
	done := []string{}
	users := []sdk.AccAddress{f.Owner, f.Other}
	amt := func() int64 { return []int64{1, 2, 3, 5, 8}[rng.Intn(5)] * unit }
	liquidated := false
	steps = steps/2 + rng.Intn(steps+1) // histories of different lengths
	for n := 0; n < steps; n++ {
		u := users[rng.Intn(2)]
		var name string
		var msg sdk.Msg
		switch rng.Intn(23) {
		case 21:
			// the other user closes one of his own positions (shifts lookup tables / counters next to the owner's positions)
			u = f.Other
			name, msg = "vault.close", &vaulttypes.MsgCloseRequest{From: u.String(), AppId: f.AppHarbor, ExtendedPairVaultId: f.EpAtom, UserVaultId: f.vaultID(s, u, f.EpAtom)}
		case 22:
			u = f.Other
			name, msg = "locker.close", &lockertypes.MsgCloseLockerRequest{Depositor: u.String(), AppId: f.AppHarbor, AssetId: f.CMST, LockerId: f.lockerID(s, u)}
		case 20:
			// breaker switched on and off again by the admin: leaves a kill-switch record with BreakerEnable = false
			app := []uint64{f.AppHarbor, f.AppCommodo}[rng.Intn(2)]
			r1 := s.Deliver(esmtypes.NewMsgKillRequest(f.Admin, esmtypes.KillSwitchParams{AppId: app, BreakerEnable: true}))
			r2 := s.Deliver(esmtypes.NewMsgKillRequest(f.Admin, esmtypes.KillSwitchParams{AppId: app, BreakerEnable: false}))
			if r1.OK && r2.OK {
				done = append(done, fmt.Sprintf("breaker on/off app %d", app))
			}
			continue
		case 0, 1:
			dt := []time.Duration{6 * time.Second, time.Hour, 24 * time.Hour, 7 * 24 * time.Hour}[rng.Intn(4)]
			if br := s.NextBlock(dt); br.Panic {
				panic("prefix block panicked: " + br.Err)
			}
			done = append(done, fmt.Sprintf("block+%s", dt))
			continue
		case 2:
			p := []uint64{1900000, 2000000, 2100000, 2300000}[rng.Intn(4)]
			SetPrice(s, f.CMDX, p, true)
			done = append(done, fmt.Sprintf("price CMDX=%d", p))
			continue
		case 3:
			if liquidated {
				continue
			}
			// price dip: the risk account's vault and borrow are seized by the V2 sweep, then the price recovers
			liquidated = true
			SetPrice(s, f.CMDX, 1500000, true)
			s.NextBlock(6 * time.Second)
			SetPrice(s, f.CMDX, 2000000, true)
			done = append(done, "dip+sweep")
			continue
		case 4:
			name, msg = "vault.deposit", &vaulttypes.MsgDepositRequest{From: u.String(), AppId: f.AppHarbor, ExtendedPairVaultId: f.EpCmdx, UserVaultId: f.vaultID(s, u, f.EpCmdx), Amount: i(amt())}
		case 5:
			name, msg = "vault.draw", &vaulttypes.MsgDrawRequest{From: u.String(), AppId: f.AppHarbor, ExtendedPairVaultId: f.EpCmdx, UserVaultId: f.vaultID(s, u, f.EpCmdx), Amount: i(amt())}
		case 6:
			name, msg = "vault.repay", &vaulttypes.MsgRepayRequest{From: u.String(), AppId: f.AppHarbor, ExtendedPairVaultId: f.EpCmdx, UserVaultId: f.vaultID(s, u, f.EpCmdx), Amount: i(amt())}
		case 7:
			name, msg = "vault.withdraw", &vaulttypes.MsgWithdrawRequest{From: u.String(), AppId: f.AppHarbor, ExtendedPairVaultId: f.EpAtom, UserVaultId: f.vaultID(s, u, f.EpAtom), Amount: i(amt() / 10)}
		case 8:
			name, msg = "locker.deposit", &lockertypes.MsgDepositAssetRequest{Depositor: u.String(), LockerId: f.lockerID(s, u), Amount: i(amt()), AssetId: f.CMST, AppId: f.AppHarbor}
		case 9:
			name, msg = "locker.withdraw", &lockertypes.MsgWithdrawAssetRequest{Depositor: u.String(), LockerId: f.lockerID(s, u), Amount: i(amt()), AssetId: f.CMST, AppId: f.AppHarbor}
		case 10:
			name, msg = "lend.deposit", lendtypes.NewMsgDeposit(u.String(), f.lendOf(s, u, f.CMDX), sdk.NewCoin("ucmdx", i(amt())))
		case 11:
			name, msg = "lend.withdraw", lendtypes.NewMsgWithdraw(u.String(), f.lendOf(s, u, f.ATOM), sdk.NewCoin("uatom", i(amt()/10)))
		case 12:
			name, msg = "lend.repay", lendtypes.NewMsgRepay(u.String(), f.borrowOf(s, u, f.PairCmdxCmst), sdk.NewCoin("ucmst", i(amt())))
		case 13:
			name, msg = "lend.draw", lendtypes.NewMsgDraw(u.String(), f.borrowOf(s, u, f.PairCmdxCmst), sdk.NewCoin("ucmst", i(amt())))
		case 14:
			name, msg = "lend.depositborrow", lendtypes.NewMsgDepositBorrow(u.String(), f.borrowOf(s, u, f.PairCmdxCmst), sdk.NewCoin("uccmdx", i(amt())))
		case 15:
			name, msg = "limitbid.deposit", &auctionsV2types.MsgDepositLimitBidRequest{Bidder: u.String(), CollateralTokenId: f.CMDX, DebtTokenId: f.CMST,
				PremiumDiscount: i(map[bool]int64{true: 5, false: 7}[u.Equals(f.Owner)]), Amount: sdk.NewCoin("ucmst", i(amt()))}
		case 16:
			name, msg = "vault.interest", &vaulttypes.MsgVaultInterestCalcRequest{From: u.String(), AppId: f.AppHarbor, UserVaultId: f.vaultID(s, u, f.EpCmdx)}
		case 17:
			name, msg = "lend.calc", lendtypes.NewMsgCalculateInterestAndRewards(u.String())
		case 18:
			offer := sdk.NewCoin("ucmdx", i(amt()))
			offer = offer.AddAmount(sdk.NewDecFromInt(offer.Amount).Mul(d("0.003")).RoundInt())
			name, msg = "liquidity.limit", liquiditytypes.NewMsgLimitOrder(f.AppCswap, u, f.LPair, liquiditytypes.OrderDirectionSell, offer, "ucmst", d("2.17"), offer.Amount.QuoRaw(2), 12*time.Hour)
		case 19:
			name, msg = "vault.depositdraw", &vaulttypes.MsgDepositAndDrawRequest{From: u.String(), AppId: f.AppHarbor, ExtendedPairVaultId: f.EpCmdx, UserVaultId: f.vaultID(s, u, f.EpCmdx), Amount: i(amt())}
		}
		if msg == nil {
			continue
		}
		if r := s.Deliver(msg); r.OK {
			who := "owner"
			if u.Equals(f.Other) {
				who = "other"
			}
			done = append(done, name+":"+who)
		}
	}
	// leave the placement batch of any order placed above
	if br := s.NextBlock(6 * time.Second); br.Panic {
		panic("prefix block panicked: " + br.Err)
	}
	return done
}
