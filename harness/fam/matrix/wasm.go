package matrix

import (
	"encoding/json"

	wasmkeeper "github.com/CosmWasm/wasmd/x/wasm/keeper"
	wasmvmtypes "github.com/CosmWasm/wasmvm/types"
	sdk "github.com/cosmos/cosmos-sdk/types"

	"github.com/comdex-official/comdex/app/wasm"
	"github.com/comdex-official/comdex/app/wasm/bindings"

	"vh/sim"
)

// The designated contract addresses per network (statement: "the designated governance contracts"). They are
// data of the networks, not logic; the spec only speaks of "designated contract 0 / 1 of the chain".
var designated = map[string][2]string{
	"comdex-1":     {"comdex17p9rzwnnfxcjp32un9ug7yhhzgtkhvl9jfksztgw5uh69wac2pgs4jg6dx", "comdex1nc5tatafv6eyq7llkr2gv50ff9e22mnf70qgjlv737ktmt4eswrqdfklyz"},
	"comdex-test3": {"comdex1qwlgtx52gsdu7dtp0cekka5zehdl0uj3fhp9acg325fvgs8jdzksjvgq6q", "comdex1ghd753shjuwexxywmgs4xz7x2q732vcnkm6h2pyv9s6ah3hylvrqfy9rd8"},
}

// SenderAddr resolves the symbolic sender of a privileged cell on a chain.
func (f *Fix) SenderAddr(chain, sender string) sdk.AccAddress {
	home := chain
	if home != "comdex-1" && home != "comdex-test3" {
		home = "comdex-1"
	}
	away := "comdex-test3"
	if home == "comdex-test3" {
		away = "comdex-1"
	}
	var s string
	switch sender {
	case "d0":
		s = designated[home][0]
	case "d1":
		s = designated[home][1]
	case "o0":
		s = designated[away][0]
	case "o1":
		s = designated[away][1]
	case "admin":
		return f.Admin
	default:
		return sim.Addr("unrelated-contract")
	}
	a, err := sdk.AccAddressFromBech32(s)
	must(err)
	return a
}

func (f *Fix) messenger(e *sim.Env) wasmkeeper.Messenger {
	a := e.App
	return wasm.CustomMessageDecorator(a.LockerKeeper, a.Rewardskeeper, a.AssetKeeper, a.CollectorKeeper, a.LiquidationKeeper,
		a.AuctionKeeper, a.TokenmintKeeper, a.EsmKeeper, a.VaultKeeper, a.LiquidityKeeper)(nil)
}

// Payload builds a custom message of the given variant that the keepers accept on the fixture when no sender
// guard interferes. `sender` is needed because two variants move funds of / to the calling contract.
// `named` is the address the payload's own address-like field carries (Auth.tla PaysOf): the caller, the designated contract
// or a third account; nil = the variant's default.
func (f *Fix) Payload(v string, sender, named sdk.AccAddress) bindings.ComdexMessages {
	if named == nil {
		named = sender
		if v == "MsgBurnGovTokensForApp" {
			named = f.LP
		}
		if v == "MsgFoundationEmission" {
			named = f.Other
		}
	}
	var m bindings.ComdexMessages
	switch v {
	case "MsgWhiteListAssetLocker":
		m.MsgWhiteListAssetLocker = &bindings.MsgWhiteListAssetLocker{AppID: f.AppHarbor, AssetID: f.ATOM}
	case "MsgWhitelistAppIDLockerRewards":
		m.MsgWhitelistAppIDLockerRewards = &bindings.MsgWhitelistAppIDLockerRewards{AppID: f.AppHarbor, AssetID: f.USDC}
	case "MsgWhitelistAppIDVaultInterest":
		m.MsgWhitelistAppIDVaultInterest = &bindings.MsgWhitelistAppIDVaultInterest{AppID: f.AppCommodo}
	case "MsgAddExtendedPairsVault":
		m.MsgAddExtendedPairsVault = &bindings.MsgAddExtendedPairsVault{AppID: f.AppHarbor, PairID: 1, StabilityFee: d("0.03"), ClosingFee: d("0"),
			LiquidationPenalty: d("0.12"), DrawDownFee: d("0.01"), IsVaultActive: true, DebtCeiling: i(1000000 * unit), DebtFloor: i(1 * unit),
			IsStableMintVault: false, MinCr: d("1.7"), PairName: "CMDX-Z", AssetOutOraclePrice: true, AssetOutPrice: 1000000, MinUsdValueLeft: 100000}
	case "MsgSetCollectorLookupTable":
		m.MsgSetCollectorLookupTable = &bindings.MsgSetCollectorLookupTable{AppID: f.AppHarbor, CollectorAssetID: f.ATOM, SecondaryAssetID: f.HARBOR,
			SurplusThreshold: i(10 * unit), DebtThreshold: i(5 * unit), LockerSavingRate: d("0.1"), LotSize: i(200000), BidFactor: d("0.01"), DebtLotSize: i(2 * unit)}
	case "MsgSetAuctionMappingForApp":
		m.MsgSetAuctionMappingForApp = &bindings.MsgSetAuctionMappingForApp{AppID: f.AppHarbor, AssetIDs: f.CMST, IsSurplusAuctions: false,
			IsDebtAuctions: true, IsDistributor: false, AssetOutOraclePrices: false, AssetOutPrices: 1000000}
	case "MsgUpdatePairsVault":
		m.MsgUpdatePairsVault = &bindings.MsgUpdatePairsVault{AppID: f.AppHarbor, ExtPairID: f.EpCmdx, StabilityFee: d("0.02"), ClosingFee: d("0"),
			LiquidationPenalty: d("0.12"), DrawDownFee: d("0.01"), IsVaultActive: true, MinCr: d("1.1"), DebtCeiling: i(1000000000 * unit),
			DebtFloor: i(1 * unit), MinUsdValueLeft: 100000}
	case "MsgUpdateCollectorLookupTable":
		m.MsgUpdateCollectorLookupTable = &bindings.MsgUpdateCollectorLookupTable{AppID: f.AppHarbor, AssetID: f.CMST, DebtThreshold: i(6 * unit),
			SurplusThreshold: i(11 * unit), LotSize: i(300000), DebtLotSize: i(3 * unit), BidFactor: d("0.02"), LSR: d("0.1")}
	case "MsgRemoveWhitelistAssetLocker":
		m.MsgRemoveWhitelistAssetLocker = &bindings.MsgRemoveWhitelistAssetLocker{AppID: f.AppHarbor, AssetID: f.CMST}
	case "MsgRemoveWhitelistAppIDVaultInterest":
		m.MsgRemoveWhitelistAppIDVaultInterest = &bindings.MsgRemoveWhitelistAppIDVaultInterest{AppMappingID: f.AppHarbor}
	case "MsgWhitelistAppIDLiquidation":
		m.MsgWhitelistAppIDLiquidation = &bindings.MsgWhitelistAppIDLiquidation{AppID: f.AppCommodo}
	case "MsgRemoveWhitelistAppIDLiquidation":
		m.MsgRemoveWhitelistAppIDLiquidation = &bindings.MsgRemoveWhitelistAppIDLiquidation{AppID: f.AppHarbor}
	case "MsgAddAuctionParams":
		m.MsgAddAuctionParams = &bindings.MsgAddAuctionParams{AppID: f.AppCswap, AuctionDurationSeconds: 1800, Buffer: d("1.2"), Cusp: d("0.7"),
			Step: 360, PriceFunctionType: 1, SurplusID: 1, DebtID: 2, DutchID: 3, BidDurationSeconds: 600}
	case "MsgBurnGovTokensForApp":
		m.MsgBurnGovTokensForApp = &bindings.MsgBurnGovTokensForApp{AppID: f.AppHarbor, From: named, Amount: coin("uharbor", 7*unit)}
	case "MsgAddESMTriggerParams":
		m.MsgAddESMTriggerParams = &bindings.MsgAddESMTriggerParams{AppID: f.AppCswap, TargetValue: coin("uharbor", 5*unit), CoolOffPeriod: 60,
			AssetID: []uint64{f.CMST}, Rates: []uint64{1000000}}
	case "MsgEmissionRewards":
		m.MsgEmissionRewards = &bindings.MsgEmissionRewards{AppID: f.AppHarbor, Amount: i(1000 * unit), EmissionAmount: 0,
			ExtendedPair: []uint64{f.EpCmdx}, VotingRatio: []sdk.Int{i(10)}}
	case "MsgFoundationEmission":
		m.MsgFoundationEmission = &bindings.MsgFoundationEmission{AppID: f.AppHarbor, Amount: i(100 * unit), FoundationAddress: []string{named.String()}}
	case "MsgRebaseMint":
		m.MsgRebaseMint = &bindings.MsgRebaseMint{AppID: f.AppHarbor, Amount: i(100 * unit), ContractAddr: named}
	case "MsgGetSurplusFund":
		m.MsgGetSurplusFund = &bindings.MsgGetSurplusFund{AppID: f.AppHarbor, AssetID: f.CMST, ContractAddr: named, Amount: coin("ucmst", 1*unit)}
	case "MsgEmissionPoolRewards":
		m.MsgEmissionPoolRewards = &bindings.MsgEmissionPoolRewards{AppID: f.AppHarbor, CswapAppID: f.AppCswap, Amount: i(100 * unit),
			Pools: []uint64{f.LPool}, VotingRatio: []sdk.Int{i(10)}}
	default:
		panic("unknown variant " + v)
	}
	return m
}

// Dispatch sends the custom message from `sender` on a context with the given chain id, with the atomicity the
// wasm keeper gives a contract call (state written back only on success).
func (f *Fix) Dispatch(e *sim.Env, chain string, sender, named sdk.AccAddress, v string) (res sim.Result) {
	raw, err := json.Marshal(f.Payload(v, sender, named))
	must(err)
	cctx, write := e.Ctx.WithChainID(chain).CacheContext()
	p, ps := noPanic(func() {
		_, _, err = f.messenger(e).DispatchMsg(cctx, sender, "", wasmvmtypes.CosmosMsg{Custom: raw})
	})
	if p {
		return sim.Result{OK: false, Panic: true, Err: ps}
	}
	if err != nil {
		return sim.Result{OK: false, Err: err.Error()}
	}
	write()
	return sim.Result{OK: true}
}
