package matrix

import (
	"crypto/sha256"
	"encoding/hex"
	"fmt"
	"sort"
	"strings"
	"time"

	abci "github.com/cometbft/cometbft/abci/types"
	sdk "github.com/cosmos/cosmos-sdk/types"
	"github.com/cosmos/cosmos-sdk/x/params"
	paramproposal "github.com/cosmos/cosmos-sdk/x/params/types/proposal"

	"github.com/comdex-official/comdex/app/wasm/bindings"
	"github.com/comdex-official/comdex/x/auction"
	"github.com/comdex-official/comdex/x/auctionsV2"
	auctionsV2types "github.com/comdex-official/comdex/x/auctionsV2/types"
	esmtypes "github.com/comdex-official/comdex/x/esm/types"
	lendtypes "github.com/comdex-official/comdex/x/lend/types"
	"github.com/comdex-official/comdex/x/liquidation"
	liquidationtypes "github.com/comdex-official/comdex/x/liquidation/types"
	"github.com/comdex-official/comdex/x/liquidationsV2"
	liquidationsV2types "github.com/comdex-official/comdex/x/liquidationsV2/types"
	liquiditytypes "github.com/comdex-official/comdex/x/liquidity/types"
	lockertypes "github.com/comdex-official/comdex/x/locker/types"
	vaulttypes "github.com/comdex-official/comdex/x/vault/types"

	"vh/sim"
)

// ---------------------------------------------------------------------------------------------------
// message builders: (fixture, env, signer, holder of the named position, vault product) -> sdk.Msg
// `holder` is the account whose position is named (owner matrix: always the owner; control matrix: the signer).

type builder func(f *Fix, e *sim.Env, signer, holder sdk.AccAddress, prod string, ax Ax) sdk.Msg

// Ax = the argument axes of an owner cell (Auth.tla): which amount the message carries relative to the named position's
// whole balance, and which pair / app an order message names.
type Ax struct{ Amt, Scope string }

// amount picks the message amount: a small fixed one, exactly `whole` (the position's whole available balance), or one unit more.
func (ax Ax) amount(small int64, whole sdk.Int) sdk.Int {
	switch ax.Amt {
	case "zero":
		return sdk.ZeroInt()
	case "whole":
		if whole.IsPositive() {
			return whole
		}
	case "over":
		if whole.IsPositive() {
			return whole.AddRaw(1)
		}
	}
	return i(small)
}

func (f *Fix) ep(prod string) uint64 {
	if prod == "fixed" {
		return f.EpAtom
	}
	return f.EpCmdx
}

func (f *Fix) vaultID(e *sim.Env, u sdk.AccAddress, ep uint64) uint64 {
	m, _ := e.App.VaultKeeper.GetUserAppExtendedPairMappingData(e.Ctx, u.String(), f.AppHarbor, ep)
	return m.VaultId
}

func (f *Fix) lockerID(e *sim.Env, u sdk.AccAddress) uint64 {
	m, _ := e.App.LockerKeeper.GetUserLockerAssetMapping(e.Ctx, u.String(), f.AppHarbor, f.CMST)
	return m.LockerId
}

func (f *Fix) stableID(e *sim.Env, ep uint64) uint64 {
	for _, s := range e.App.VaultKeeper.GetStableMintVaults(e.Ctx) {
		if s.ExtendedPairVaultID == ep && s.AppId == f.AppHarbor {
			return s.Id
		}
	}
	return 0
}

func (f *Fix) lendOf(e *sim.Env, u sdk.AccAddress, asset uint64) uint64 {
	id, _ := e.App.LendKeeper.GetLendIDForAssetIDPoolID(e.Ctx, u.String(), asset, f.Pool)
	return id
}

func (f *Fix) borrowOf(e *sim.Env, u sdk.AccAddress, pair uint64) uint64 {
	id, _ := e.App.LendKeeper.GetBorrowIDForAddressByPair(e.Ctx, u.String(), pair)
	return id
}

func (f *Fix) vaultOf(e *sim.Env, u sdk.AccAddress, prod string) vaulttypes.Vault {
	v, _ := e.App.VaultKeeper.GetVault(e.Ctx, f.vaultID(e, u, f.ep(prod)))
	if v.AmountIn.IsNil() {
		v.AmountIn, v.AmountOut, v.InterestAccumulated = sdk.ZeroInt(), sdk.ZeroInt(), sdk.ZeroInt()
	}
	return v
}

func (f *Fix) lockerOf(e *sim.Env, u sdk.AccAddress) lockertypes.Locker {
	l, _ := e.App.LockerKeeper.GetLocker(e.Ctx, f.lockerID(e, u))
	if l.NetBalance.IsNil() {
		l.NetBalance = sdk.ZeroInt()
	}
	return l
}

func (f *Fix) lendPos(e *sim.Env, u sdk.AccAddress, asset uint64) lendtypes.LendAsset {
	l, _ := e.App.LendKeeper.GetLend(e.Ctx, f.lendOf(e, u, asset))
	if l.AvailableToBorrow.IsNil() {
		l.AvailableToBorrow, l.AmountIn = sdk.ZeroInt(), sdk.NewCoin("uatom", sdk.ZeroInt())
	}
	return l
}

// pairOf / debtDenom: the lend pair and debt denom of the position shape (same-pool CMDX->CMST, cross-pool CMDX->USDC).
func (f *Fix) pairOf(prod string) uint64 {
	if prod == "cross" {
		return f.PairCross
	}
	return f.PairCmdxCmst
}

func (f *Fix) debtDenom(prod string) string {
	if prod == "cross" {
		return "uusdc"
	}
	return "ucmst"
}

func (f *Fix) borrowPosP(e *sim.Env, u sdk.AccAddress, prod string) lendtypes.BorrowAsset {
	b, found := e.App.LendKeeper.GetBorrow(e.Ctx, f.borrowOf(e, u, f.pairOf(prod)))
	if !found {
		b.AmountIn, b.AmountOut, b.InterestAccumulated = sdk.NewCoin("uccmdx", sdk.ZeroInt()), sdk.NewCoin(f.debtDenom(prod), sdk.ZeroInt()), sdk.ZeroDec()
	}
	return b
}

func (f *Fix) borrowPos(e *sim.Env, u sdk.AccAddress) lendtypes.BorrowAsset {
	b, found := e.App.LendKeeper.GetBorrow(e.Ctx, f.borrowOf(e, u, f.PairCmdxCmst))
	if !found {
		b.AmountIn, b.AmountOut, b.InterestAccumulated = sdk.NewCoin("uccmdx", sdk.ZeroInt()), sdk.NewCoin("ucmst", sdk.ZeroInt()), sdk.ZeroDec()
	}
	return b
}

func (f *Fix) farmed(e *sim.Env, u sdk.AccAddress) sdk.Int {
	t := sdk.ZeroInt()
	if af, found := e.App.LiquidityKeeper.GetActiveFarmer(e.Ctx, f.AppCswap, f.LPool, u); found {
		t = t.Add(af.FarmedPoolCoin.Amount)
	}
	if qf, found := e.App.LiquidityKeeper.GetQueuedFarmer(e.Ctx, f.AppCswap, f.LPool, u); found {
		for _, q := range qf.QueudCoins {
			t = t.Add(q.FarmedPoolCoin.Amount)
		}
	}
	return t
}

func (f *Fix) limitBid(e *sim.Env, u sdk.AccAddress) sdk.Int {
	if lb, found := e.App.NewaucKeeper.GetUserLimitBidData(e.Ctx, f.CMST, f.CMDX, i(f.premiumOf(u)), u.String()); found {
		return lb.DebtToken.Amount
	}
	return sdk.ZeroInt()
}

// scopeOf: the app and pair an order message names.
func (f *Fix) scopeOf(ax Ax) (app, pair uint64) {
	switch ax.Scope {
	case "alt":
		return f.AppCswap, f.AltPair
	case "decoy":
		return f.AppDecoy, f.DecoyPair
	}
	return f.AppCswap, f.LPair
}

func (f *Fix) restingOrderIn(e *sim.Env, u sdk.AccAddress, app, pair uint64) uint64 {
	var id uint64
	_ = e.App.LiquidityKeeper.IterateOrdersByOrderer(e.Ctx, app, u, func(o liquiditytypes.Order) (bool, error) {
		if o.PairId == pair && o.Type == liquiditytypes.OrderTypeLimit && o.Status != liquiditytypes.OrderStatusCanceled && id == 0 {
			id = o.Id
		}
		return false, nil
	})
	return id
}

func (f *Fix) restingOrder(e *sim.Env, u sdk.AccAddress) uint64 {
	var id uint64
	_ = e.App.LiquidityKeeper.IterateOrdersByOrderer(e.Ctx, f.AppCswap, u, func(o liquiditytypes.Order) (bool, error) {
		if o.Type == liquiditytypes.OrderTypeLimit && o.Status != liquiditytypes.OrderStatusCanceled && id == 0 {
			id = o.Id
		}
		return false, nil
	})
	return id
}

// premiumOf: the premium under which the holder keeps his limit bid (owner 5, other 7; the risk account has none).
func (f *Fix) premiumOf(h sdk.AccAddress) int64 {
	switch {
	case h.Equals(f.Owner):
		return 5
	case h.Equals(f.Other):
		return 7
	}
	return 9
}

func collDenom(prod string) string {
	if prod == "fixed" {
		return "uatom"
	}
	return "ucmdx"
}

var builders = map[string]builder{
	// ---- vault
	"vault.MsgCreate": func(f *Fix, e *sim.Env, s, h sdk.AccAddress, prod string, ax Ax) sdk.Msg {
		in := int64(1000)
		if prod == "fixed" {
			in = 100
		}
		return &vaulttypes.MsgCreateRequest{From: s.String(), AppId: f.AppHarbor, ExtendedPairVaultId: f.ep(prod), AmountIn: i(in * unit), AmountOut: i(300 * unit)}
	},
	"vault.MsgDeposit": func(f *Fix, e *sim.Env, s, h sdk.AccAddress, prod string, ax Ax) sdk.Msg {
		return &vaulttypes.MsgDepositRequest{From: s.String(), AppId: f.AppHarbor, ExtendedPairVaultId: f.ep(prod), UserVaultId: f.vaultID(e, h, f.ep(prod)), Amount: ax.amount(10*unit, f.vaultOf(e, h, prod).AmountIn)}
	},
	"vault.MsgWithdraw": func(f *Fix, e *sim.Env, s, h sdk.AccAddress, prod string, ax Ax) sdk.Msg {
		return &vaulttypes.MsgWithdrawRequest{From: s.String(), AppId: f.AppHarbor, ExtendedPairVaultId: f.ep(prod), UserVaultId: f.vaultID(e, h, f.ep(prod)), Amount: ax.amount(1*unit, f.vaultOf(e, h, prod).AmountIn)}
	},
	"vault.MsgDraw": func(f *Fix, e *sim.Env, s, h sdk.AccAddress, prod string, ax Ax) sdk.Msg {
		return &vaulttypes.MsgDrawRequest{From: s.String(), AppId: f.AppHarbor, ExtendedPairVaultId: f.ep(prod), UserVaultId: f.vaultID(e, h, f.ep(prod)), Amount: ax.amount(5*unit, f.vaultOf(e, h, prod).AmountOut)}
	},
	"vault.MsgRepay": func(f *Fix, e *sim.Env, s, h sdk.AccAddress, prod string, ax Ax) sdk.Msg {
		return &vaulttypes.MsgRepayRequest{From: s.String(), AppId: f.AppHarbor, ExtendedPairVaultId: f.ep(prod), UserVaultId: f.vaultID(e, h, f.ep(prod)), Amount: ax.amount(5*unit, f.vaultOf(e, h, prod).AmountOut.Add(f.vaultOf(e, h, prod).InterestAccumulated))}
	},
	"vault.MsgClose": func(f *Fix, e *sim.Env, s, h sdk.AccAddress, prod string, ax Ax) sdk.Msg {
		return &vaulttypes.MsgCloseRequest{From: s.String(), AppId: f.AppHarbor, ExtendedPairVaultId: f.ep(prod), UserVaultId: f.vaultID(e, h, f.ep(prod))}
	},
	"vault.MsgDepositAndDraw": func(f *Fix, e *sim.Env, s, h sdk.AccAddress, prod string, ax Ax) sdk.Msg {
		return &vaulttypes.MsgDepositAndDrawRequest{From: s.String(), AppId: f.AppHarbor, ExtendedPairVaultId: f.ep(prod), UserVaultId: f.vaultID(e, h, f.ep(prod)), Amount: ax.amount(10*unit, f.vaultOf(e, h, prod).AmountIn)}
	},
	"vault.MsgCreateStableMint": func(f *Fix, e *sim.Env, s, h sdk.AccAddress, prod string, ax Ax) sdk.Msg {
		return &vaulttypes.MsgCreateStableMintRequest{From: s.String(), AppId: f.AppHarbor, ExtendedPairVaultId: f.EpStable2, Amount: i(100 * unit)}
	},
	"vault.MsgDepositStableMint": func(f *Fix, e *sim.Env, s, h sdk.AccAddress, prod string, ax Ax) sdk.Msg {
		return &vaulttypes.MsgDepositStableMintRequest{From: s.String(), AppId: f.AppHarbor, ExtendedPairVaultId: f.EpStable, Amount: i(100 * unit), StableVaultId: f.stableID(e, f.EpStable)}
	},
	"vault.MsgWithdrawStableMint": func(f *Fix, e *sim.Env, s, h sdk.AccAddress, prod string, ax Ax) sdk.Msg {
		return &vaulttypes.MsgWithdrawStableMintRequest{From: s.String(), AppId: f.AppHarbor, ExtendedPairVaultId: f.EpStable, Amount: i(100 * unit), StableVaultId: f.stableID(e, f.EpStable)}
	},
	"vault.MsgVaultInterestCalc": func(f *Fix, e *sim.Env, s, h sdk.AccAddress, prod string, ax Ax) sdk.Msg {
		return &vaulttypes.MsgVaultInterestCalcRequest{From: s.String(), AppId: f.AppHarbor, UserVaultId: f.vaultID(e, h, f.ep(prod))}
	},
	// ---- locker
	"locker.MsgCreateLocker": func(f *Fix, e *sim.Env, s, h sdk.AccAddress, prod string, ax Ax) sdk.Msg {
		return &lockertypes.MsgCreateLockerRequest{Depositor: s.String(), Amount: i(50 * unit), AssetId: f.CMST, AppId: f.AppHarbor}
	},
	"locker.MsgDepositAsset": func(f *Fix, e *sim.Env, s, h sdk.AccAddress, prod string, ax Ax) sdk.Msg {
		return &lockertypes.MsgDepositAssetRequest{Depositor: s.String(), LockerId: f.lockerID(e, h), Amount: ax.amount(10*unit, f.lockerOf(e, h).NetBalance), AssetId: f.CMST, AppId: f.AppHarbor}
	},
	"locker.MsgWithdrawAsset": func(f *Fix, e *sim.Env, s, h sdk.AccAddress, prod string, ax Ax) sdk.Msg {
		return &lockertypes.MsgWithdrawAssetRequest{Depositor: s.String(), LockerId: f.lockerID(e, h), Amount: ax.amount(10*unit, f.lockerOf(e, h).NetBalance), AssetId: f.CMST, AppId: f.AppHarbor}
	},
	"locker.MsgCloseLocker": func(f *Fix, e *sim.Env, s, h sdk.AccAddress, prod string, ax Ax) sdk.Msg {
		return &lockertypes.MsgCloseLockerRequest{Depositor: s.String(), AppId: f.AppHarbor, AssetId: f.CMST, LockerId: f.lockerID(e, h)}
	},
	"locker.MsgLockerRewardCalc": func(f *Fix, e *sim.Env, s, h sdk.AccAddress, prod string, ax Ax) sdk.Msg {
		return &lockertypes.MsgLockerRewardCalcRequest{From: s.String(), AppId: f.AppHarbor, LockerId: f.lockerID(e, h)}
	},
	// ---- lend: the holder has a CMDX lend with a CMST borrow on it, and an ATOM lend without borrows
	"lend.Lend": func(f *Fix, e *sim.Env, s, h sdk.AccAddress, prod string, ax Ax) sdk.Msg {
		return lendtypes.NewMsgLend(s.String(), f.ATOM, coin("uatom", 20*unit), f.Pool, f.AppCommodo)
	},
	"lend.Deposit": func(f *Fix, e *sim.Env, s, h sdk.AccAddress, prod string, ax Ax) sdk.Msg {
		return lendtypes.NewMsgDeposit(s.String(), f.lendOf(e, h, f.ATOM), sdk.NewCoin("uatom", ax.amount(5*unit, f.lendPos(e, h, f.ATOM).AmountIn.Amount)))
	},
	"lend.Withdraw": func(f *Fix, e *sim.Env, s, h sdk.AccAddress, prod string, ax Ax) sdk.Msg {
		return lendtypes.NewMsgWithdraw(s.String(), f.lendOf(e, h, f.ATOM), sdk.NewCoin("uatom", ax.amount(5*unit, f.lendPos(e, h, f.ATOM).AvailableToBorrow)))
	},
	"lend.CloseLend": func(f *Fix, e *sim.Env, s, h sdk.AccAddress, prod string, ax Ax) sdk.Msg {
		return lendtypes.NewMsgCloseLend(s.String(), f.lendOf(e, h, f.ATOM))
	},
	"lend.Borrow": func(f *Fix, e *sim.Env, s, h sdk.AccAddress, prod string, ax Ax) sdk.Msg {
		return lendtypes.NewMsgBorrow(s.String(), f.lendOf(e, h, f.ATOM), f.PairAtomCmst, false, sdk.NewCoin("ucatom", ax.amount(10*unit, f.lendPos(e, h, f.ATOM).AvailableToBorrow)), coin("ucmst", 20*unit))
	},
	"lend.BorrowAlternate": func(f *Fix, e *sim.Env, s, h sdk.AccAddress, prod string, ax Ax) sdk.Msg {
		return lendtypes.NewMsgBorrowAlternate(s.String(), f.ATOM, f.Pool, coin("uatom", 10*unit), f.PairAtomCmst, false, coin("ucmst", 20*unit), f.AppCommodo)
	},
	"lend.DepositBorrow": func(f *Fix, e *sim.Env, s, h sdk.AccAddress, prod string, ax Ax) sdk.Msg {
		return lendtypes.NewMsgDepositBorrow(s.String(), f.borrowOf(e, h, f.pairOf(prod)), sdk.NewCoin("uccmdx", ax.amount(10*unit, f.borrowPosP(e, h, prod).AmountIn.Amount)))
	},
	"lend.Draw": func(f *Fix, e *sim.Env, s, h sdk.AccAddress, prod string, ax Ax) sdk.Msg {
		return lendtypes.NewMsgDraw(s.String(), f.borrowOf(e, h, f.pairOf(prod)), sdk.NewCoin(f.debtDenom(prod), ax.amount(5*unit, f.borrowPosP(e, h, prod).AmountOut.Amount)))
	},
	"lend.Repay": func(f *Fix, e *sim.Env, s, h sdk.AccAddress, prod string, ax Ax) sdk.Msg {
		return lendtypes.NewMsgRepay(s.String(), f.borrowOf(e, h, f.pairOf(prod)), sdk.NewCoin(f.debtDenom(prod), ax.amount(5*unit, f.borrowPosP(e, h, prod).AmountOut.Amount.Add(f.borrowPosP(e, h, prod).InterestAccumulated.TruncateInt()))))
	},
	"lend.CloseBorrow": func(f *Fix, e *sim.Env, s, h sdk.AccAddress, prod string, ax Ax) sdk.Msg {
		return lendtypes.NewMsgCloseBorrow(s.String(), f.borrowOf(e, h, f.pairOf(prod)))
	},
	"lend.RepayWithdraw": func(f *Fix, e *sim.Env, s, h sdk.AccAddress, prod string, ax Ax) sdk.Msg {
		return lendtypes.NewMsgRepayWithdraw(s.String(), f.borrowOf(e, h, f.PairCmdxCmst))
	},
	"lend.CalculateInterestAndRewards": func(f *Fix, e *sim.Env, s, h sdk.AccAddress, prod string, ax Ax) sdk.Msg {
		return lendtypes.NewMsgCalculateInterestAndRewards(s.String())
	},
	// ---- liquidation / auction messages that need oracle prices (prepared by prepCtl)
	"liquidationsV2.MsgLiquidateExternalKeeper": func(f *Fix, e *sim.Env, s, h sdk.AccAddress, prod string, ax Ax) sdk.Msg {
		return liquidationsV2types.NewMsgLiquidateExternalKeeperRequest(s, f.AppHarbor, s.String(), coin("ucmdx", 100*unit), coin("ucmst", 100*unit), f.CMDX, f.CMST, false)
	},
	"auctionsV2.MsgPlaceMarketBid": func(f *Fix, e *sim.Env, s, h sdk.AccAddress, prod string, ax Ax) sdk.Msg {
		var id uint64
		for _, au := range e.App.NewaucKeeper.GetAuctions(e.Ctx) {
			if au.AppId == f.AppHarbor && au.AuctionType && id == 0 {
				id = au.AuctionId
			}
		}
		return &auctionsV2types.MsgPlaceMarketBidRequest{AuctionId: id, Bidder: s.String(), Amount: coin("ucmst", 10*unit)}
	},
	"liquidity.LimitOrder": func(f *Fix, e *sim.Env, s, h sdk.AccAddress, prod string, ax Ax) sdk.Msg {
		offer := coin("ucmdx", 3*unit)
		offer = offer.AddAmount(sdk.NewDecFromInt(offer.Amount).Mul(d("0.003")).RoundInt())
		return liquiditytypes.NewMsgLimitOrder(f.AppCswap, s, f.LPair, liquiditytypes.OrderDirectionSell, offer, "ucmst", d("2.17"), i(3*unit), 12*time.Hour)
	},
	"liquidity.MMOrder": func(f *Fix, e *sim.Env, s, h sdk.AccAddress, prod string, ax Ax) sdk.Msg {
		return liquiditytypes.NewMsgMMOrder(f.AppCswap, s, f.LPair, d("2.19"), d("2.16"), i(4*unit), d("1.85"), d("1.82"), i(4*unit), 12*time.Hour)
	},
	// ---- liquidity
	"liquidity.CancelOrder": func(f *Fix, e *sim.Env, s, h sdk.AccAddress, prod string, ax Ax) sdk.Msg {
		app, pair := f.scopeOf(ax)
		return liquiditytypes.NewMsgCancelOrder(app, s, pair, f.restingOrderIn(e, h, app, pair))
	},
	"liquidity.CancelAllOrders": func(f *Fix, e *sim.Env, s, h sdk.AccAddress, prod string, ax Ax) sdk.Msg {
		app, pair := f.scopeOf(ax)
		if ax.Scope == "decoy" {
			return liquiditytypes.NewMsgCancelAllOrders(app, s, []uint64{}) // every pair of the decoy app
		}
		return liquiditytypes.NewMsgCancelAllOrders(app, s, []uint64{pair})
	},
	"liquidity.CancelMMOrder": func(f *Fix, e *sim.Env, s, h sdk.AccAddress, prod string, ax Ax) sdk.Msg {
		app, pair := f.scopeOf(ax)
		return liquiditytypes.NewMsgCancelMMOrder(app, s, pair)
	},
	"liquidity.Unfarm": func(f *Fix, e *sim.Env, s, h sdk.AccAddress, prod string, ax Ax) sdk.Msg {
		return liquiditytypes.NewMsgUnfarm(f.AppCswap, f.LPool, s, sdk.NewCoin(f.PoolCoin, ax.amount(1000, f.farmed(e, h))))
	},
	"liquidity.UnfarmAndWithdraw": func(f *Fix, e *sim.Env, s, h sdk.AccAddress, prod string, ax Ax) sdk.Msg {
		return liquiditytypes.NewMsgUnfarmAndWithdraw(f.AppCswap, f.LPool, s, sdk.NewCoin(f.PoolCoin, ax.amount(1000, f.farmed(e, h))))
	},
	// ---- auctionsV2 limit bids: keyed by (debt, collateral, premium, signer); every holder uses his own premium
	"auctionsV2.MsgDepositLimitBid": func(f *Fix, e *sim.Env, s, h sdk.AccAddress, prod string, ax Ax) sdk.Msg {
		return &auctionsV2types.MsgDepositLimitBidRequest{Bidder: s.String(), CollateralTokenId: f.CMDX, DebtTokenId: f.CMST, PremiumDiscount: i(f.premiumOf(h)), Amount: sdk.NewCoin("ucmst", ax.amount(10*unit, f.limitBid(e, h)))}
	},
	"auctionsV2.MsgCancelLimitBid": func(f *Fix, e *sim.Env, s, h sdk.AccAddress, prod string, ax Ax) sdk.Msg {
		return &auctionsV2types.MsgCancelLimitBidRequest{Bidder: s.String(), CollateralTokenId: f.CMDX, DebtTokenId: f.CMST, PremiumDiscount: i(f.premiumOf(h))}
	},
	"auctionsV2.MsgWithdrawLimitBid": func(f *Fix, e *sim.Env, s, h sdk.AccAddress, prod string, ax Ax) sdk.Msg {
		return &auctionsV2types.MsgWithdrawLimitBidRequest{Bidder: s.String(), CollateralTokenId: f.CMDX, DebtTokenId: f.CMST, PremiumDiscount: i(f.premiumOf(h)), Amount: sdk.NewCoin("ucmst", ax.amount(10*unit, f.limitBid(e, h)))}
	},
}

// opener messages are sent by a user without a position of that kind; all others by the position holder
var openers = map[string]bool{"vault.MsgCreate": true, "vault.MsgCreateStableMint": true, "locker.MsgCreateLocker": true,
	"lend.Lend": true, "lend.BorrowAlternate": true}

// prepCtl prepares what a control cell's message needs beyond the base state (run on the cell's branch before the prices go off).
func (f *Fix) prepCtl(e *sim.Env, h string) {
	switch h {
	case "liquidationsV2.MsgLiquidateExternalKeeper":
		// the app must hold reserve funds of the debt asset
		mustOK(e.Deliver(liquidationsV2types.NewMsgAppReserveFundsRequest(f.LP.String(), f.AppHarbor, f.CMST, coin("ucmst", 100*unit))), "app reserve funds")
	case "auctionsV2.MsgPlaceMarketBid":
		// a live V2 Dutch auction of the app: the risk vault (or, if a history already consumed it, deeper-lying vaults) is swept
		for _, p := range []uint64{1500000, 500000, 500000} {
			SetPrice(e, f.CMDX, p, true)
			noPanic(func() { liquidationsV2.BeginBlocker(e.Ctx, abci.RequestBeginBlock{}, e.App.NewliqKeeper) })
			if f.AuctionCount(e, "aucV2.tick") > 0 {
				break
			}
		}
	}
}

// roleAsset maps the price roles of a control cell to asset ids.
func (f *Fix) roleAsset(h, prod, role string) uint64 {
	if prod == "cross" {
		switch role {
		case "in":
			return f.CMDX
		case "out":
			return f.USDC
		case "t1":
			return f.CMST
		}
		return f.ATOM
	}
	switch h {
	case "lend.Lend", "lend.Deposit", "lend.Withdraw", "lend.CloseLend", "lend.Borrow", "lend.BorrowAlternate":
		if role == "in" {
			return f.ATOM
		}
		return f.CMST
	case "lend.DepositBorrow", "lend.Draw", "lend.Repay", "lend.CloseBorrow", "lend.RepayWithdraw", "lend.CalculateInterestAndRewards":
		if role == "in" {
			return f.CMDX
		}
		return f.CMST
	case "vault.MsgCreateStableMint", "vault.MsgDepositStableMint", "vault.MsgWithdrawStableMint":
		if role == "in" {
			return f.USDC
		}
		return f.CMST
	}
	if role == "out" {
		return f.CMST
	}
	if prod == "fixed" {
		return f.ATOM
	}
	return f.CMDX
}

// ---------------------------------------------------------------------------------------------------
// controls

func (f *Fix) appID(name string) uint64 {
	switch name {
	case "harbor":
		return f.AppHarbor
	case "commodo":
		return f.AppCommodo
	case "twin":
		return f.AppTwin
	}
	return f.AppCswap
}

// ApplyControls puts app into the given control setting on e (a branch). Every step goes through the real
// entry points: MsgDepositESM + MsgExecuteESM + one block (price snapshot) for shutdown, MsgKillSwitch from the
// admin for the breaker. "after" moves the block time past the end of the cool-off period without running the
// begin blockers, i.e. the state a transaction sees when the shutdown hook has not (yet) redeemed the vaults.
func (f *Fix) ApplyControls(e *sim.Env, app uint64, breaker bool, esm string) error {
	if esm != "off" {
		gov := "uharbor"
		if app == f.AppCommodo {
			gov = "ugovc"
		}
		if app == f.AppTwin {
			gov = "ugovt"
		}
		if r := e.Deliver(esmtypes.NewMsgDeposit(f.LP.String(), app, coin(gov, 1000*unit))); !r.OK {
			return fmt.Errorf("esm deposit: %s", r.Err)
		}
		if r := e.Deliver(esmtypes.NewMsgExecute(f.LP.String(), app)); !r.OK {
			return fmt.Errorf("esm execute: %s", r.Err)
		}
		switch esm {
		case "fresh":
			// same block as MsgExecuteESM: the shutdown hook has not run, there is no price snapshot
		case "blocked":
			// blocks pass, but the snapshot cannot complete: the feed of an oracle-priced asset that none of the matrix'
			// price roles consults (FEED) is inactive
			PriceActive(e, f.FEED, false)
			for n := 0; n < 2; n++ {
				if br := e.NextBlock(6 * time.Second); br.Panic {
					return fmt.Errorf("block after esm: %s", br.Err)
				}
			}
		default:
			if br := e.NextBlock(6 * time.Second); br.Panic {
				return fmt.Errorf("block after esm: %s", br.Err)
			}
		}
		if esm == "after" {
			e.Time = e.Time.Add(2 * time.Hour)
			e.Ctx = e.Ctx.WithBlockTime(e.Time)
		}
	}
	if breaker {
		if r := e.Deliver(esmtypes.NewMsgKillRequest(f.Admin, esmtypes.KillSwitchParams{AppId: app, BreakerEnable: true})); !r.OK {
			return fmt.Errorf("kill switch: %s", r.Err)
		}
	}
	return nil
}

// MakeHole removes an OLDER position of the kind the opening message creates, by its owner (the owner's positions are the
// oldest of the fixture), so that the id sequence of that kind has a hole below live positions. Reports whether it did.
func (f *Fix) MakeHole(e *sim.Env, msg string) bool {
	none := Ax{"small", "home"}
	var ms []sdk.Msg
	switch msg {
	case "vault.MsgCreate":
		ms = append(ms, builders["vault.MsgClose"](f, e, f.Owner, f.Owner, "oracle", none))
	case "locker.MsgCreateLocker":
		ms = append(ms, builders["locker.MsgCloseLocker"](f, e, f.Owner, f.Owner, "na", none))
	case "lend.Lend":
		ms = append(ms, builders["lend.CloseLend"](f, e, f.Owner, f.Owner, "na", none))
	case "lend.BorrowAlternate":
		ms = append(ms, builders["lend.CloseBorrow"](f, e, f.Owner, f.Owner, "na", none), builders["lend.CloseLend"](f, e, f.Owner, f.Owner, "na", none))
	case "liquidity.LimitOrder", "liquidity.MMOrder":
		ms = append(ms, builders["liquidity.CancelOrder"](f, e, f.Owner, f.Owner, "na", none), builders["liquidity.CancelMMOrder"](f, e, f.Owner, f.Owner, "na", none))
	case "auctionsV2.MsgDepositLimitBid":
		ms = append(ms, builders["auctionsV2.MsgCancelLimitBid"](f, e, f.Owner, f.Owner, "na", none))
	}
	ok := false
	for _, m := range ms {
		if e.Deliver(m).OK {
			ok = true
		}
	}
	return ok
}

// HoldersView = combined view of every holder's positions and balances.
func (f *Fix) HoldersView(e *sim.Env) string {
	return hashStrings([]string{f.VictimView(e, f.Owner), f.VictimView(e, f.Other), f.VictimView(e, f.Risk), f.VictimView(e, f.RiskTwin)})
}

// MakeHoley builds the "holey" prepared state: for every kind an older position is removed by its owner and a third
// party opens a new one afterwards; one block passes.
func (f *Fix) MakeHoley(e *sim.Env) []string {
	ops := []string{}
	for _, msg := range []string{"vault.MsgCreate", "locker.MsgCreateLocker", "lend.Lend", "liquidity.LimitOrder", "liquidity.MMOrder", "auctionsV2.MsgDepositLimitBid"} {
		if f.MakeHole(e, msg) {
			ops = append(ops, "hole:"+msg)
		}
		if e.Deliver(builders[msg](f, e, f.Newbie, f.Newbie, "oracle", Ax{"small", "home"})).OK {
			ops = append(ops, "open:"+msg)
		}
	}
	if br := e.NextBlock(6 * time.Second); br.Panic {
		panic("holey block panicked: " + br.Err)
	}
	return ops
}

// SetAdminState puts the esm admin parameter into the given state by executing a parameter-change proposal.
func (f *Fix) SetAdminState(e *sim.Env, adm string) error {
	var val string
	switch adm {
	case "configured":
		return nil
	case "rotated":
		val = fmt.Sprintf("[%q]", sim.Addr("newadmin").String())
	case "empty":
		val = "[]"
	}
	h := params.NewParamChangeProposalHandler(e.App.ParamsKeeper)
	return h(e.Ctx, &paramproposal.ParameterChangeProposal{Title: "esm admins", Description: "change the esm admin list",
		Changes: []paramproposal.ParamChange{{Subspace: esmtypes.ModuleName, Key: string(esmtypes.KeyAdmin), Value: val}}})
}

// ---------------------------------------------------------------------------------------------------
// projections

func hashStrings(xs []string) string {
	h := sha256.New()
	for _, x := range xs {
		h.Write([]byte(x))
		h.Write([]byte{0})
	}
	return hex.EncodeToString(h.Sum(nil))[:24]
}

// VictimView = digest of every position record of u (all kinds) and of all his balances.
func (f *Fix) VictimView(e *sim.Env, u sdk.AccAddress) string {
	var xs []string
	a := e.App
	for _, v := range a.VaultKeeper.GetVaults(e.Ctx) { // every vault record of any app whose owner is u
		if v.Owner == u.String() {
			xs = append(xs, "vault:"+v.String())
		}
	}
	if id := f.lockerID(e, u); id != 0 {
		l, _ := a.LockerKeeper.GetLocker(e.Ctx, id)
		xs = append(xs, "locker:"+l.String())
	}
	for _, m := range a.LendKeeper.GetUserTotalMappingData(e.Ctx, u.String()) {
		l, _ := a.LendKeeper.GetLend(e.Ctx, m.LendId)
		xs = append(xs, "lend:"+l.String())
		for _, b := range m.BorrowId {
			bp, _ := a.LendKeeper.GetBorrow(e.Ctx, b)
			xs = append(xs, "borrow:"+bp.String())
		}
	}
	for _, app := range []uint64{f.AppCswap, f.AppDecoy} { // every pair of both liquidity apps
		_ = a.LiquidityKeeper.IterateOrdersByOrderer(e.Ctx, app, u, func(o liquiditytypes.Order) (bool, error) {
			xs = append(xs, fmt.Sprintf("order[%d]:%s", app, o.String()))
			return false, nil
		})
		for _, pr := range a.LiquidityKeeper.GetAllPairs(e.Ctx, app) {
			if idx, found := a.LiquidityKeeper.GetMMOrderIndex(e.Ctx, u, app, pr.Id); found {
				xs = append(xs, fmt.Sprintf("mm[%d]:%s", app, idx.String()))
			}
		}
	}
	if af, found := a.LiquidityKeeper.GetActiveFarmer(e.Ctx, f.AppCswap, f.LPool, u); found {
		xs = append(xs, "afarm:"+af.String())
	}
	if qf, found := a.LiquidityKeeper.GetQueuedFarmer(e.Ctx, f.AppCswap, f.LPool, u); found {
		xs = append(xs, "qfarm:"+qf.String())
	}
	for _, p := range []int64{5, 7, 9} {
		if lb, found := a.NewaucKeeper.GetUserLimitBidData(e.Ctx, f.CMST, f.CMDX, i(p), u.String()); found {
			xs = append(xs, "limit:"+lb.String())
		}
	}
	xs = append(xs, "bal:"+a.BankKeeper.GetAllBalances(e.Ctx, u).String())
	return hashStrings(xs)
}

// HookView lists, for one app, what a sweep / auction starter can produce: the seized positions and the auctions, by identity.
// A live auction and its historical record carry the same key, so an auction that is started and closed inside one hook still
// shows up as new, and a close-out that only retires a locked vault or an auction shows nothing new.
type HookView struct {
	Seized   int64           `json:"seized"`   // locked vaults (both generations) + borrows flagged liquidated
	Auctions int64           `json:"auctions"` // live + historical auctions of both generations
	SeizedID map[string]bool `json:"-"`
	AucID    map[string]bool `json:"-"`
}

// NewIn counts the keys of post that pre does not have.
func NewIn(pre, post map[string]bool) int64 {
	n := int64(0)
	for k := range post {
		if !pre[k] {
			n++
		}
	}
	return n
}

func (f *Fix) HookViewOf(e *sim.Env, app uint64) HookView {
	a := e.App
	v := HookView{SeizedID: map[string]bool{}, AucID: map[string]bool{}}
	// a seized vault belongs to the app of its vault product, whatever app the sweep filed the locked vault under
	ofApp := func(tag, extPair uint64, vaultKind bool) bool {
		if tag == app {
			return true
		}
		if !vaultKind {
			return false
		}
		ep, found := a.AssetKeeper.GetPairsVault(e.Ctx, extPair)
		return found && ep.AppId == app
	}
	for _, lv := range a.NewliqKeeper.GetLockedVaults(e.Ctx) {
		if ofApp(lv.AppId, lv.ExtendedPairId, lv.InitiatorType == "vault") {
			v.Seized++
			v.SeizedID[fmt.Sprintf("l2:%d", lv.LockedVaultId)] = true
		}
	}
	for _, lv := range a.LiquidationKeeper.GetLockedVaults(e.Ctx) {
		if ofApp(lv.AppId, lv.ExtendedPairId, lv.GetBorrowMetaData() == nil) {
			v.Seized++
			v.SeizedID[fmt.Sprintf("l1:%d", lv.LockedVaultId)] = true
		}
	}
	if app == f.AppCommodo {
		ids, _ := a.LendKeeper.GetBorrows(e.Ctx)
		for _, id := range ids {
			if b, found := a.LendKeeper.GetBorrow(e.Ctx, id); found && b.IsLiquidated {
				v.Seized++
				v.SeizedID[fmt.Sprintf("b:%d", id)] = true
			}
		}
	}
	for _, au := range a.NewaucKeeper.GetAuctions(e.Ctx) {
		if au.AppId == app {
			v.Auctions++
			v.AucID[fmt.Sprintf("a2:%d", au.AuctionId)] = true
		}
	}
	for _, au := range a.NewaucKeeper.GetAuctionHistoricals(e.Ctx) {
		if au.AuctionHistorical != nil && au.AuctionHistorical.AppId == app {
			v.Auctions++
			v.AucID[fmt.Sprintf("a2:%d", au.AuctionHistorical.AuctionId)] = true
		}
	}
	for _, x := range append(a.AuctionKeeper.GetSurplusAuctions(e.Ctx, app), a.AuctionKeeper.GetHistorySurplusAuctions(e.Ctx, app)...) {
		v.Auctions++
		v.AucID[fmt.Sprintf("s1:%d", x.AuctionId)] = true
	}
	for _, x := range append(a.AuctionKeeper.GetDebtAuctions(e.Ctx, app), a.AuctionKeeper.GetHistoryDebtAuctions(e.Ctx, app)...) {
		v.Auctions++
		v.AucID[fmt.Sprintf("d1:%d", x.AuctionId)] = true
	}
	for _, x := range append(a.AuctionKeeper.GetDutchAuctions(e.Ctx, app), a.AuctionKeeper.GetHistoryDutchAuctions(e.Ctx, app)...) {
		v.Auctions++
		v.AucID[fmt.Sprintf("u1:%d", x.AuctionId)] = true
	}
	for _, x := range append(a.AuctionKeeper.GetDutchLendAuctions(e.Ctx, app), a.AuctionKeeper.GetHistoryDutchLendAuctions(e.Ctx, app)...) {
		v.Auctions++
		v.AucID[fmt.Sprintf("w1:%d", x.AuctionId)] = true
	}
	return v
}

// ---------------------------------------------------------------------------------------------------
// hooks

// plainHook: the twin variants run the very same hook; only the controlled / judged app differs.
func plainHook(hook string) string {
	if hook == "app.block@twin" {
		return "app.blockHarbor"
	}
	return strings.TrimSuffix(hook, "@twin")
}

func noPanic(fn func()) (panicked bool, msg string) {
	defer func() {
		if r := recover(); r != nil {
			panicked, msg = true, fmt.Sprint(r)
		}
	}()
	fn()
	return
}

// armHook prepares the trigger of a hook on the branch e (before the controls are applied).
func (f *Fix) armHook(e *sim.Env, hook string) {
	a := e.App
	hook = plainHook(hook)
	switch hook {
	case "liqV2.sweepVault", "liqV2.sweepBorrow", "liqV1.sweepVault", "liqV1.sweepBorrow", "liqV2.msgInternalVault", "liqV2.msgInternalBorrow",
		"liqV1.msgVault", "liqV1.msgBorrow", "app.blockCommodo":
		SetPrice(e, f.CMDX, 1500000, true) // the risk account's vault / borrow become unsafe
	case "app.blockHarbor":
		SetPrice(e, f.CMDX, 1500000, true)
		f.armHook(e, "liqV2.surplus")
	case "liqV2.surplus", "aucV1.surplus":
		must(a.CollectorKeeper.WasmSetAuctionMappingForApp(e.Ctx, &bindings.MsgSetAuctionMappingForApp{AppID: f.AppHarbor, AssetIDs: f.CMST,
			IsSurplusAuctions: true, IsDebtAuctions: false, IsDistributor: false, AssetOutOraclePrices: false, AssetOutPrices: 1000000}))
		fundModule(e, "collectorV1", coin("ucmst", 100*unit))
		must(a.CollectorKeeper.SetNetFeeCollectedData(e.Ctx, f.AppHarbor, f.CMST, i(100*unit)))
	case "liqV2.debt", "aucV1.debt":
		must(a.CollectorKeeper.WasmSetAuctionMappingForApp(e.Ctx, &bindings.MsgSetAuctionMappingForApp{AppID: f.AppHarbor, AssetIDs: f.CMST,
			IsSurplusAuctions: false, IsDebtAuctions: true, IsDistributor: false, AssetOutOraclePrices: false, AssetOutPrices: 1000000}))
		nf, _ := a.CollectorKeeper.GetNetFeeCollectedData(e.Ctx, f.AppHarbor, f.CMST)
		if nf.NetFeesCollected.GT(i(1 * unit)) {
			must(a.CollectorKeeper.DecreaseNetFeeCollectedData(e.Ctx, f.AppHarbor, f.CMST, nf.NetFeesCollected.Sub(i(1*unit))))
		}
	}
}

func fundModule(e *sim.Env, module string, c sdk.Coin) {
	must(e.App.BankKeeper.MintCoins(e.Ctx, vaulttypes.ModuleName, sdk.NewCoins(c)))
	must(e.App.BankKeeper.SendCoinsFromModuleToModule(e.Ctx, vaulttypes.ModuleName, module, sdk.NewCoins(c)))
}

// runHook executes the hook (or liquidation message) on e.
func (f *Fix) runHook(e *sim.Env, hook string) (res sim.Result) {
	a := e.App
	hook = plainHook(hook)
	res.OK = true
	var p bool
	var ps string
	switch hook {
	case "liqV2.sweepVault", "liqV2.sweepBorrow", "liqV2.surplus", "liqV2.debt":
		p, ps = noPanic(func() { liquidationsV2.BeginBlocker(e.Ctx, abci.RequestBeginBlock{}, a.NewliqKeeper) })
	case "liqV1.sweepVault", "liqV1.sweepBorrow":
		p, ps = noPanic(func() { liquidation.BeginBlocker(e.Ctx, abci.RequestBeginBlock{}, a.LiquidationKeeper) })
	case "aucV1.surplus", "aucV1.debt":
		p, ps = noPanic(func() { auction.BeginBlocker(e.Ctx, a.AuctionKeeper, a.AssetKeeper, a.CollectorKeeper, a.EsmKeeper) })
	case "app.blockHarbor", "app.blockCommodo":
		if br := e.NextBlock(6 * time.Second); br.Panic {
			p, ps = true, br.Err
		}
	case "liqV2.msgInternalVault":
		return e.Deliver(&liquidationsV2types.MsgLiquidateInternalKeeperRequest{From: f.Other.String(), LiqType: 0, Id: f.vaultID(e, f.Risk, f.EpCmdx)})
	case "liqV2.msgInternalBorrow":
		return e.Deliver(&liquidationsV2types.MsgLiquidateInternalKeeperRequest{From: f.Other.String(), LiqType: 1, Id: f.borrowOf(e, f.Risk, f.PairCmdxCmst)})
	case "liqV1.msgBorrow":
		return e.Deliver(&liquidationtypes.MsgLiquidateBorrowRequest{From: f.Other.String(), BorrowId: f.borrowOf(e, f.Risk, f.PairCmdxCmst)})
	case "liqV1.msgVault":
		return e.Deliver(&liquidationtypes.MsgLiquidateVaultRequest{From: f.Other.String(), AppId: f.AppHarbor, VaultId: f.vaultID(e, f.Risk, f.EpCmdx)})
	}
	if p {
		res = sim.Result{OK: false, Panic: true, Err: ps}
	}
	return
}

// ---------------------------------------------------------------------------------------------------
// per-block steps on live Dutch auctions

// armAuction creates a live Dutch auction of the hook's generation by liquidating the risk account's position through the
// real sweep (CMDX price lowered), then moves the block time into the auction's life (update) or past its end (restart).
func (f *Fix) armAuction(e *sim.Env, hook string) {
	a := e.App
	var dt time.Duration
	sweep := func() {
		switch hook {
		case "aucV2.tick", "aucV2.restart":
			noPanic(func() { liquidationsV2.BeginBlocker(e.Ctx, abci.RequestBeginBlock{}, a.NewliqKeeper) })
		default:
			noPanic(func() { liquidation.BeginBlocker(e.Ctx, abci.RequestBeginBlock{}, a.LiquidationKeeper) })
		}
	}
	// the risk account's position becomes unsafe at 1.5; if an earlier history already consumed it, a deeper dip makes the
	// owner's and the other user's positions unsafe instead
	for _, p := range []uint64{1500000, 500000, 500000} {
		SetPrice(e, f.CMDX, p, true)
		sweep()
		if f.AuctionCount(e, hook) > 0 {
			break
		}
	}
	dt = 600 * time.Second
	switch hook {
	case "aucV1.dutchRestart", "aucV2.restart":
		dt = 3700 * time.Second
	case "aucV1.lendRestart":
		dt = 21700 * time.Second
	}
	e.Height++
	e.Time = e.Time.Add(dt)
	e.Ctx = e.Ctx.WithBlockHeight(e.Height).WithBlockTime(e.Time)
}

func (f *Fix) auctionRecords(e *sim.Env, hook string) []string {
	a := e.App
	var xs []string
	switch hook {
	case "aucV1.dutchTick", "aucV1.dutchRestart":
		for _, x := range a.AuctionKeeper.GetDutchAuctions(e.Ctx, f.AppHarbor) {
			xs = append(xs, x.String())
		}
	case "aucV1.lendTick", "aucV1.lendRestart":
		for _, x := range a.AuctionKeeper.GetDutchLendAuctions(e.Ctx, f.AppCommodo) {
			xs = append(xs, x.String())
		}
	case "aucV2.tick", "aucV2.restart":
		for _, x := range a.NewaucKeeper.GetAuctions(e.Ctx) {
			if x.AppId == f.AppHarbor && x.AuctionType {
				xs = append(xs, x.String())
			}
		}
	}
	return xs
}

// AuctionView = digest of the records of the live Dutch auctions the step works on; AuctionCount = how many there are.
func (f *Fix) AuctionView(e *sim.Env, hook string) string { return hashStrings(f.auctionRecords(e, hook)) }
func (f *Fix) AuctionCount(e *sim.Env, hook string) int64  { return int64(len(f.auctionRecords(e, hook))) }

func (f *Fix) runAuctionStep(e *sim.Env, hook string) sim.Result {
	a := e.App
	var p bool
	var ps string
	switch hook {
	case "aucV2.tick", "aucV2.restart":
		p, ps = noPanic(func() { auctionsV2.BeginBlocker(e.Ctx, a.NewaucKeeper) })
	default:
		p, ps = noPanic(func() { auction.BeginBlocker(e.Ctx, a.AuctionKeeper, a.AssetKeeper, a.CollectorKeeper, a.EsmKeeper) })
	}
	if p {
		return sim.Result{OK: false, Panic: true, Err: ps}
	}
	return sim.Result{OK: true}
}

func sortedStrings(m map[string]bool) []string {
	out := make([]string, 0, len(m))
	for k := range m {
		out = append(out, k)
	}
	sort.Strings(out)
	return out
}
