package matrix

import (
	"bufio"
	"encoding/json"
	"flag"
	"fmt"
	"os"
	"sort"
	"strings"
	"time"

	sdk "github.com/cosmos/cosmos-sdk/types"

	chain "github.com/comdex-official/comdex/app"
	esmtypes "github.com/comdex-official/comdex/x/esm/types"

	"vh/sim"
)

// Cell is one cell of a matrix exactly as TLC printed it (MC_Matrix, "T" lines).
type Cell struct {
	M       string   `json:"m"`
	Msg     string   `json:"msg,omitempty"`
	Signer  string   `json:"signer,omitempty"`
	Holder  string   `json:"holder,omitempty"`
	Amt     string   `json:"amt,omitempty"`
	Scope   string   `json:"scope,omitempty"`
	V       string   `json:"v,omitempty"`
	Chain   string   `json:"chain,omitempty"`
	Sender  string   `json:"sender,omitempty"`
	Des     string   `json:"des,omitempty"`
	Pay     string   `json:"pay,omitempty"`
	Adm     string   `json:"adm,omitempty"`
	H       string   `json:"h,omitempty"`
	Prod    string   `json:"prod,omitempty"`
	Breaker bool     `json:"breaker"`
	Esm     string   `json:"esm,omitempty"`
	Off     []string `json:"off"`
	Pm      string   `json:"pm,omitempty"`
	Hook    string   `json:"hook,omitempty"`
	Hole    bool     `json:"hole"`
	App     string   `json:"app,omitempty"`
}

func readCells(path string) ([]Cell, error) {
	fh, err := os.Open(path)
	if err != nil {
		return nil, err
	}
	defer fh.Close()
	var out []Cell
	seen := map[string]bool{} // a cell whose outcome the model leaves open is printed once per outcome
	sc := bufio.NewScanner(fh)
	sc.Buffer(make([]byte, 1<<20), 1<<26)
	for sc.Scan() {
		js := sim.TLCJSON(sc.Text())
		if js == "" {
			continue
		}
		var c Cell
		if err := json.Unmarshal([]byte(js), &c); err != nil {
			return nil, fmt.Errorf("bad cell %q: %v", js, err)
		}
		if c.Off == nil {
			c.Off = []string{}
		}
		sort.Strings(c.Off)
		if seen[key(c)] {
			continue
		}
		seen[key(c)] = true
		out = append(out, c)
	}
	return out, sc.Err()
}

type resJ struct {
	OK    bool   `json:"ok"`
	Code  string `json:"code"`
	Panic bool   `json:"panic"`
	Err   string `json:"err"`
}

func rj(r sim.Result) resJ {
	e := r.Err
	if len(e) > 160 {
		e = e[:160]
	}
	return resJ{OK: r.OK, Code: r.Code, Panic: r.Panic, Err: e}
}

func (f *Fix) signer(name string) sdk.AccAddress {
	switch name {
	case "owner":
		return f.Owner
	case "other":
		return f.Other
	case "risk":
		return f.Risk
	case "newbie":
		return f.Newbie
	case "lp":
		return f.LP
	case "module":
		return sim.ModAddr("vaultV1")
	case "admin":
		return f.Admin
	case "newadmin":
		return sim.Addr("newadmin")
	case "default":
		a, _ := sdk.AccAddressFromBech32(esmtypes.DefaultAdmin[0])
		return a
	case "user":
		return f.Other
	case "contract":
		a, _ := sdk.AccAddressFromBech32(designated["comdex-1"][0])
		return a
	}
	panic("unknown signer " + name)
}

// deliverObserved has the semantics of sim.Deliver (ValidateBasic, routed handler on a cache-wrapped context, write back
// only on success, panics are failed transactions) and additionally reports whether a FAILED handler had already written
// to its branch before failing (then "nothing changed" rests on the transaction's atomicity; recorded, never judged).
// pre is the digest of e taken by the caller just before.
func deliverObserved(e *sim.Env, msg sdk.Msg, pre string) (res sim.Result, dirty bool) {
	if err := msg.ValidateBasic(); err != nil {
		return sim.Deliver(e.App, e.Ctx, msg), false
	}
	h := e.App.MsgServiceRouter().Handler(msg)
	if h == nil {
		return sim.Result{OK: false, Err: "no handler"}, false
	}
	cctx, write := e.Ctx.CacheContext()
	defer func() {
		if r := recover(); r != nil {
			res = sim.Result{OK: false, Panic: true, Err: fmt.Sprint(r)}
			dirty = sim.Digest(e.App, cctx, nil) != pre
		}
	}()
	r, err := h(cctx, msg)
	if err != nil {
		return sim.Result{OK: false, Code: errCode(err), Err: err.Error()}, sim.Digest(e.App, cctx, nil) != pre
	}
	write()
	out := sim.Result{OK: true}
	if r != nil {
		out.Data = r.Data
	}
	return out, false
}

func errCode(err error) string {
	type coder interface {
		Codespace() string
		ABCICode() uint32
	}
	for e := err; e != nil; {
		if c, ok := e.(coder); ok {
			return fmt.Sprintf("%s/%d", c.Codespace(), c.ABCICode())
		}
		u, ok := e.(interface{ Unwrap() error })
		if !ok {
			break
		}
		e = u.Unwrap()
	}
	return "unregistered"
}

type runner struct {
	f   *Fix
	lg  *sim.Log
	run string
}

func key(c Cell) string { b, _ := json.Marshal(c); return string(b) }

// execState executes every cell on branches of the state s (node id root) and appends the nodes to the log.
func (r *runner) execState(s *sim.Env, root int, cells []Cell) {
	f := r.f
	// ---------------- owner matrix: the owner's own attempt first (non-vacuity reference), then the others
	var own, priv, kill, ctl, hook, auc, open []Cell
	for _, c := range cells {
		switch c.M {
		case "own":
			own = append(own, c)
		case "open":
			open = append(open, c)
		case "priv":
			priv = append(priv, c)
		case "kill":
			kill = append(kill, c)
		case "ctl":
			ctl = append(ctl, c)
		case "hook":
			hook = append(hook, c)
		case "auc":
			auc = append(auc, c)
		}
	}
	sort.SliceStable(own, func(a, b int) bool { return own[a].Signer == own[a].Holder && own[b].Signer != own[b].Holder })
	ref := map[string]int{}
	for _, c := range own {
		e := s.Branch()
		sg, holder := f.signer(c.Signer), f.signer(c.Holder)
		msg := builders[c.Msg](f, e, sg, holder, "oracle", Ax{c.Amt, c.Scope})
		pre, vpre := e.Digest(), f.VictimView(e, holder)
		res, dirty := deliverObserved(e, msg, pre)
		post, vpost := e.Digest(), f.VictimView(e, holder)
		rk := c.Msg + "/" + c.Holder + "/" + c.Amt + "/" + c.Scope
		args := map[string]interface{}{"m": c.M, "msg": c.Msg, "holder": c.Holder, "signer": c.Signer, "amt": c.Amt, "scope": c.Scope, "ref": ref[rk]}
		id := r.lg.Add(root, r.run, "Own", args, rj(res), map[string]interface{}{"pre": pre, "post": post, "vpre": vpre, "vpost": vpost, "dirty": dirty})
		if c.Signer == c.Holder {
			ref[rk] = id
			args["ref"] = id
		}
	}
	// ---------------- opening messages by third parties, on the state as it is and after an older position was removed
	for _, c := range open {
		e := s.Branch()
		holed := false
		if c.Hole {
			holed = f.MakeHole(e, c.Msg)
		}
		sg := f.signer(c.Signer)
		msg := builders[c.Msg](f, e, sg, sg, "oracle", Ax{"small", "home"})
		pre, vpre := e.Digest(), f.HoldersView(e)
		res, dirty := deliverObserved(e, msg, pre)
		post, vpost := e.Digest(), f.HoldersView(e)
		r.lg.Add(root, r.run, "Open", map[string]interface{}{"m": c.M, "msg": c.Msg, "signer": c.Signer, "hole": c.Hole}, rj(res),
			map[string]interface{}{"pre": pre, "post": post, "vpre": vpre, "vpost": vpost, "dirty": dirty, "holed": holed})
	}
	// ---------------- privileged matrix: reference = the contract designated for the variant, on comdex-1
	isRef := func(c Cell) bool { return c.Chain == "comdex-1" && c.Sender == c.Des && (c.Pay == "na" || c.Pay == "caller") }
	sort.SliceStable(priv, func(a, b int) bool { return isRef(priv[a]) && !isRef(priv[b]) })
	ref = map[string]int{}
	for _, c := range priv {
		e := s.Branch()
		sender := f.SenderAddr(c.Chain, c.Sender)
		// the two variants that move the caller's funds need the caller to own something / the collector to be funded
		fund(e, sender, coin("uharbor", 100*unit))
		fundModule(e, "collectorV1", coin("ucmst", 50*unit))
		var named sdk.AccAddress
		switch c.Pay {
		case "caller":
			named = sender
		case "designated":
			named = f.SenderAddr(c.Chain, c.Des)
		case "third":
			named = f.LP
		}
		if named != nil {
			fund(e, named, coin("uharbor", 100*unit))
		}
		pre := e.Digest()
		res := f.Dispatch(e, c.Chain, sender, named, c.V)
		post := e.Digest()
		args := map[string]interface{}{"m": c.M, "v": c.V, "chain": c.Chain, "sender": c.Sender, "des": c.Des, "pay": c.Pay, "ref": ref[c.V]}
		id := r.lg.Add(root, r.run, "Priv", args, rj(res), map[string]interface{}{"pre": pre, "post": post})
		if isRef(c) {
			ref[c.V] = id
			args["ref"] = id
		}
	}
	// kill switch under every state of the admin parameter; the parameter is changed through the params module's real
	// parameter-change proposal handler (what a passed governance proposal executes)
	for _, c := range kill {
		for _, enable := range []bool{true, false} {
			e := s.Branch()
			if err := f.SetAdminState(e, c.Adm); err != nil {
				panic(fmt.Sprintf("admin state %s: %v", c.Adm, err))
			}
			pre := e.Digest()
			res := e.Deliver(esmtypes.NewMsgKillRequest(f.signer(c.Sender), esmtypes.KillSwitchParams{AppId: f.AppHarbor, BreakerEnable: enable}))
			post := e.Digest()
			r.lg.Add(root, r.run, "Kill", map[string]interface{}{"m": c.M, "adm": c.Adm, "sender": c.Sender, "enable": enable}, rj(res), map[string]interface{}{"pre": pre, "post": post})
		}
	}
	// ---------------- control matrix: group by (app, breaker, esm) so that the controls are set up once per group
	type grp struct {
		app     string
		breaker bool
		esm     string
	}
	groups := map[grp][]Cell{}
	var order []grp
	for _, c := range ctl {
		g := grp{c.App, c.Breaker, c.Esm}
		if _, ok := groups[g]; !ok {
			order = append(order, g)
		}
		groups[g] = append(groups[g], c)
	}
	sort.SliceStable(order, func(a, b int) bool { // all-off groups first: they hold the references
		oa := !order[a].breaker && order[a].esm == "off"
		ob := !order[b].breaker && order[b].esm == "off"
		return oa && !ob
	})
	ref = map[string]int{}
	for _, g := range order {
		ge := s.Branch()
		if err := f.ApplyControls(ge, f.appID(g.app), g.breaker, g.esm); err != nil {
			panic(fmt.Sprintf("controls %+v: %v", g, err))
		}
		cs := groups[g]
		sort.SliceStable(cs, func(a, b int) bool { return len(cs[a].Off) < len(cs[b].Off) })
		for _, c := range cs {
			e := ge.Branch()
			f.prepCtl(e, c.H)
			for _, role := range c.Off {
				if c.Pm == "missing" {
					PriceMissing(e, f.roleAsset(c.H, c.Prod, role))
				} else {
					PriceActive(e, f.roleAsset(c.H, c.Prod, role), false)
				}
			}
			who := f.Owner
			if openers[c.H] {
				who = f.Newbie
			}
			if strings.HasPrefix(c.H, "vault.Msg") && strings.Contains(c.H, "StableMint") {
				who = f.LP
			}
			if c.H == "liquidationsV2.MsgLiquidateExternalKeeper" || c.H == "auctionsV2.MsgPlaceMarketBid" {
				who = f.Other
			}
			msg := builders[c.H](f, e, who, who, c.Prod, Ax{"small", "home"})
			pre := e.Digest()
			res, dirty := deliverObserved(e, msg, pre)
			post := e.Digest()
			rk := c.H + "/" + c.Prod
			args := map[string]interface{}{"m": c.M, "h": c.H, "prod": c.Prod, "app": c.App, "breaker": c.Breaker, "esm": c.Esm, "off": c.Off, "pm": c.Pm, "ref": ref[rk]}
			id := r.lg.Add(root, r.run, "Ctl", args, rj(res), map[string]interface{}{"pre": pre, "post": post, "dirty": dirty})
			if !c.Breaker && c.Esm == "off" && len(c.Off) == 0 {
				ref[rk] = id
				args["ref"] = id
			}
		}
	}
	// ---------------- hooks
	sort.SliceStable(hook, func(a, b int) bool {
		oa := !hook[a].Breaker && hook[a].Esm == "off" && len(hook[a].Off) == 0
		ob := !hook[b].Breaker && hook[b].Esm == "off" && len(hook[b].Off) == 0
		return oa && !ob
	})
	ref = map[string]int{}
	for _, c := range hook {
		e := s.Branch()
		app := f.appID(c.App)
		// controls first (shutdown needs a block for its price snapshot), then the trigger, then the hook alone
		if err := f.ApplyControls(e, app, c.Breaker, c.Esm); err != nil {
			panic(fmt.Sprintf("hook controls %+v: %v", c, err))
		}
		f.armHook(e, c.Hook)
		for range c.Off { // the collateral (CMDX) price the liquidation paths value the position with
			if c.Pm == "missing" {
				PriceMissing(e, f.CMDX)
			} else {
				PriceActive(e, f.CMDX, false)
			}
		}
		peer := f.AppTwin // the other vault app of the same sweep loops
		if app == f.AppTwin {
			peer = f.AppHarbor
		}
		pre, vpre, ppre := e.Digest(), f.HookViewOf(e, app), f.HookViewOf(e, peer)
		res := f.runHook(e, c.Hook)
		post, vpost, ppost := e.Digest(), f.HookViewOf(e, app), f.HookViewOf(e, peer)
		args := map[string]interface{}{"m": c.M, "hook": c.Hook, "app": c.App, "breaker": c.Breaker, "esm": c.Esm, "off": c.Off, "pm": c.Pm, "ref": ref[c.Hook]}
		id := r.lg.Add(root, r.run, "Hook", args, rj(res), map[string]interface{}{"pre": pre, "post": post,
			"seizedPre": vpre.Seized, "seizedPost": vpost.Seized, "aucPre": vpre.Auctions, "aucPost": vpost.Auctions,
			"seizedNew": NewIn(vpre.SeizedID, vpost.SeizedID), "aucNew": NewIn(vpre.AucID, vpost.AucID), "peerNew": NewIn(ppre.SeizedID, ppost.SeizedID)})
		if !c.Breaker && c.Esm == "off" && len(c.Off) == 0 {
			ref[c.Hook] = id
			args["ref"] = id
		}
	}
	// ---------------- per-block steps on live Dutch auctions
	sort.SliceStable(auc, func(a, b int) bool { return len(auc[a].Off) == 0 && len(auc[b].Off) != 0 })
	ref = map[string]int{}
	for _, c := range auc {
		e := s.Branch()
		f.armAuction(e, c.Hook)
		for _, role := range c.Off {
			asset := f.CMDX
			if role == "out" {
				asset = f.CMST
			}
			if c.Pm == "missing" {
				PriceMissing(e, asset)
			} else {
				PriceActive(e, asset, false)
			}
		}
		pre, apre, live := e.Digest(), f.AuctionView(e, c.Hook), f.AuctionCount(e, c.Hook)
		res := f.runAuctionStep(e, c.Hook)
		post, apost := e.Digest(), f.AuctionView(e, c.Hook)
		args := map[string]interface{}{"m": c.M, "hook": c.Hook, "app": c.App, "off": c.Off, "pm": c.Pm, "ref": ref[c.Hook]}
		id := r.lg.Add(root, r.run, "Auc", args, rj(res), map[string]interface{}{"pre": pre, "post": post, "apre": apre, "apost": apost, "live": live})
		if len(c.Off) == 0 {
			ref[c.Hook] = id
			args["ref"] = id
		}
	}
}

func Main(args []string) int {
	fs := flag.NewFlagSet("matrix", flag.ExitOnError)
	probe := fs.Bool("probe", false, "print per-cell diagnostics of the fresh state")
	cellsF := fs.String("cells", "", "file with TLC cell lines")
	out := fs.String("out", "matrix.ndjson", "output tree log")
	seed := fs.Int64("seed", 1, "seed")
	states := fs.Int("states", 2, "number of non-fresh states (seeded random prefixes)")
	steps := fs.Int("steps", 14, "operations per random prefix")
	replay := fs.String("replay", "", "replay file written by bin/check (path root -> failing cell): re-executes that cell and prints the nodes")
	fs.Parse(args)
	if *replay != "" {
		return replayMain(*replay)
	}
	chain.SetAccountAddressPrefixes()
	t0 := time.Now()
	f := NewFixture()
	cells, err := readCells(*cellsF)
	if err != nil {
		fmt.Fprintln(os.Stderr, err)
		return 2
	}
	lg := &sim.Log{}
	lg.Add(0, "meta", "Catalogue", map[string]interface{}{}, map[string]interface{}{}, map[string]interface{}{"ids": f.RoutedIDs()})
	r := &runner{f: f, lg: lg}
	for k := 0; k <= *states; k++ {
		s := f.E.Branch()
		ops := []string{}
		if k > 0 {
			ops = f.RandomPrefix(s, sim.NewRng(*seed*1000+int64(k)), *steps)
		}
		r.run = fmt.Sprintf("s%d", k)
		root := lg.Add(0, r.run, "State", map[string]interface{}{"k": k, "seed": *seed, "steps": *steps, "ops": ops}, map[string]interface{}{}, map[string]interface{}{"pre": s.Digest(), "post": s.Digest()})
		r.execState(s, root, cells)
	}
	{
		// the holey state: older positions removed, third parties opened new ones; the complete matrix runs on it
		s := f.E.Branch()
		ops := f.MakeHoley(s)
		r.run = "h"
		root := lg.Add(0, r.run, "State", map[string]interface{}{"k": -1, "seed": *seed, "steps": *steps, "ops": ops}, map[string]interface{}{}, map[string]interface{}{"pre": s.Digest(), "post": s.Digest()})
		r.execState(s, root, cells)
	}
	if *probe {
		for _, n := range lg.Nodes {
			b, _ := json.Marshal(n)
			fmt.Println(string(b))
		}
	}
	if err := lg.Write(*out); err != nil {
		fmt.Fprintln(os.Stderr, err)
		return 2
	}
	fmt.Printf("matrix: cells=%d states=%d nodes=%d wall=%.1fs\n", len(cells), *states+1, len(lg.Nodes), time.Since(t0).Seconds())
	return 0
}

// refOf is the cell that shows the same message / hook acting without the guard under test.
func refOf(c Cell) Cell {
	r := c
	switch c.M {
	case "own":
		r.Signer = c.Holder
	case "priv":
		r.Chain, r.Sender = "comdex-1", c.Des
	case "open":
		r.Hole = false
	case "ctl", "hook", "auc":
		r.Breaker, r.Esm, r.Off, r.Pm = false, "off", []string{}, "na"
	}
	return r
}

// replayMain re-executes the failing cell of a replay file (header line, State node, cell node) on the current code:
// same fixture, same seeded prefix, the reference cell and the cell itself; prints the recorded and the new nodes.
func replayMain(path string) int {
	nodes, err := sim.ReadNDJSON(path)
	if err != nil || len(nodes) < 3 {
		fmt.Fprintln(os.Stderr, "bad replay file:", err)
		return 2
	}
	chain.SetAccountAddressPrefixes()
	stArgs, _ := nodes[1]["args"].(map[string]interface{})
	num := func(v interface{}) int64 { n, _ := v.(json.Number).Int64(); return n }
	k, seed, steps := num(stArgs["k"]), num(stArgs["seed"]), num(stArgs["steps"])
	raw, _ := json.Marshal(nodes[len(nodes)-1]["args"])
	var c Cell
	if err := json.Unmarshal(raw, &c); err != nil {
		fmt.Fprintln(os.Stderr, "bad cell:", err)
		return 2
	}
	if c.Off == nil {
		c.Off = []string{}
	}
	f := NewFixture()
	s := f.E.Branch()
	ops := []string{}
	if k > 0 {
		ops = f.RandomPrefix(s, sim.NewRng(seed*1000+k), int(steps))
	} else if k < 0 {
		ops = f.MakeHoley(s)
	}
	lg := &sim.Log{}
	r := &runner{f: f, lg: lg, run: fmt.Sprintf("s%d", k)}
	root := lg.Add(0, r.run, "State", map[string]interface{}{"k": k, "seed": seed, "steps": steps, "ops": ops}, map[string]interface{}{}, map[string]interface{}{"pre": s.Digest(), "post": s.Digest()})
	cells := []Cell{refOf(c)}
	if key(refOf(c)) != key(c) {
		cells = append(cells, c)
	}
	r.execState(s, root, cells)
	rec, _ := json.Marshal(nodes[len(nodes)-1])
	fmt.Println("recorded:", string(rec))
	for _, n := range lg.Nodes {
		b, _ := json.Marshal(n)
		fmt.Println("replayed:", string(b))
	}
	return 0
}
