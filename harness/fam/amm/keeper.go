package amm

import (
	"fmt"
	"math/big"
	"time"

	sdkmath "cosmossdk.io/math"
	sdk "github.com/cosmos/cosmos-sdk/types"

	assettypes "github.com/comdex-official/comdex/x/asset/types"
	"github.com/comdex-official/comdex/x/liquidity"
	ramm "github.com/comdex-official/comdex/x/liquidity/amm"
	ltypes "github.com/comdex-official/comdex/x/liquidity/types"

	"vh/sim"
)

// ---------------------------------------------------------------------------------------------------
// keeper-level fixture: real application, one app, assets ubase / uquote, one pair; every actor funded.
// Messages go through the message router (sim.Deliver); batches are ended with the liquidity module's
// own EndBlocker / BeginBlocker (as the repository's tests do), on a context whose header the driver sets.
// ---------------------------------------------------------------------------------------------------

const (
	baseDenom  = "ubase"
	quoteDenom = "uquote"
	nActors    = 24
)

type kfix struct {
	e     *sim.Env
	appID uint64
	pair  ltypes.Pair
}

func actor(i int) string { return fmt.Sprintf("a%d", i) }

func newFix() *kfix {
	huge, _ := new(big.Int).SetString("1000000000000000000000000000000000000000000000", 10) // 10^45
	var funds []sim.Fund
	for i := 0; i < nActors; i++ {
		funds = append(funds, sim.Fund{Name: actor(i), Coins: sdk.NewCoins(
			sdk.NewCoin(baseDenom, sdkmath.NewIntFromBigInt(huge)), sdk.NewCoin(quoteDenom, sdkmath.NewIntFromBigInt(huge)),
			sdk.NewCoin("ucmdx", sdkmath.NewInt(1000000000000000)))})
	}
	e := sim.New(funds)
	must(e.App.AssetKeeper.AddAppRecords(e.Ctx, assettypes.AppData{Name: "dex", ShortName: "dex", MinGovDeposit: sdkmath.ZeroInt(), GovTimeInSeconds: 0, GenesisToken: []assettypes.MintGenesisToken{}}))
	var appID uint64
	apps, _ := e.App.AssetKeeper.GetApps(e.Ctx)
	for _, a := range apps {
		if a.Name == "dex" {
			appID = a.Id
		}
	}
	for _, a := range []struct{ n, d string }{{"BASE", baseDenom}, {"QUOTE", quoteDenom}, {"CMDX", "ucmdx"}} {
		must(e.App.AssetKeeper.AddAssetRecords(e.Ctx, assettypes.Asset{Name: a.n, Denom: a.d, Decimals: sdkmath.NewInt(1000000), IsOnChain: true}))
	}
	r := e.Deliver(ltypes.NewMsgCreatePair(appID, e.Users[actor(0)], baseDenom, quoteDenom))
	if !r.OK {
		panic("create pair: " + r.Err)
	}
	pair, found := e.App.LiquidityKeeper.GetPair(e.Ctx, appID, 1)
	if !found {
		panic("pair not found")
	}
	return &kfix{e: e, appID: appID, pair: pair}
}

func must(err error) {
	if err != nil {
		panic(err)
	}
}

// branch: an independent copy of the fixture state (CacheContext branch, never written back).
func (f *kfix) branch() *kfix {
	n := *f
	n.e = f.e.Branch()
	return &n
}

func (f *kfix) bal(addr sdk.AccAddress, denom string) *big.Int {
	return f.e.App.BankKeeper.GetBalance(f.e.Ctx, addr, denom).Amount.BigInt()
}

// endBatch runs the liquidity EndBlocker (ExecuteRequests for every app) on the current context.
func (f *kfix) endBatch() (panicked bool, ps string) {
	defer func() {
		if x := recover(); x != nil {
			panicked, ps = true, fmt.Sprint(x)
		}
	}()
	liquidity.EndBlocker(f.e.Ctx, f.e.App.LiquidityKeeper, f.e.App.AssetKeeper)
	return
}

// beginNext advances height/time and runs the liquidity BeginBlocker (deletes finished requests).
func (f *kfix) beginNext(dt time.Duration) {
	f.e.Height++
	f.e.Time = f.e.Time.Add(dt)
	f.e.Ctx = f.e.Ctx.WithBlockHeight(f.e.Height).WithBlockTime(f.e.Time)
	liquidity.BeginBlocker(f.e.Ctx, f.e.App.LiquidityKeeper, f.e.App.AssetKeeper)
}

func (f *kfix) setParams(keys, vals []string) {
	must(f.e.App.LiquidityKeeper.UpdateGenericParams(f.e.Ctx, f.appID, keys, vals))
}

func (f *kfix) createPool(creator int, x, y *big.Int) (ltypes.Pool, sim.Result) {
	r := f.e.Deliver(ltypes.NewMsgCreatePool(f.appID, f.e.Users[actor(creator)], f.pair.Id,
		sdk.NewCoins(sdk.NewCoin(quoteDenom, sdkmath.NewIntFromBigInt(x)), sdk.NewCoin(baseDenom, sdkmath.NewIntFromBigInt(y)))))
	if !r.OK {
		return ltypes.Pool{}, r
	}
	id := f.e.App.LiquidityKeeper.GetLastPoolID(f.e.Ctx, f.appID)
	p, _ := f.e.App.LiquidityKeeper.GetPool(f.e.Ctx, f.appID, id)
	return p, r
}

func (f *kfix) createRanged(creator int, x, y *big.Int, mn, mx, init sdkmath.LegacyDec) (ltypes.Pool, sim.Result) {
	coins := sdk.Coins{}
	if x.Sign() > 0 {
		coins = coins.Add(sdk.NewCoin(quoteDenom, sdkmath.NewIntFromBigInt(x)))
	}
	if y.Sign() > 0 {
		coins = coins.Add(sdk.NewCoin(baseDenom, sdkmath.NewIntFromBigInt(y)))
	}
	r := f.e.Deliver(ltypes.NewMsgCreateRangedPool(f.appID, f.e.Users[actor(creator)], f.pair.Id, coins, mn, mx, init))
	if !r.OK {
		return ltypes.Pool{}, r
	}
	id := f.e.App.LiquidityKeeper.GetLastPoolID(f.e.Ctx, f.appID)
	p, _ := f.e.App.LiquidityKeeper.GetPool(f.e.Ctx, f.appID, id)
	return p, r
}

func (f *kfix) limitOrder(who int, dir ramm.OrderDirection, price sdkmath.LegacyDec, amt sdkmath.Int) sim.Result {
	var offer sdk.Coin
	var demand string
	d := ltypes.OrderDirectionBuy
	if dir == ramm.Buy {
		offer = sdk.NewCoin(quoteDenom, ramm.OfferCoinAmount(ramm.Buy, price, amt))
		demand = baseDenom
	} else {
		d = ltypes.OrderDirectionSell
		offer = sdk.NewCoin(baseDenom, amt)
		demand = quoteDenom
	}
	// room for the swap fee (whatever is not needed is never taken from the orderer)
	offer.Amount = offer.Amount.Add(offer.Amount.QuoRaw(50)).AddRaw(10)
	return f.e.Deliver(ltypes.NewMsgLimitOrder(f.appID, f.e.Users[actor(who)], f.pair.Id, d, offer, demand, price, amt, 10*time.Hour))
}

// ---------------------------------------------------------------------------------------------------
// kfull: real limit orders, the real end-of-batch matching, observed on order records and bank balances
// ---------------------------------------------------------------------------------------------------

type liveOrder struct {
	o      ltypes.Order
	demand *big.Int // orderer's balance of the demand coin before the batch ends
}

func (f *kfix) liveOrders() []liveOrder {
	var out []liveOrder
	for _, o := range f.e.App.LiquidityKeeper.GetOrdersByPair(f.e.Ctx, f.appID, f.pair.Id) {
		switch o.Status {
		case ltypes.OrderStatusNotExecuted, ltypes.OrderStatusNotMatched, ltypes.OrderStatusPartiallyMatched:
			out = append(out, liveOrder{o: o, demand: f.bal(o.GetOrderer(), o.ReceivedCoin.Denom)})
		}
	}
	return out
}

// endBatchNode ends the batch and records one Match node: per order offer/paid/open from the stored order records,
// received from the orderer's real balance; the pool as one pseudo order from its reserve balances.
func (f *kfix) endBatchNode(lg *sim.Log, parent int, run string, args map[string]interface{}, pools []ltypes.Pool) int {
	k := f.e.App.LiquidityKeeper
	before := f.liveOrders()
	pairBefore, _ := k.GetPair(f.e.Ctx, f.appID, f.pair.Id)
	type resv struct{ x, y *big.Int }
	var rb []resv
	for _, p := range pools {
		rb = append(rb, resv{f.bal(p.GetReserveAddress(), quoteDenom), f.bal(p.GetReserveAddress(), baseDenom)})
	}
	params, _ := k.GetGenericParams(f.e.Ctx, f.appID)
	dustAddr, _ := sdk.AccAddressFromBech32(params.DustCollectorAddress)
	dustBefore := f.bal(dustAddr, quoteDenom)
	escB0, escQ0 := f.bal(f.pair.GetEscrowAddress(), baseDenom), f.bal(f.pair.GetEscrowAddress(), quoteDenom)

	panicked, ps := f.endBatch()

	pairAfter, _ := k.GetPair(f.e.Ctx, f.appID, f.pair.Id)
	r := result{mode: "kfull", tp: int(params.TickPrecision), poolKind: "none", diff: new(big.Int), panicked: panicked, panicS: ps}
	if pairBefore.LastPrice != nil {
		r.hasLast, r.last = true, *pairBefore.LastPrice
	}
	anyFill := false
	for _, b := range before {
		a, found := k.GetOrder(f.e.Ctx, f.appID, f.pair.Id, b.o.Id)
		dir := ramm.Buy
		if b.o.Direction == ltypes.OrderDirectionSell {
			dir = ramm.Sell
		}
		ro := resOrder{dir: dir, price: b.o.Price, amt: b.o.OpenAmount.BigInt(), offer: b.o.RemainingOfferCoin.Amount.BigInt(),
			paid: new(big.Int), recv: new(big.Int), open: b.o.OpenAmount.BigInt(), fills: -1, old: b.o.BatchId < pairBefore.CurrentBatchId}
		if found {
			ro.paid = new(big.Int).Sub(b.o.RemainingOfferCoin.Amount.BigInt(), a.RemainingOfferCoin.Amount.BigInt())
			ro.open = a.OpenAmount.BigInt()
		}
		ro.recv = new(big.Int).Sub(f.bal(b.o.GetOrderer(), b.o.ReceivedCoin.Denom), b.demand)
		if ro.open.Cmp(ro.amt) != 0 {
			anyFill = true
		}
		r.orders = append(r.orders, ro)
	}
	for i, p := range pools {
		dx := new(big.Int).Sub(f.bal(p.GetReserveAddress(), quoteDenom), rb[i].x)
		dy := new(big.Int).Sub(f.bal(p.GetReserveAddress(), baseDenom), rb[i].y)
		if dx.Sign() == 0 && dy.Sign() == 0 {
			continue
		}
		anyFill = true
		kind := "basic"
		if p.Type == ltypes.PoolTypeRanged {
			kind = "ranged"
		}
		r.poolKind = kind
		// the pool bought base (dy > 0, paid quote) or sold base (dy < 0, received quote)
		ro := resOrder{price: sdkmath.LegacyZeroDec(), fills: -1, pool: true, open: new(big.Int)}
		if dy.Sign() >= 0 {
			ro.dir, ro.amt, ro.recv, ro.paid = ramm.Buy, new(big.Int).Set(dy), new(big.Int).Set(dy), new(big.Int).Neg(dx)
			ro.offer = new(big.Int).Set(rb[i].x)
		} else {
			ro.dir, ro.amt, ro.paid, ro.recv = ramm.Sell, new(big.Int).Neg(dy), new(big.Int).Neg(dy), new(big.Int).Set(dx)
			ro.offer = new(big.Int).Set(rb[i].y)
		}
		r.orders = append(r.orders, ro)
	}
	r.matched = anyFill
	if pairAfter.LastPrice != nil && anyFill {
		r.mp = *pairAfter.LastPrice
	}
	dust := new(big.Int).Sub(f.bal(dustAddr, quoteDenom), dustBefore)
	r.diff = dust
	escB1, escQ1 := f.bal(f.pair.GetEscrowAddress(), baseDenom), f.bal(f.pair.GetEscrowAddress(), quoteDenom)
	r.extra = map[string]interface{}{
		"escrowBaseDelta":  new(big.Int).Sub(escB1, escB0).String(),
		"escrowQuoteDelta": new(big.Int).Sub(escQ1, escQ0).String(),
		"dustCollected":    dust.String(),
	}
	return lg.Add(parent, run, "EndBatch", args, map[string]interface{}{"panic": panicked}, r.node())
}

func keeperMatch(lg *sim.Log, seed int64, n int) int {
	f0 := newFix()
	rng := sim.NewRng(seed*7919 + 11)
	dec := sdkmath.LegacyMustNewDecFromStr
	nodes := 0

	// scenario 0 (fixed): the history of DESIGN section 5 #10, default parameters
	{
		f := f0.branch()
		run := "kfull:fixed"
		root := lg.Add(0, run, "Init", map[string]interface{}{"scenario": "older sell 200@0.9; sells 1900@0.9 1100@0.9 2200@0.5; buy 2401@2.0"}, nil, initMatchNode())
		f.limitOrder(1, ramm.Sell, dec("0.9"), sdkmath.NewInt(200))
		p := f.endBatchNode(lg, root, run, map[string]interface{}{"batch": 1}, nil)
		f.beginNext(6 * time.Second)
		f.limitOrder(2, ramm.Sell, dec("0.9"), sdkmath.NewInt(1900))
		f.limitOrder(3, ramm.Sell, dec("0.9"), sdkmath.NewInt(1100))
		f.limitOrder(4, ramm.Sell, dec("0.5"), sdkmath.NewInt(2200))
		f.limitOrder(5, ramm.Buy, dec("2.0"), sdkmath.NewInt(2401))
		f.endBatchNode(lg, p, run, map[string]interface{}{"batch": 2}, nil)
		nodes += 3
	}

	centres := []string{"0.5", "0.9", "1", "1.5", "2", "0.25", "3.3"}
	for s := 0; s < n; s++ {
		f := f0.branch()
		run := fmt.Sprintf("kfull:%d:%d", seed, s)
		tp := int(ltypes.DefaultTickPrecision)
		centre := dec(centres[rng.Intn(len(centres))])
		ci := ramm.TickToIndex(ramm.PriceToDownTick(centre, tp), tp)
		var pools []ltypes.Pool
		desc := map[string]interface{}{"centre": centre.String(), "pool": "none"}
		switch rng.Intn(4) {
		case 0:
			y := big.NewInt(int64(2000000 + rng.Intn(30000000)))
			x := centre.MulInt(sdkmath.NewIntFromBigInt(y)).TruncateInt().BigInt()
			if x.Cmp(big.NewInt(1000000)) < 0 {
				x = big.NewInt(1000000)
			}
			if p, r := f.createPool(0, x, y); r.OK {
				pools = append(pools, p)
				desc["pool"] = "basic"
			}
		case 1:
			y := big.NewInt(int64(2000000 + rng.Intn(30000000)))
			x := centre.MulInt(sdkmath.NewIntFromBigInt(y)).TruncateInt().BigInt()
			mn := ramm.TickFromIndex(ci-2000-rng.Intn(3000), tp)
			mx := ramm.TickFromIndex(ci+2000+rng.Intn(3000), tp)
			if p, r := f.createRanged(0, x, y, mn, mx, ramm.PriceToDownTick(centre, tp)); r.OK {
				pools = append(pools, p)
				desc["pool"] = "ranged"
			}
		}
		root := lg.Add(0, run, "Init", desc, nil, initMatchNode())
		nodes++
		parent := root
		who := 1
		batches := 2 + rng.Intn(3)
		for b := 0; b < batches; b++ {
			no := 1 + rng.Intn(6)
			placed := []interface{}{}
			for i := 0; i < no && who < nActors; i++ {
				dir := ramm.Buy
				if rng.Intn(2) == 0 {
					dir = ramm.Sell
				}
				off := rng.Intn(9) - 4
				if rng.Intn(3) == 0 {
					off *= 20
				}
				price := ramm.TickFromIndex(ci+off, tp)
				if pr, _ := f.e.App.LiquidityKeeper.GetPair(f.e.Ctx, f.appID, f.pair.Id); pr.LastPrice != nil {
					lo, hi := ltypes.PriceLimits(*pr.LastPrice, ltypes.DefaultMaxPriceLimitRatio, tp)
					if price.LT(lo) {
						price = lo
					}
					if price.GT(hi) {
						price = hi
					}
				}
				var amt int64
				switch rng.Intn(4) {
				case 0:
					amt = int64(100 + rng.Intn(300))
				case 1:
					amt = int64(100 + rng.Intn(3000))
				case 2:
					amt = int64(1000 + rng.Intn(200000))
				default:
					amt = int64(200 + rng.Intn(2500))
				}
				r := f.limitOrder(who, dir, price, sdkmath.NewInt(amt))
				placed = append(placed, map[string]interface{}{"who": actor(who), "dir": dir.String(), "price": price.String(), "amt": amt, "ok": r.OK})
				who++
			}
			parent = f.endBatchNode(lg, parent, run, map[string]interface{}{"batch": b + 1, "placed": placed}, pools)
			nodes++
			f.beginNext(6 * time.Second)
		}
	}
	return nodes
}

// initMatchNode: the root of a keeper-level scenario (an empty, unmatched book).
func initMatchNode() map[string]interface{} {
	r := result{mode: "kfull", tp: int(ltypes.DefaultTickPrecision), poolKind: "none", diff: new(big.Int)}
	return r.node()
}
