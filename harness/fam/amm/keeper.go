package amm

import (
	"fmt"
	"math/big"
	"time"

	sdkmath "cosmossdk.io/math"
	sdk "github.com/cosmos/cosmos-sdk/types"

	assettypes "github.com/comdex-official/comdex/x/asset/types"
	"github.com/comdex-official/comdex/x/liquidity"
	ramm "github.com/comdex-official/comdex/x/liquidity/amm"
	ltypes "github.com/comdex-official/comdex/x/liquidity/types"

	"vh/sim"
)

// ---------------------------------------------------------------------------------------------------
// keeper-level fixture: the real application with pairwise DISTINCT ids, so that a handler that picks the wrong id
// variable (pool id for pair id, app id for pair id, ...) cannot hide behind "everything is 1":
//
//	app 1 "other"  : a foreign app with pair 1 = ubase/uquote (its pools get the same pool ids as the pools under test;
//	                 their shares are held by the attacker actor)
//	app 2 "dex"    : the app under test
//	   pair 1 = ubase/uthird   (second real pair: shares the base coin with the pair under test; exercised by kfull)
//	   pair 2 = uthird/uquote  (shares the quote coin with the pair under test)
//	   pair 3 = ubase/uquote   (the pair under test)
//
// Pools are created on top of this by the drivers (shares: ranged pools 1 and 2 and basic pool 3 in pair 3, so pool id
// != pair id != app id; matching: pool 1 in pair 3, pool 2 in pair 1).
// Messages go through the message router (sim.Deliver); batches are ended with the liquidity module's
// own EndBlocker / BeginBlocker (as the repository's tests do), on a context whose header the driver sets.
// ---------------------------------------------------------------------------------------------------

const (
	baseDenom  = "ubase"
	quoteDenom = "uquote"
	thirdDenom = "uthird"
	nActors    = 28
	attacker   = 20          // creates the foreign app's pools and holds their shares
	sink       = nActors - 1 // source / sink of injected reserves
)

type kfix struct {
	e         *sim.Env
	appID     uint64      // app under test (2)
	otherApp  uint64      // foreign app (1)
	pair      ltypes.Pair // pair under test: app 2 / pair 3 (ubase/uquote)
	side      ltypes.Pair // app 2 / pair 1 (ubase/uthird)
	decoy     ltypes.Pair // app 2 / pair 2 (uthird/uquote)
	otherPair ltypes.Pair // app 1 / pair 1 (ubase/uquote)
}

func actor(i int) string { return fmt.Sprintf("a%d", i) }

func newFix() *kfix {
	huge, _ := new(big.Int).SetString("1000000000000000000000000000000000000000000000", 10) // 10^45
	var funds []sim.Fund
	for i := 0; i < nActors; i++ {
		h := sdkmath.NewIntFromBigInt(huge)
		funds = append(funds, sim.Fund{Name: actor(i), Coins: sdk.NewCoins(sdk.NewCoin(baseDenom, h), sdk.NewCoin(quoteDenom, h), sdk.NewCoin(thirdDenom, h),
			sdk.NewCoin("ucmdx", sdkmath.NewInt(1000000000000000)))})
	}
	e := sim.New(funds)
	appIDs := map[string]uint64{}
	for _, name := range []string{"other", "dex"} {
		must(e.App.AssetKeeper.AddAppRecords(e.Ctx, assettypes.AppData{Name: name, ShortName: name, MinGovDeposit: sdkmath.ZeroInt(), GovTimeInSeconds: 0, GenesisToken: []assettypes.MintGenesisToken{}}))
	}
	apps, _ := e.App.AssetKeeper.GetApps(e.Ctx)
	for _, a := range apps {
		appIDs[a.Name] = a.Id
	}
	for _, a := range []struct{ n, d string }{{"BASE", baseDenom}, {"QUOTE", quoteDenom}, {"THIRD", thirdDenom}, {"CMDX", "ucmdx"}} {
		must(e.App.AssetKeeper.AddAssetRecords(e.Ctx, assettypes.Asset{Name: a.n, Denom: a.d, Decimals: sdkmath.NewInt(1000000), IsOnChain: true}))
	}
	f := &kfix{e: e, appID: appIDs["dex"], otherApp: appIDs["other"]}
	mk := func(app uint64, b, q string) ltypes.Pair {
		r := e.Deliver(ltypes.NewMsgCreatePair(app, e.Users[actor(0)], b, q))
		if !r.OK {
			panic("create pair: " + r.Err)
		}
		p, found := e.App.LiquidityKeeper.GetPairByDenoms(e.Ctx, app, b, q)
		if !found {
			panic("pair not found")
		}
		return p
	}
	f.otherPair = mk(f.otherApp, baseDenom, quoteDenom)
	f.side = mk(f.appID, baseDenom, thirdDenom)
	f.decoy = mk(f.appID, thirdDenom, quoteDenom)
	f.pair = mk(f.appID, baseDenom, quoteDenom)
	if f.otherApp != 1 || f.appID != 2 || f.side.Id != 1 || f.decoy.Id != 2 || f.pair.Id != 3 || f.otherPair.Id != 1 {
		panic(fmt.Sprintf("fixture ids not as designed: apps %d %d pairs %d %d %d %d", f.otherApp, f.appID, f.side.Id, f.decoy.Id, f.pair.Id, f.otherPair.Id))
	}
	return f
}

func must(err error) {
	if err != nil {
		panic(err)
	}
}

// branch: an independent copy of the fixture state (CacheContext branch, never written back).
func (f *kfix) branch() *kfix {
	n := *f
	n.e = f.e.Branch()
	return &n
}

func (f *kfix) bal(addr sdk.AccAddress, denom string) *big.Int {
	return f.e.App.BankKeeper.GetBalance(f.e.Ctx, addr, denom).Amount.BigInt()
}

// endBatch runs the liquidity EndBlocker (ExecuteRequests for every app) on the current context.
func (f *kfix) endBatch() (panicked bool, ps string) {
	defer func() {
		if x := recover(); x != nil {
			panicked, ps = true, fmt.Sprint(x)
		}
	}()
	liquidity.EndBlocker(f.e.Ctx, f.e.App.LiquidityKeeper, f.e.App.AssetKeeper)
	return
}

// beginNext advances height/time and runs the liquidity BeginBlocker (deletes finished requests).
func (f *kfix) beginNext(dt time.Duration) {
	f.e.Height++
	f.e.Time = f.e.Time.Add(dt)
	f.e.Ctx = f.e.Ctx.WithBlockHeight(f.e.Height).WithBlockTime(f.e.Time)
	liquidity.BeginBlocker(f.e.Ctx, f.e.App.LiquidityKeeper, f.e.App.AssetKeeper)
}

func (f *kfix) setParams(keys, vals []string) {
	must(f.e.App.LiquidityKeeper.UpdateGenericParams(f.e.Ctx, f.appID, keys, vals))
}

func (f *kfix) lastPool(app uint64) ltypes.Pool {
	id := f.e.App.LiquidityKeeper.GetLastPoolID(f.e.Ctx, app)
	p, _ := f.e.App.LiquidityKeeper.GetPool(f.e.Ctx, app, id)
	return p
}

// createPoolIn: MsgCreatePool of a basic pool in the given pair (x = quote coin, y = base coin of that pair).
func (f *kfix) createPoolIn(app uint64, pair ltypes.Pair, creator int, x, y *big.Int) (ltypes.Pool, sim.Result) {
	r := f.e.Deliver(ltypes.NewMsgCreatePool(app, f.e.Users[actor(creator)], pair.Id,
		sdk.NewCoins(sdk.NewCoin(pair.QuoteCoinDenom, sdkmath.NewIntFromBigInt(x)), sdk.NewCoin(pair.BaseCoinDenom, sdkmath.NewIntFromBigInt(y)))))
	if !r.OK {
		return ltypes.Pool{}, r
	}
	return f.lastPool(app), r
}

func (f *kfix) createRangedIn(app uint64, pair ltypes.Pair, creator int, x, y *big.Int, mn, mx, init sdkmath.LegacyDec) (ltypes.Pool, sim.Result) {
	coins := sdk.Coins{}
	if x.Sign() > 0 {
		coins = coins.Add(sdk.NewCoin(pair.QuoteCoinDenom, sdkmath.NewIntFromBigInt(x)))
	}
	if y.Sign() > 0 {
		coins = coins.Add(sdk.NewCoin(pair.BaseCoinDenom, sdkmath.NewIntFromBigInt(y)))
	}
	r := f.e.Deliver(ltypes.NewMsgCreateRangedPool(app, f.e.Users[actor(creator)], pair.Id, coins, mn, mx, init))
	if !r.OK {
		return ltypes.Pool{}, r
	}
	return f.lastPool(app), r
}

func (f *kfix) createPool(creator int, x, y *big.Int) (ltypes.Pool, sim.Result) {
	return f.createPoolIn(f.appID, f.pair, creator, x, y)
}

func (f *kfix) createRanged(creator int, x, y *big.Int, mn, mx, init sdkmath.LegacyDec) (ltypes.Pool, sim.Result) {
	return f.createRangedIn(f.appID, f.pair, creator, x, y, mn, mx, init)
}

// limitOrderIn: MsgLimitOrder in (app, pair) with the coins of that pair.
func (f *kfix) limitOrderIn(app uint64, pair ltypes.Pair, who int, dir ramm.OrderDirection, price sdkmath.LegacyDec, amt sdkmath.Int) sim.Result {
	return f.limitOrderRaw(app, pair.Id, pair.BaseCoinDenom, pair.QuoteCoinDenom, who, dir, price, amt)
}

// limitOrderRaw lets the driver name any (app, pair id, denoms) combination - also inconsistent ones (adversarial attempts).
func (f *kfix) limitOrderRaw(app, pairID uint64, base, quote string, who int, dir ramm.OrderDirection, price sdkmath.LegacyDec, amt sdkmath.Int) sim.Result {
	var offer sdk.Coin
	var demand string
	d := ltypes.OrderDirectionBuy
	if dir == ramm.Buy {
		offer = sdk.NewCoin(quote, ramm.OfferCoinAmount(ramm.Buy, price, amt))
		demand = base
	} else {
		d = ltypes.OrderDirectionSell
		offer = sdk.NewCoin(base, amt)
		demand = quote
	}
	// room for the swap fee (whatever is not needed is never taken from the orderer)
	offer.Amount = offer.Amount.Add(offer.Amount.QuoRaw(50)).AddRaw(10)
	return f.e.Deliver(ltypes.NewMsgLimitOrder(app, f.e.Users[actor(who)], pairID, d, offer, demand, price, amt, 10*time.Hour))
}

func (f *kfix) limitOrder(who int, dir ramm.OrderDirection, price sdkmath.LegacyDec, amt sdkmath.Int) sim.Result {
	return f.limitOrderIn(f.appID, f.pair, who, dir, price, amt)
}

// ---------------------------------------------------------------------------------------------------
// kfull: real limit orders, the real end-of-batch matching, observed on order records and bank balances
// ---------------------------------------------------------------------------------------------------

type liveOrder struct {
	o      ltypes.Order
	demand *big.Int // orderer's balance of the demand coin before the batch ends
}

type resv struct{ x, y *big.Int }

// pairSnap: everything of one pair that is needed to describe what the end of the batch did to it.
type pairSnap struct {
	f          *kfix
	pair       ltypes.Pair
	pools      []ltypes.Pool
	before     []liveOrder
	pairBefore ltypes.Pair
	rb         []resv
	dustAddr   sdk.AccAddress
	dustBefore *big.Int
	escB0      *big.Int
	escQ0      *big.Int
	tp         int
}

func (f *kfix) snapPair(pair ltypes.Pair, pools []ltypes.Pool) *pairSnap {
	k := f.e.App.LiquidityKeeper
	s := &pairSnap{f: f, pair: pair, pools: pools}
	for _, o := range k.GetOrdersByPair(f.e.Ctx, pair.AppId, pair.Id) {
		switch o.Status {
		case ltypes.OrderStatusNotExecuted, ltypes.OrderStatusNotMatched, ltypes.OrderStatusPartiallyMatched:
			s.before = append(s.before, liveOrder{o: o, demand: f.bal(o.GetOrderer(), o.ReceivedCoin.Denom)})
		}
	}
	s.pairBefore, _ = k.GetPair(f.e.Ctx, pair.AppId, pair.Id)
	for _, p := range pools {
		s.rb = append(s.rb, resv{f.bal(p.GetReserveAddress(), pair.QuoteCoinDenom), f.bal(p.GetReserveAddress(), pair.BaseCoinDenom)})
	}
	params, _ := k.GetGenericParams(f.e.Ctx, pair.AppId)
	s.tp = int(params.TickPrecision)
	s.dustAddr, _ = sdk.AccAddressFromBech32(params.DustCollectorAddress)
	s.dustBefore = f.bal(s.dustAddr, pair.QuoteCoinDenom)
	s.escB0, s.escQ0 = f.bal(pair.GetEscrowAddress(), pair.BaseCoinDenom), f.bal(pair.GetEscrowAddress(), pair.QuoteCoinDenom)
	return s
}

// result: per order offer/paid/open from the stored order records, received from the orderer's real balance;
// each pool as one pseudo order from its reserve balances (all in the pair's OWN denoms, as the fixture knows them).
func (s *pairSnap) result(panicked bool, ps string) result {
	f, pair := s.f, s.pair
	k := f.e.App.LiquidityKeeper
	pairAfter, _ := k.GetPair(f.e.Ctx, pair.AppId, pair.Id)
	r := result{mode: "kfull", tp: s.tp, poolKind: "none", diff: new(big.Int), panicked: panicked, panicS: ps}
	if s.pairBefore.LastPrice != nil {
		r.hasLast, r.last = true, *s.pairBefore.LastPrice
	}
	anyFill := false
	for _, b := range s.before {
		a, found := k.GetOrder(f.e.Ctx, pair.AppId, pair.Id, b.o.Id)
		dir := ramm.Buy
		if b.o.Direction == ltypes.OrderDirectionSell {
			dir = ramm.Sell
		}
		ro := resOrder{dir: dir, price: b.o.Price, amt: b.o.OpenAmount.BigInt(), offer: b.o.RemainingOfferCoin.Amount.BigInt(),
			paid: new(big.Int), recv: new(big.Int), open: b.o.OpenAmount.BigInt(), fills: -1, old: b.o.BatchId < s.pairBefore.CurrentBatchId}
		if found {
			ro.paid = new(big.Int).Sub(b.o.RemainingOfferCoin.Amount.BigInt(), a.RemainingOfferCoin.Amount.BigInt())
			ro.open = a.OpenAmount.BigInt()
		}
		ro.recv = new(big.Int).Sub(f.bal(b.o.GetOrderer(), b.o.ReceivedCoin.Denom), b.demand)
		if ro.open.Cmp(ro.amt) != 0 || ro.recv.Sign() != 0 {
			anyFill = true
		}
		r.orders = append(r.orders, ro)
	}
	poolIDs := []interface{}{}
	for i, p := range s.pools {
		poolIDs = append(poolIDs, p.Id)
		dx := new(big.Int).Sub(f.bal(p.GetReserveAddress(), pair.QuoteCoinDenom), s.rb[i].x)
		dy := new(big.Int).Sub(f.bal(p.GetReserveAddress(), pair.BaseCoinDenom), s.rb[i].y)
		if dx.Sign() == 0 && dy.Sign() == 0 {
			continue
		}
		anyFill = true
		r.poolKind = kindOf(p)
		// the pool bought base (dy > 0, paid quote) or sold base (dy < 0, received quote)
		ro := resOrder{price: sdkmath.LegacyZeroDec(), fills: -1, pool: true, open: new(big.Int)}
		if dy.Sign() >= 0 {
			ro.dir, ro.amt, ro.recv, ro.paid = ramm.Buy, new(big.Int).Set(dy), new(big.Int).Set(dy), new(big.Int).Neg(dx)
			ro.offer = new(big.Int).Set(s.rb[i].x)
		} else {
			ro.dir, ro.amt, ro.paid, ro.recv = ramm.Sell, new(big.Int).Neg(dy), new(big.Int).Neg(dy), new(big.Int).Set(dx)
			ro.offer = new(big.Int).Set(s.rb[i].y)
		}
		r.orders = append(r.orders, ro)
	}
	r.matched = anyFill
	if pairAfter.LastPrice != nil && anyFill {
		r.mp = *pairAfter.LastPrice
	}
	dust := new(big.Int).Sub(f.bal(s.dustAddr, pair.QuoteCoinDenom), s.dustBefore)
	r.diff = dust
	escB1, escQ1 := f.bal(pair.GetEscrowAddress(), pair.BaseCoinDenom), f.bal(pair.GetEscrowAddress(), pair.QuoteCoinDenom)
	r.extra = map[string]interface{}{
		"escrowBaseDelta":  new(big.Int).Sub(escB1, s.escB0).String(),
		"escrowQuoteDelta": new(big.Int).Sub(escQ1, s.escQ0).String(),
		"dustCollected":    dust.String(),
		"appId":            pair.AppId, "pairId": pair.Id, "poolIds": poolIDs,
	}
	return r
}

// endBatchNode ends the batch and records one EndBatch node for the pair under test.
func (f *kfix) endBatchNode(lg *sim.Log, parent int, run string, args map[string]interface{}, pools []ltypes.Pool) int {
	s := f.snapPair(f.pair, pools)
	panicked, ps := f.endBatch()
	return lg.Add(parent, run, "EndBatch", args, map[string]interface{}{"panic": panicked}, s.result(panicked, ps).node())
}

func keeperMatch(lg *sim.Log, seed int64, n int) int {
	f0 := newFix()
	rng := sim.NewRng(seed*7919 + 11)
	dec := sdkmath.LegacyMustNewDecFromStr
	nodes := 0

	// scenario 0 (fixed): the history of DESIGN section 5 #10, default parameters
	{
		f := f0.branch()
		run := "kfull:fixed"
		root := lg.Add(0, run, "Init", map[string]interface{}{"scenario": "older sell 200@0.9; sells 1900@0.9 1100@0.9 2200@0.5; buy 2401@2.0"}, nil, initMatchNode())
		f.limitOrder(1, ramm.Sell, dec("0.9"), sdkmath.NewInt(200))
		p := f.endBatchNode(lg, root, run, map[string]interface{}{"batch": 1}, nil)
		f.beginNext(6 * time.Second)
		f.limitOrder(2, ramm.Sell, dec("0.9"), sdkmath.NewInt(1900))
		f.limitOrder(3, ramm.Sell, dec("0.9"), sdkmath.NewInt(1100))
		f.limitOrder(4, ramm.Sell, dec("0.5"), sdkmath.NewInt(2200))
		f.limitOrder(5, ramm.Buy, dec("2.0"), sdkmath.NewInt(2401))
		f.endBatchNode(lg, p, run, map[string]interface{}{"batch": 2}, nil)
		nodes += 3
	}

	centres := []string{"0.5", "0.9", "1", "1.5", "2", "0.25", "3.3"}
	for s := 0; s < n; s++ {
		f := f0.branch()
		run := fmt.Sprintf("kfull:%d:%d", seed, s)
		tp := int(ltypes.DefaultTickPrecision)
		centre := dec(centres[rng.Intn(len(centres))])
		ci := ramm.TickToIndex(ramm.PriceToDownTick(centre, tp), tp)
		// pools: the pair under test gets pool 1 (id != pair id != app id); the second pair of the app gets pool 2
		var pools, sidePools []ltypes.Pool
		desc := map[string]interface{}{"centre": centre.String(), "pool": "none", "sidePool": "none"}
		reserves := func() (*big.Int, *big.Int) {
			y := big.NewInt(int64(2000000 + rng.Intn(30000000)))
			x := centre.MulInt(sdkmath.NewIntFromBigInt(y)).TruncateInt().BigInt()
			if x.Cmp(big.NewInt(1000000)) < 0 {
				x = big.NewInt(1000000)
			}
			return x, y
		}
		switch rng.Intn(4) {
		case 0:
			x, y := reserves()
			if p, r := f.createPool(0, x, y); r.OK {
				pools = append(pools, p)
				desc["pool"] = "basic"
			}
		case 1:
			x, y := reserves()
			mn := ramm.TickFromIndex(ci-2000-rng.Intn(3000), tp)
			mx := ramm.TickFromIndex(ci+2000+rng.Intn(3000), tp)
			if p, r := f.createRanged(0, x, y, mn, mx, ramm.PriceToDownTick(centre, tp)); r.OK {
				pools = append(pools, p)
				desc["pool"] = "ranged"
			}
		}
		twoPairs := rng.Intn(2) == 0
		if twoPairs && rng.Intn(2) == 0 {
			x, y := reserves()
			if p, r := f.createPoolIn(f.appID, f.side, 0, x, y); r.OK {
				sidePools = append(sidePools, p)
				desc["sidePool"] = "basic"
			}
		}
		root := lg.Add(0, run, "Init", desc, nil, initMatchNode())
		nodes++
		parent, sideParent := root, root
		who := 1
		batches := 2 + rng.Intn(3)
		for b := 0; b < batches; b++ {
			place := func(pair ltypes.Pair, no int) []interface{} {
				placed := []interface{}{}
				for i := 0; i < no && who < attacker; i++ {
					dir := ramm.Buy
					if rng.Intn(2) == 0 {
						dir = ramm.Sell
					}
					off := rng.Intn(9) - 4
					if rng.Intn(3) == 0 {
						off *= 20
					}
					price := ramm.TickFromIndex(ci+off, tp)
					if pr, _ := f.e.App.LiquidityKeeper.GetPair(f.e.Ctx, pair.AppId, pair.Id); pr.LastPrice != nil {
						lo, hi := ltypes.PriceLimits(*pr.LastPrice, ltypes.DefaultMaxPriceLimitRatio, tp)
						if price.LT(lo) {
							price = lo
						}
						if price.GT(hi) {
							price = hi
						}
					}
					var amt int64
					switch rng.Intn(4) {
					case 0:
						amt = int64(100 + rng.Intn(300))
					case 1:
						amt = int64(100 + rng.Intn(3000))
					case 2:
						amt = int64(1000 + rng.Intn(200000))
					default:
						amt = int64(200 + rng.Intn(2500))
					}
					r := f.limitOrderIn(pair.AppId, pair, who, dir, price, sdkmath.NewInt(amt))
					placed = append(placed, map[string]interface{}{"who": actor(who), "dir": dir.String(), "price": price.String(), "amt": amt, "ok": r.OK})
					who++
				}
				return placed
			}
			placed := place(f.pair, 1+rng.Intn(6))
			var sidePlaced []interface{}
			if twoPairs {
				sidePlaced = place(f.side, 1+rng.Intn(4))
			}
			// adversarial attempts: orders that name a pair / app / coin they do not belong to. Whatever is accepted
			// takes part in the batch like any other order.
			foreign, foreignOK := 0, 0
			if who < attacker-1 {
				price := ramm.TickFromIndex(ci, tp)
				amt := sdkmath.NewInt(int64(150 + rng.Intn(900)))
				var r sim.Result
				switch rng.Intn(4) {
				case 0: // the foreign app does not have pair 3
					r = f.limitOrderRaw(f.otherApp, f.pair.Id, baseDenom, quoteDenom, who, ramm.Buy, price, amt)
				case 1: // pair under test, paid with the coin of another pair
					r = f.limitOrderRaw(f.appID, f.pair.Id, baseDenom, thirdDenom, who, ramm.Buy, price, amt)
				case 2: // pair 1 of the app (ubase/uthird) named with the coins of pair 3
					r = f.limitOrderRaw(f.appID, f.side.Id, baseDenom, quoteDenom, who, ramm.Sell, price, amt)
				default: // pair 2 of the app (uthird/uquote) asked to sell ubase
					r = f.limitOrderRaw(f.appID, f.decoy.Id, baseDenom, quoteDenom, who, ramm.Sell, price, amt)
				}
				foreign++
				if r.OK {
					foreignOK++
				}
				who++
			}
			ms := f.snapPair(f.pair, pools)
			var ss *pairSnap
			if twoPairs {
				ss = f.snapPair(f.side, sidePools)
			}
			panicked, ps := f.endBatch()
			mr := ms.result(panicked, ps)
			mr.extra["foreignAttempts"], mr.extra["foreignAccepted"] = foreign, foreignOK
			parent = lg.Add(parent, run, "EndBatch", map[string]interface{}{"batch": b + 1, "placed": placed}, map[string]interface{}{"panic": panicked}, mr.node())
			nodes++
			if ss != nil {
				sr := ss.result(panicked, ps)
				sideParent = lg.Add(sideParent, run, "EndBatch", map[string]interface{}{"batch": b + 1, "placed": sidePlaced, "pair": "side"}, map[string]interface{}{"panic": panicked}, sr.node())
				nodes++
			}
			f.beginNext(6 * time.Second)
		}
	}
	return nodes
}

// initMatchNode: the root of a keeper-level scenario (an empty, unmatched book).
func initMatchNode() map[string]interface{} {
	r := result{mode: "kfull", tp: int(ltypes.DefaultTickPrecision), poolKind: "none", diff: new(big.Int)}
	return r.node()
}
