// Package amm binds spec/amm/{Match,PoolShares}.tla to x/liquidity/amm and the liquidity keeper (C05, C06).
//
//	vh amm match  : order books (TLC-generated vectors + seeded random books) run through the real
//	                amm.OrderBook / FindMatchPrice / MatchAtSinglePrice / Match, the keeper's Match glue and
//	                (kfull) real limit orders + the liquidity EndBlocker; per-order results are recorded with a
//	                fill-counting order type.
//	vh amm shares : (rx, ry, ps, x, y | pc, fee) vectors run through the real amm.Deposit / amm.Withdraw
//	                (basic and ranged pools), ranged pool creation / swaps, and deposit / withdraw requests
//	                through the real keeper at the end of a batch.
//
// The harness only executes and records: every verdict is TLC's (Trace_Match.tla, Trace_PoolShares.tla).
package amm

import (
	"fmt"
	"os"
)

func Main(args []string) int {
	if len(args) < 1 {
		fmt.Fprintln(os.Stderr, "usage: vh amm match|shares [flags]")
		return 2
	}
	switch args[0] {
	case "match":
		return matchMain(args[1:])
	case "shares":
		return sharesMain(args[1:])
	}
	fmt.Fprintln(os.Stderr, "usage: vh amm match|shares [flags]")
	return 2
}
