package amm

import (
	"bufio"
	"encoding/json"
	"flag"
	"fmt"
	"math/big"
	"os"

	sdkmath "cosmossdk.io/math"

	ramm "github.com/comdex-official/comdex/x/liquidity/amm"
	ltypes "github.com/comdex-official/comdex/x/liquidity/types"

	"vh/sim"
)

// ---------------------------------------------------------------------------------------------------
// fill-counting order: the amm.Order interface admits any implementation; this one delegates to the real
// BaseOrder and counts the individual fills (FillOrder lowers the open amount exactly once per fill).
// ---------------------------------------------------------------------------------------------------

type cOrder struct {
	*ramm.BaseOrder
	id    int
	batch uint64 // 0 = pool order (current batch), like types.PoolOrder
	fills int
	pool  bool
}

func (o *cOrder) GetBatchID() uint64 { return o.batch }

func (o *cOrder) SetOpenAmount(a sdkmath.Int) {
	if a.LT(o.BaseOrder.GetOpenAmount()) {
		o.fills++
	}
	o.BaseOrder.SetOpenAmount(a)
}

// HasPriority mirrors types.UserOrder / types.PoolOrder: larger amount first, then user before pool, then id.
func (o *cOrder) HasPriority(other ramm.Order) bool {
	if !o.Amount.Equal(other.GetAmount()) {
		return o.BaseOrder.HasPriority(other)
	}
	oo, ok := other.(*cOrder)
	if !ok {
		return !o.pool
	}
	if o.pool != oo.pool {
		return !o.pool
	}
	return o.id < oo.id
}

func (o *cOrder) String() string {
	return fmt.Sprintf("cOrder(%d,%d,%s,%s,%s)", o.id, o.batch, o.Direction, o.Price, o.Amount)
}

// cOrderer makes counting pool orders (amm.Orderer).
type cOrderer struct{ made []*cOrder }

func (c *cOrderer) Order(dir ramm.OrderDirection, price sdkmath.LegacyDec, amt sdkmath.Int) ramm.Order {
	o := &cOrder{BaseOrder: ramm.NewBaseOrder(dir, price, amt, ramm.OfferCoinAmount(dir, price, amt)), id: 1000 + len(c.made), pool: true}
	c.made = append(c.made, o)
	return o
}

// ---------------------------------------------------------------------------------------------------
// book description (TLC vector or random generator)
// ---------------------------------------------------------------------------------------------------

type bOrder struct {
	P   *big.Int // price numerator over the book's PD
	A   *big.Int // amount
	Old bool     // placed in an earlier batch
	Age uint64   // batch id (derived: old -> 1, new -> 2; random books use 1..3)
}

type bPool struct {
	Kind   string // none | basic | ranged
	Rx, Ry *big.Int
	Mn, Mx *big.Int // ranged: min / max price numerators over PD
}

type book struct {
	TP    int      // tick precision
	PD    *big.Int // price denominator (power of ten)
	Last  *big.Int // last price numerator, nil = no last price
	Buys  []bOrder
	Sells []bOrder
	Pool  bPool
}

type vecOrder struct {
	P   int64 `json:"p"`
	A   int64 `json:"a"`
	Old bool  `json:"old"`
}

type vecBook struct {
	TP    int        `json:"tp"`
	PD    int64      `json:"pd"`
	Last  int64      `json:"last"`
	Buys  []vecOrder `json:"buys"`
	Sells []vecOrder `json:"sells"`
	Pool  struct {
		Kind string `json:"kind"`
		Rx   int64  `json:"rx"`
		Ry   int64  `json:"ry"`
		Mn   int64  `json:"mn"`
		Mx   int64  `json:"mx"`
	} `json:"pool"`
}

func (v vecBook) book() book {
	b := book{TP: v.TP, PD: big.NewInt(v.PD), Pool: bPool{Kind: v.Pool.Kind, Rx: big.NewInt(v.Pool.Rx), Ry: big.NewInt(v.Pool.Ry), Mn: big.NewInt(v.Pool.Mn), Mx: big.NewInt(v.Pool.Mx)}}
	if v.Last > 0 { // 0 = no last price
		b.Last = big.NewInt(v.Last)
	}
	conv := func(xs []vecOrder) []bOrder {
		out := make([]bOrder, len(xs))
		for i, x := range xs {
			age := uint64(2)
			if x.Old {
				age = 1
			}
			out[i] = bOrder{P: big.NewInt(x.P), A: big.NewInt(x.A), Old: x.Old, Age: age}
		}
		return out
	}
	b.Buys, b.Sells = conv(v.Buys), conv(v.Sells)
	return b
}

var ten18 = new(big.Int).Exp(big.NewInt(10), big.NewInt(18), nil)

func decOf(n, d *big.Int) sdkmath.LegacyDec {
	x := new(big.Int).Mul(n, ten18)
	x.Quo(x, d)
	return sdkmath.LegacyNewDecFromBigIntWithPrec(x, 18)
}

func (b book) ammPool() ramm.Pool {
	switch b.Pool.Kind {
	case "basic":
		return ramm.NewBasicPool(sdkmath.NewIntFromBigInt(b.Pool.Rx), sdkmath.NewIntFromBigInt(b.Pool.Ry), sdkmath.NewInt(1000000))
	case "ranged":
		return ramm.NewRangedPool(sdkmath.NewIntFromBigInt(b.Pool.Rx), sdkmath.NewIntFromBigInt(b.Pool.Ry), sdkmath.NewInt(1000000),
			decOf(b.Pool.Mn, b.PD), decOf(b.Pool.Mx, b.PD))
	}
	return nil
}

func (b book) userOrders() []*cOrder {
	var out []*cOrder
	id := 0
	add := func(dir ramm.OrderDirection, xs []bOrder) {
		for _, x := range xs {
			id++
			price := decOf(x.P, b.PD)
			amt := sdkmath.NewIntFromBigInt(x.A)
			out = append(out, &cOrder{BaseOrder: ramm.NewBaseOrder(dir, price, amt, ramm.OfferCoinAmount(dir, price, amt)), id: id, batch: x.Age})
		}
	}
	add(ramm.Buy, b.Buys)
	add(ramm.Sell, b.Sells)
	return out
}

// ---------------------------------------------------------------------------------------------------
// one execution = one log node
// ---------------------------------------------------------------------------------------------------

// resOrder is the projection of one order after matching.
type resOrder struct {
	dir                               ramm.OrderDirection
	price                             sdkmath.LegacyDec
	amt, offer, paid, recv, open      *big.Int
	fills                             int // -1: not observable (real PoolOrder / stored order record)
	pool, old                         bool
}

type result struct {
	mode      string
	tp        int
	hasLast   bool
	last      sdkmath.LegacyDec
	matched   bool
	mp        sdkmath.LegacyDec
	diff      *big.Int
	panicked  bool
	panicS    string
	orders    []resOrder
	poolKind  string
	extra     map[string]interface{}
}

func projOrder(o ramm.Order, fills int, pool, old bool) resOrder {
	return resOrder{dir: o.GetDirection(), price: o.GetPrice(), amt: o.GetAmount().BigInt(), offer: o.GetOfferCoinAmount().BigInt(),
		paid: o.GetPaidOfferCoinAmount().BigInt(), recv: o.GetReceivedDemandCoinAmount().BigInt(), open: o.GetOpenAmount().BigInt(),
		fills: fills, pool: pool, old: old}
}

const priceLimitRatioStr = "0.1"

// runAmm: the amm package alone, with the keeper's Match glue mirrored so that pool orders are counting orders too.
func runAmm(b book) result {
	users := b.userOrders()
	r := result{mode: "amm", tp: b.TP, poolKind: b.Pool.Kind, diff: new(big.Int)}
	ob := ramm.NewOrderBook()
	for _, u := range users {
		ob.AddOrder(u)
	}
	pool := b.ammPool()
	ord := &cOrderer{}
	func() {
		defer func() {
			if x := recover(); x != nil {
				r.panicked, r.panicS = true, fmt.Sprint(x)
			}
		}()
		var diff sdkmath.Int
		if b.Last == nil {
			ov := ramm.MultipleOrderViews{ob.MakeView()}
			if pool != nil {
				ov = append(ov, pool)
			}
			mp, found := ramm.FindMatchPrice(ov, b.TP)
			if !found {
				return
			}
			r.mp = mp
			if pool != nil {
				if a := pool.BuyAmountOver(mp, true); a.IsPositive() {
					ob.AddOrder(ord.Order(ramm.Buy, mp, a))
				}
				if a := pool.SellAmountUnder(mp, true); a.IsPositive() {
					ob.AddOrder(ord.Order(ramm.Sell, mp, a))
				}
			}
			diff, r.matched = ob.MatchAtSinglePrice(mp)
		} else {
			last := decOf(b.Last, b.PD)
			r.hasLast, r.last = true, last
			lo, hi := ltypes.PriceLimits(last, sdkmath.LegacyMustNewDecFromStr(priceLimitRatioStr), b.TP)
			if pool != nil {
				ob.AddOrder(ramm.PoolOrders(pool, ord, lo, hi, b.TP)...)
			}
			r.mp, diff, r.matched = ob.Match(last)
		}
		if r.matched {
			r.diff = diff.BigInt()
		}
	}()
	for i, u := range users {
		old := false
		if i < len(b.Buys) {
			old = b.Buys[i].Old
		} else {
			old = b.Sells[i-len(b.Buys)].Old
		}
		r.orders = append(r.orders, projOrder(u, u.fills, false, old))
	}
	for _, p := range ord.made {
		r.orders = append(r.orders, projOrder(p, p.fills, true, false))
	}
	return r
}

// runKMatch: the real keeper glue Keeper.Match (FindMatchPrice + pool orders at the match price + MatchAtSinglePrice,
// or PriceLimits + PoolOrders + OrderBook.Match). User orders are counting orders; pool orders are the keeper's own
// types.PoolOrder, whose individual fills cannot be observed (fills = -1).
func runKMatch(e *sim.Env, b book) result {
	users := b.userOrders()
	r := result{mode: "kmatch", tp: b.TP, poolKind: b.Pool.Kind, diff: new(big.Int)}
	ob := ramm.NewOrderBook()
	for _, u := range users {
		ob.AddOrder(u)
	}
	var pools []*ltypes.PoolOrderer
	if p := b.ammPool(); p != nil {
		pools = append(pools, ltypes.NewPoolOrderer(p, 1, sim.Addr("reserve"), "ubase", "uquote"))
	}
	params := ltypes.GenericParams{TickPrecision: uint64(b.TP), MaxPriceLimitRatio: sdkmath.LegacyMustNewDecFromStr(priceLimitRatioStr)}
	var lastP *sdkmath.LegacyDec
	if b.Last != nil {
		l := decOf(b.Last, b.PD)
		lastP = &l
		r.hasLast, r.last = true, l
	}
	func() {
		defer func() {
			if x := recover(); x != nil {
				r.panicked, r.panicS = true, fmt.Sprint(x)
			}
		}()
		mp, diff, matched := e.App.LiquidityKeeper.Match(e.Ctx, params, ob, pools, lastP)
		r.matched = matched
		if !mp.IsNil() {
			r.mp = mp
		}
		if matched {
			r.diff = diff.BigInt()
		}
	}()
	seen := map[ramm.Order]bool{}
	for i, u := range users {
		old := false
		if i < len(b.Buys) {
			old = b.Buys[i].Old
		} else {
			old = b.Sells[i-len(b.Buys)].Old
		}
		seen[u] = true
		r.orders = append(r.orders, projOrder(u, u.fills, false, old))
	}
	for _, o := range ob.Orders() {
		if !seen[o] {
			r.orders = append(r.orders, projOrder(o, -1, true, false))
		}
	}
	return r
}

// ---------------------------------------------------------------------------------------------------
// projection of a result onto the variables of Match.tla (ints in small mode, limbs in big mode)
// ---------------------------------------------------------------------------------------------------

func pow10(k int) *big.Int { return new(big.Int).Exp(big.NewInt(10), big.NewInt(int64(k)), nil) }

// minimal k such that every price is an integer multiple of 10^-k
func priceScale(ps []sdkmath.LegacyDec) int {
	k := 0
	for _, p := range ps {
		if p.IsNil() {
			continue
		}
		raw := p.BigInt()
		for k < 18 && new(big.Int).Mod(raw, pow10(18-k)).Sign() != 0 {
			k++
		}
	}
	return k
}

func numOf(x *big.Int, bigMode bool) interface{} {
	if bigMode {
		return sim.Limbs(x)
	}
	return x.Int64()
}

func (r result) node() map[string]interface{} {
	prices := []sdkmath.LegacyDec{r.mp, r.last}
	for _, o := range r.orders {
		prices = append(prices, o.price)
	}
	k := priceScale(prices)
	pd := pow10(k)
	scaled := func(p sdkmath.LegacyDec) *big.Int {
		if p.IsNil() {
			return new(big.Int)
		}
		return new(big.Int).Quo(p.BigInt(), pow10(18-k))
	}
	// representation: small iff every product formed by the law formulas stays far below 2^31
	maxV := new(big.Int).Set(pd)
	upd := func(x *big.Int) {
		if x.CmpAbs(maxV) > 0 {
			maxV = new(big.Int).Abs(x)
		}
	}
	maxP := new(big.Int).Set(pd)
	for _, p := range prices {
		if s := scaled(p); s.Cmp(maxP) > 0 {
			maxP = s
		}
	}
	for _, o := range r.orders {
		upd(o.amt)
		upd(o.offer)
		upd(o.paid)
		upd(o.recv)
	}
	upd(r.diff)
	bound := new(big.Int).Mul(maxV, maxP)
	bound.Mul(bound, big.NewInt(int64(len(r.orders)+2)))
	bigMode := bound.Cmp(big.NewInt(1<<30)) >= 0
	N := func(x *big.Int) interface{} { return numOf(x, bigMode) }

	sumBuyRecv, sumSellPaid := new(big.Int), new(big.Int)
	allFills := true
	orders := make([]interface{}, 0, len(r.orders))
	for _, o := range r.orders {
		d := "b"
		if o.dir == ramm.Sell {
			d = "s"
			sumSellPaid.Add(sumSellPaid, o.paid)
		} else {
			sumBuyRecv.Add(sumBuyRecv, o.recv)
		}
		if o.fills < 0 {
			allFills = false
		}
		neg := o.paid.Sign() < 0 || o.recv.Sign() < 0 || o.open.Sign() < 0 || o.offer.Sign() < 0
		ab := func(x *big.Int) *big.Int { return new(big.Int).Abs(x) }
		orders = append(orders, map[string]interface{}{"d": d, "pn": N(scaled(o.price)), "amt": N(o.amt), "offer": N(ab(o.offer)),
			"paid": N(ab(o.paid)), "recv": N(ab(o.recv)), "open": N(ab(o.open)), "fills": o.fills, "pool": o.pool, "old": o.old, "neg": neg})
	}
	// discriminating observations for known-finding keys (plain arithmetic on the recorded values, no verdict):
	// which side got more base coin, and whether that excess is rounding-sized: worth less than one smallest quote
	// unit per matched buy order even at the lowest sell price of the book.
	excess := new(big.Int).Sub(sumBuyRecv, sumSellPaid)
	side := "none"
	if excess.Sign() > 0 {
		side = "buyersGotMore"
	} else if excess.Sign() < 0 {
		side = "sellersPaidMore"
	}
	roundingSized := false
	if excess.Sign() != 0 {
		var lowSell sdkmath.LegacyDec
		matchedBuys := int64(0)
		for _, o := range r.orders {
			if o.dir == ramm.Sell && (lowSell.IsNil() || o.price.LT(lowSell)) {
				lowSell = o.price
			}
			if o.dir == ramm.Buy && o.open.Cmp(o.amt) < 0 {
				matchedBuys++
			}
		}
		if !lowSell.IsNil() {
			roundingSized = lowSell.MulInt(sdkmath.NewIntFromBigInt(new(big.Int).Abs(excess))).LT(sdkmath.LegacyNewDec(matchedBuys))
		}
	}
	st := map[string]interface{}{
		"big": bigMode, "mode": r.mode, "tp": r.tp, "pd": N(pd), "hasLast": r.hasLast, "last": N(scaled(r.last)),
		"matched": r.matched, "hasMp": !r.mp.IsNil(), "mp": N(scaled(r.mp)), "diff": N(new(big.Int).Abs(r.diff)), "diffNeg": r.diff.Sign() < 0,
		"panic": r.panicked, "panicS": r.panicS,
		"orders": orders, "allFills": allFills, "pool": r.poolKind,
		"appId": 0, "pairId": 0, "poolIds": []interface{}{}, "foreignAttempts": 0, "foreignAccepted": 0,
		"excessSide": side, "excessRoundingSized": roundingSized,
	}
	for kx, v := range r.extra {
		st[kx] = v
	}
	return st
}

func (b book) args() map[string]interface{} {
	enc := func(xs []bOrder) []interface{} {
		out := []interface{}{}
		for _, x := range xs {
			out = append(out, map[string]interface{}{"p": x.P.String(), "a": x.A.String(), "age": x.Age})
		}
		return out
	}
	last := "none"
	if b.Last != nil {
		last = b.Last.String()
	}
	a := map[string]interface{}{"tp": b.TP, "pd": b.PD.String(), "last": last, "buys": enc(b.Buys), "sells": enc(b.Sells), "pool": b.Pool.Kind}
	if b.Pool.Kind != "none" {
		a["rx"], a["ry"] = b.Pool.Rx.String(), b.Pool.Ry.String()
		if b.Pool.Kind == "ranged" {
			a["mn"], a["mx"] = b.Pool.Mn.String(), b.Pool.Mx.String()
		}
	}
	return a
}

// ---------------------------------------------------------------------------------------------------
// seeded random books: more orders, wider ticks, amounts from units to 10^30, mixed batch ages
// ---------------------------------------------------------------------------------------------------

func randBook(rng *sim.Rng) book {
	tp := 1 + rng.Intn(3)
	b := book{TP: tp, Pool: bPool{Kind: "none", Rx: new(big.Int), Ry: new(big.Int), Mn: new(big.Int), Mx: new(big.Int)}}
	// centre price: sub-unit prices are where quote values truncate to zero
	centres := []string{"0.5", "0.9", "0.33", "1", "1.5", "2", "7", "0.07", "12"}
	centre := sdkmath.LegacyMustNewDecFromStr(centres[rng.Intn(len(centres))])
	ci := ramm.TickToIndex(ramm.PriceToDownTick(centre, tp), tp)
	spread := 1 + rng.Intn(6)
	tick := func() sdkmath.LegacyDec { return ramm.TickFromIndex(ci-spread+rng.Intn(2*spread+1), tp) }
	scale := rng.Intn(10)
	amount := func() *big.Int {
		switch {
		case scale < 4:
			return big.NewInt(int64(1 + rng.Intn(12)))
		case scale < 6:
			return big.NewInt(int64(1 + rng.Intn(400)))
		case scale < 8:
			return big.NewInt(int64(100 + rng.Intn(3000000)))
		default:
			x := new(big.Int).Rand(rng.Rand, pow10(6+rng.Intn(25)))
			return x.Add(x, big.NewInt(1))
		}
	}
	nb, ns := 1+rng.Intn(6), 1+rng.Intn(6)
	if rng.Intn(5) == 0 {
		nb, ns = 1+rng.Intn(15), 1+rng.Intn(15)
	}
	var ps []sdkmath.LegacyDec
	var bp, sp []sdkmath.LegacyDec
	for i := 0; i < nb; i++ {
		bp = append(bp, tick())
	}
	for i := 0; i < ns; i++ {
		sp = append(sp, tick())
	}
	ps = append(append(ps, bp...), sp...)
	var last sdkmath.LegacyDec
	if rng.Intn(2) == 0 {
		last = tick()
		ps = append(ps, last)
	}
	var mn, mx sdkmath.LegacyDec
	pk := rng.Intn(6)
	if pk == 4 || pk == 5 {
		mn = ramm.TickFromIndex(ci-spread-3-rng.Intn(30), tp)
		mx = ramm.TickFromIndex(ci+spread+3+rng.Intn(30), tp)
		ps = append(ps, mn, mx)
	}
	k := priceScale(ps)
	b.PD = pow10(k)
	sc := func(p sdkmath.LegacyDec) *big.Int { return new(big.Int).Quo(p.BigInt(), pow10(18-k)) }
	for _, p := range bp {
		b.Buys = append(b.Buys, bOrder{P: sc(p), A: amount(), Age: uint64(1 + rng.Intn(3))})
	}
	for _, p := range sp {
		b.Sells = append(b.Sells, bOrder{P: sc(p), A: amount(), Age: uint64(1 + rng.Intn(3))})
	}
	for i := range b.Buys {
		b.Buys[i].Old = b.Buys[i].Age < 3
	}
	for i := range b.Sells {
		b.Sells[i].Old = b.Sells[i].Age < 3
	}
	if !last.IsNil() {
		b.Last = sc(last)
	}
	if pk >= 3 {
		// reserves around the centre price, sized relative to the order amounts
		ry := amount()
		ry.Mul(ry, big.NewInt(int64(5+rng.Intn(40))))
		if ry.Cmp(big.NewInt(1000)) < 0 {
			ry = big.NewInt(int64(1000 + rng.Intn(9000)))
		}
		rx := centre.Mul(sdkmath.LegacyNewDec(int64(80 + rng.Intn(40)))).QuoInt64(100).MulInt(sdkmath.NewIntFromBigInt(ry)).TruncateInt().BigInt()
		if rx.Sign() == 0 {
			rx = big.NewInt(1)
		}
		b.Pool = bPool{Kind: "basic", Rx: rx, Ry: ry, Mn: new(big.Int), Mx: new(big.Int)}
		if pk >= 4 {
			b.Pool.Kind, b.Pool.Mn, b.Pool.Mx = "ranged", sc(mn), sc(mx)
		}
	}
	return b
}

// ---------------------------------------------------------------------------------------------------

func matchMain(args []string) int {
	fs := flag.NewFlagSet("amm match", flag.ExitOnError)
	vectors := fs.String("vectors", "", "file with TLC-generated books (T lines)")
	out := fs.String("out", "match.ndjson", "output log")
	seed := fs.Int64("seed", 1, "seed")
	nrand := fs.Int("books", 2000, "seeded random books")
	nk := fs.Int("kfull", 40, "keeper-level scenarios (real limit orders + EndBlocker)")
	fs.Parse(args)

	lg := &sim.Log{}
	e0 := sim.New(nil)
	nvec := 0
	add := func(run string, b book) {
		hasPool := b.Pool.Kind != "none"
		if hasPool {
			lg.Add(0, run, "Match", b.args(), nil, runAmm(b).node())
		}
		lg.Add(0, run, "Match", b.args(), nil, runKMatch(e0, b).node())
	}
	if *vectors != "" {
		f, err := os.Open(*vectors)
		if err != nil {
			fmt.Fprintln(os.Stderr, err)
			return 2
		}
		sc := bufio.NewScanner(f)
		sc.Buffer(make([]byte, 1<<20), 1<<26)
		for sc.Scan() {
			js := sim.TLCJSON(sc.Text())
			if js == "" {
				continue
			}
			var v vecBook
			if err := json.Unmarshal([]byte(js), &v); err != nil {
				fmt.Fprintln(os.Stderr, "bad vector:", err, sc.Text())
				return 2
			}
			nvec++
			add("vec", v.book())
		}
		f.Close()
	}
	rng := sim.NewRng(*seed)
	for i := 0; i < *nrand; i++ {
		add(fmt.Sprintf("rnd:%d", *seed), randBook(rng))
	}
	nkf := 0
	if *nk > 0 {
		nkf = keeperMatch(lg, *seed, *nk)
	}
	if err := lg.Write(*out); err != nil {
		fmt.Fprintln(os.Stderr, err)
		return 2
	}
	fmt.Printf("amm match: vectors=%d random=%d kfull=%d nodes=%d\n", nvec, *nrand, nkf, len(lg.Nodes))
	return 0
}
