package amm

func sharesMain(args []string) int { return 0 }
