package amm

import (
	"bufio"
	"encoding/json"
	"flag"
	"fmt"
	"math/big"
	"os"
	"time"

	sdkmath "cosmossdk.io/math"
	sdk "github.com/cosmos/cosmos-sdk/types"

	ramm "github.com/comdex-official/comdex/x/liquidity/amm"
	ltypes "github.com/comdex-official/comdex/x/liquidity/types"

	"vh/sim"
)

// step is the projection of one deposit / withdrawal / ranged-pool step onto the variables of ShareLaws.tla.
type step struct {
	op, level, kind              string // deposit | withdraw | create | swap ; amm | keeper ; basic | ranged
	rx, ry, ps, rx2, ry2, ps2    *big.Int
	inX, inY, ax, ay, pc         *big.Int // deposit / create: offered, accepted, minted ; withdraw: pc = burned
	reqPc, outX, outY            *big.Int // withdraw: requested shares, returned coins
	fee                          sdkmath.LegacyDec
	fAx, fAy, fPc, fOutX, fOutY  *big.Int // keeper level: what the amm function returns for the pre-state
	uX, uY, uPc                  *big.Int // keeper level: the user's own net balance movements
	hasPrice                     bool
	price, mn, mx                sdkmath.LegacyDec
	panicked                     bool
	panicS                       string
	status                       string
	offTicks                     bool // create: some price of the triple is not on a tick (not admissible at keeper level)
	appID, pairID, poolID        uint64 // keeper level: the ids involved (0 at amm level)
	accepted                     bool   // keeper level: the message was accepted (a rejected one must change nothing)
	foreign                      string // none | otherApp | otherPool | notInPair : the request named a coin that is not the pool's
	foreignBurned                *big.Int
}

func z() *big.Int { return new(big.Int) }

func newStep(op, level, kind string) *step {
	return &step{op: op, level: level, kind: kind, rx: z(), ry: z(), ps: z(), rx2: z(), ry2: z(), ps2: z(), inX: z(), inY: z(), ax: z(), ay: z(),
		pc: z(), reqPc: z(), outX: z(), outY: z(), fee: sdkmath.LegacyZeroDec(), fAx: z(), fAy: z(), fPc: z(), fOutX: z(), fOutY: z(),
		uX: z(), uY: z(), uPc: z(), price: sdkmath.LegacyZeroDec(), mn: sdkmath.LegacyZeroDec(), mx: sdkmath.LegacyZeroDec(),
		accepted: true, foreign: "none", foreignBurned: z()}
}

func (s *step) node() map[string]interface{} {
	all := []*big.Int{s.rx, s.ry, s.ps, s.rx2, s.ry2, s.ps2, s.inX, s.inY, s.ax, s.ay, s.pc, s.reqPc, s.outX, s.outY, s.fAx, s.fAy, s.fPc, s.fOutX, s.fOutY, s.uX, s.uY, s.uPc}
	maxV := big.NewInt(1)
	neg := false
	for _, v := range all {
		if v.Sign() < 0 {
			neg = true
		}
		if v.CmpAbs(maxV) > 0 {
			maxV = new(big.Int).Abs(v)
		}
	}
	// fee as a rational feeN/feeD: thousandths when possible (small mode), else 10^-18 units
	feeRaw := s.fee.BigInt()
	feeMilli := int64(-1)
	feeD, feeK := big.NewInt(1000), big.NewInt(1000)
	if new(big.Int).Mod(feeRaw, pow10(15)).Sign() == 0 {
		feeMilli = new(big.Int).Quo(feeRaw, pow10(15)).Int64()
		feeK = big.NewInt(1000 - feeMilli)
	} else {
		feeD = pow10(18)
		feeK = new(big.Int).Sub(pow10(18), feeRaw)
	}
	bound := new(big.Int).Mul(maxV, maxV)
	bound.Mul(bound, feeD)
	bigMode := bound.Cmp(big.NewInt(1<<30)) >= 0 || neg
	N := func(x *big.Int) interface{} { return numOf(new(big.Int).Abs(x), bigMode) }
	// how far the reported price lies outside [min, max], as a class (discriminating observation for known-finding keys):
	// "rounding" = by less than 10^-4 of the bound or by less than 10^-15 absolute (1000 units of the last stored decimal
	// place: prices near the lowest admissible 10^-15 have only a few significant digits), "large" = more
	miss := "none"
	if s.hasPrice {
		var d, ref sdkmath.LegacyDec
		if s.price.LT(s.mn) {
			d, ref = s.mn.Sub(s.price), s.mn
		} else if s.price.GT(s.mx) {
			d, ref = s.price.Sub(s.mx), s.mx
		}
		if !d.IsNil() {
			miss = "large"
			if d.MulInt64(10000).LT(ref) || d.LT(sdkmath.LegacyNewDecWithPrec(1, 15)) {
				miss = "rounding"
			}
		}
	}
	return map[string]interface{}{
		"rangeMiss": miss, "offTicks": s.offTicks,
		"appId": s.appID, "pairId": s.pairID, "poolId": s.poolID, "accepted": s.accepted, "foreign": s.foreign, "foreignBurned": s.foreignBurned.String(),
		"big": bigMode, "op": s.op, "level": s.level, "kind": s.kind, "neg": neg,
		"rx": N(s.rx), "ry": N(s.ry), "ps": N(s.ps), "rx2": N(s.rx2), "ry2": N(s.ry2), "ps2": N(s.ps2),
		"inX": N(s.inX), "inY": N(s.inY), "ax": N(s.ax), "ay": N(s.ay), "pc": N(s.pc),
		"reqPc": N(s.reqPc), "outX": N(s.outX), "outY": N(s.outY), "feeD": N(feeD), "feeK": N(feeK), "feeMilli": feeMilli,
		"fAx": N(s.fAx), "fAy": N(s.fAy), "fPc": N(s.fPc), "fOutX": N(s.fOutX), "fOutY": N(s.fOutY),
		"uX": N(s.uX), "uY": N(s.uY), "uPc": N(s.uPc),
		"hasPrice": s.hasPrice, "price": sim.Limbs(s.price.BigInt()), "mn": sim.Limbs(s.mn.BigInt()), "mx": sim.Limbs(s.mx.BigInt()),
		"priceS": s.price.String(), "panic": s.panicked, "panicS": s.panicS, "status": s.status,
	}
}

func I(x *big.Int) sdkmath.Int { return sdkmath.NewIntFromBigInt(x) }

// capOrderer places orders like the default orderer and panics once a single generator call has placed more than max orders.
type capOrderer struct {
	n, max int
	cut    bool
}

func (c *capOrderer) Order(dir ramm.OrderDirection, price sdkmath.LegacyDec, amt sdkmath.Int) ramm.Order {
	c.n++
	if c.n > c.max {
		c.cut = true
		panic("pool-order generator does not make progress")
	}
	return ramm.DefaultOrderer.Order(dir, price, amt)
}

func guard(s *step, f func()) {
	defer func() {
		if x := recover(); x != nil {
			s.panicked, s.panicS = true, fmt.Sprint(x)
		}
	}()
	f()
}

// rangedPrice: price of the ranged pool holding (rx, ry), as the keeper sees it in the next batch (fresh translation).
func rangedPrice(s *step, rx, ry *big.Int, mn, mx sdkmath.LegacyDec) {
	s.mn, s.mx = mn, mx
	if rx.Sign() == 0 && ry.Sign() == 0 {
		return
	}
	guard(s, func() {
		p := ramm.NewRangedPool(I(rx), I(ry), sdkmath.NewInt(1), mn, mx)
		s.price = p.Price()
		s.hasPrice = true
	})
}

// ---- amm level ------------------------------------------------------------------------------------

func ammDeposit(kind string, rx, ry, ps, x, y *big.Int, mn, mx sdkmath.LegacyDec) *step {
	s := newStep("deposit", "amm", kind)
	s.rx, s.ry, s.ps, s.inX, s.inY = rx, ry, ps, x, y
	guard(s, func() {
		ax, ay, pc := ramm.Deposit(I(rx), I(ry), I(ps), I(x), I(y))
		s.ax, s.ay, s.pc = ax.BigInt(), ay.BigInt(), pc.BigInt()
	})
	s.rx2, s.ry2, s.ps2 = new(big.Int).Add(rx, s.ax), new(big.Int).Add(ry, s.ay), new(big.Int).Add(ps, s.pc)
	if kind == "ranged" && !s.panicked {
		rangedPrice(s, s.rx2, s.ry2, mn, mx)
	}
	return s
}

func ammWithdraw(kind string, rx, ry, ps, pc *big.Int, fee sdkmath.LegacyDec, mn, mx sdkmath.LegacyDec) *step {
	s := newStep("withdraw", "amm", kind)
	s.rx, s.ry, s.ps, s.reqPc, s.pc, s.fee = rx, ry, ps, pc, pc, fee
	guard(s, func() {
		x, y := ramm.Withdraw(I(rx), I(ry), I(ps), I(pc), fee)
		s.outX, s.outY = x.BigInt(), y.BigInt()
	})
	s.rx2, s.ry2, s.ps2 = new(big.Int).Sub(rx, s.outX), new(big.Int).Sub(ry, s.outY), new(big.Int).Sub(ps, pc)
	if kind == "ranged" && !s.panicked {
		rangedPrice(s, s.rx2, s.ry2, mn, mx)
	}
	return s
}

// ---- keeper level ----------------------------------------------------------------------------------

// sharesFix: the skewed-id fixture (keeper.go) plus the pools under test, all in pair 3 of app 2:
//
//	pool 1 ranged [0.5, 2], pool 2 ranged [0.5, 2], pool 3 basic   (pool id != pair id for the ranged pools; pairs 1 and 2
//	of the app exist and each shares exactly one coin with pair 3)
//
// and the foreign app 1 with pools 1 (basic), 2, 3 (ranged) in its own ubase/uquote pair, created by the attacker,
// who therefore holds share coins "of pool k" for every pool id k under test.
// Two enabled pools of one pair with different prices trade against each other at the end of a batch, which would blur
// the observation of a single deposit / withdrawal: a driver works on ONE pool and disables the others (only) in its branch.
type sharesFix struct {
	*kfix
	pools  []ltypes.Pool // index 0, 1: ranged; 2: basic
	others []ltypes.Pool // the foreign app's pools, same ids
	mn, mx sdkmath.LegacyDec
}

func newSharesFix(base *kfix) *sharesFix {
	dec := sdkmath.LegacyMustNewDecFromStr
	sf := &sharesFix{kfix: base.branch(), mn: dec("0.5"), mx: dec("2")}
	two := big.NewInt(2000000)
	add := func(p ltypes.Pool, r sim.Result, to *[]ltypes.Pool) {
		if !r.OK {
			panic("create pool: " + r.Err)
		}
		*to = append(*to, p)
	}
	for i := 0; i < 2; i++ {
		p, r := sf.createRanged(0, two, two, sf.mn, sf.mx, dec("1"))
		add(p, r, &sf.pools)
	}
	p, r := sf.createPool(0, two, two)
	add(p, r, &sf.pools)
	p, r = sf.createPoolIn(sf.otherApp, sf.otherPair, attacker, two, two)
	add(p, r, &sf.others)
	for i := 0; i < 2; i++ {
		p, r = sf.createRangedIn(sf.otherApp, sf.otherPair, attacker, two, two, sf.mn, sf.mx, dec("1"))
		add(p, r, &sf.others)
	}
	for i := range sf.pools {
		if sf.pools[i].Id != uint64(i+1) || sf.others[i].Id != uint64(i+1) || sf.pools[i].PairId != sf.pair.Id {
			panic("fixture pool ids not as designed")
		}
	}
	return sf
}

func (f *sharesFix) br() *sharesFix {
	n := *f
	n.kfix = f.kfix.branch()
	return &n
}

// only: disables every pool of the pair under test except the one with index keep (in this branch).
func (f *sharesFix) only(keep int) ltypes.Pool {
	for i, p := range f.pools {
		if i != keep {
			f.e.App.LiquidityKeeper.MarkPoolAsDisabled(f.e.Ctx, p)
		}
	}
	return f.pools[keep]
}

func (f *kfix) supply(denom string) *big.Int { return f.e.App.BankKeeper.GetSupply(f.e.Ctx, denom).Amount.BigInt() }

// inject sets the pool's reserves and share supply (state injection through the bank keeper; all shares are held by actor 0).
func (f *kfix) inject(pool ltypes.Pool, rx, ry, ps *big.Int) {
	bk := f.e.App.BankKeeper
	res := pool.GetReserveAddress()
	for _, t := range []struct {
		d string
		v *big.Int
	}{{quoteDenom, rx}, {baseDenom, ry}} {
		cur := f.bal(res, t.d)
		switch d := new(big.Int).Sub(t.v, cur); d.Sign() {
		case 1:
			must(bk.SendCoins(f.e.Ctx, f.e.Users[actor(sink)], res, sdk.NewCoins(sdk.NewCoin(t.d, I(d)))))
		case -1:
			must(bk.SendCoins(f.e.Ctx, res, f.e.Users[actor(sink)], sdk.NewCoins(sdk.NewCoin(t.d, I(d.Neg(d))))))
		}
	}
	cur := f.supply(pool.PoolCoinDenom)
	switch d := new(big.Int).Sub(ps, cur); d.Sign() {
	case 1:
		c := sdk.NewCoins(sdk.NewCoin(pool.PoolCoinDenom, I(d)))
		must(bk.MintCoins(f.e.Ctx, ltypes.ModuleName, c))
		must(bk.SendCoinsFromModuleToAccount(f.e.Ctx, ltypes.ModuleName, f.e.Users[actor(0)], c))
	case -1:
		c := sdk.NewCoins(sdk.NewCoin(pool.PoolCoinDenom, I(d.Neg(d))))
		must(bk.SendCoinsFromAccountToModule(f.e.Ctx, f.e.Users[actor(0)], ltypes.ModuleName, c))
		must(bk.BurnCoins(f.e.Ctx, ltypes.ModuleName, c))
	}
}

func kindOf(p ltypes.Pool) string {
	if p.Type == ltypes.PoolTypeRanged {
		return "ranged"
	}
	return "basic"
}

type snap struct{ rx, ry, ps, uX, uY, uPc *big.Int }

// snap: reserves in the pool's OWN pair denoms (as the fixture created them) and the supply of the pool's OWN share
// denom (derived from app id and pool id, not read from any record a handler could have mixed up).
func (f *kfix) snap(p ltypes.Pool, user sdk.AccAddress) snap {
	own := ltypes.PoolCoinDenom(p.AppId, p.Id)
	res := ltypes.PoolReserveAddress(p.AppId, p.Id)
	return snap{f.bal(res, quoteDenom), f.bal(res, baseDenom), f.supply(own), f.bal(user, quoteDenom), f.bal(user, baseDenom), f.bal(user, own)}
}

func (s *step) ids(p ltypes.Pool) {
	s.appID, s.pairID, s.poolID = p.AppId, p.PairId, p.Id
}

func (f *kfix) poolPrice(s *step, p ltypes.Pool) {
	if p.Type != ltypes.PoolTypeRanged {
		return
	}
	s.mn, s.mx = *p.MinPrice, *p.MaxPrice
	if s.rx2.Sign() == 0 && s.ry2.Sign() == 0 || s.ps2.Sign() == 0 {
		return
	}
	guard(s, func() {
		s.price = p.AMMPool(I(s.rx2), I(s.ry2), I(s.ps2)).Price()
		s.hasPrice = true
	})
}

// kDeposit: MsgDeposit from `who`, then the end of the batch; everything observed on real balances.
// extra: additional coins put into the message (adversarial: a coin that is not in the pool's pair).
func (f *kfix) kDeposit(p ltypes.Pool, who int, x, y *big.Int, extra sdk.Coins) (*step, bool) {
	user := f.e.Users[actor(who)]
	coins := sdk.Coins{}
	if x.Sign() > 0 {
		coins = coins.Add(sdk.NewCoin(quoteDenom, I(x)))
	}
	if y.Sign() > 0 {
		coins = coins.Add(sdk.NewCoin(baseDenom, I(y)))
	}
	coins = coins.Add(extra...)
	if coins.Empty() {
		return nil, false
	}
	s := newStep("deposit", "keeper", kindOf(p))
	s.ids(p)
	if !extra.Empty() {
		s.foreign = "notInPair"
	}
	u0 := f.snap(p, user)
	r := f.e.Deliver(ltypes.NewMsgDeposit(p.AppId, user, p.Id, coins))
	s.accepted = r.OK
	pre := f.snap(p, user)
	s.rx, s.ry, s.ps, s.inX, s.inY = pre.rx, pre.ry, pre.ps, x, y
	if r.OK {
		guard(s, func() {
			ax, ay, pc := ramm.Deposit(I(pre.rx), I(pre.ry), I(pre.ps), I(x), I(y))
			s.fAx, s.fAy, s.fPc = ax.BigInt(), ay.BigInt(), pc.BigInt()
		})
	}
	pan, ps := f.endBatch()
	s.panicked, s.panicS = s.panicked || pan, s.panicS+ps
	post := f.snap(p, user)
	s.rx2, s.ry2, s.ps2 = post.rx, post.ry, post.ps
	s.ax, s.ay, s.pc = new(big.Int).Sub(post.rx, pre.rx), new(big.Int).Sub(post.ry, pre.ry), new(big.Int).Sub(post.ps, pre.ps)
	s.uX, s.uY, s.uPc = new(big.Int).Sub(u0.uX, post.uX), new(big.Int).Sub(u0.uY, post.uY), new(big.Int).Sub(post.uPc, u0.uPc)
	if pp, ok := f.e.App.LiquidityKeeper.GetPool(f.e.Ctx, p.AppId, p.Id); ok && pp.Disabled {
		s.status = "disabled"
	}
	f.poolPrice(s, p)
	return s, true
}

// kWithdraw: MsgWithdraw of pc shares from `who`, then the end of the batch.
func (f *kfix) kWithdraw(p ltypes.Pool, who int, pc *big.Int, fee sdkmath.LegacyDec) (*step, bool) {
	return f.kWithdrawCoin(p, who, sdk.NewCoin(ltypes.PoolCoinDenom(p.AppId, p.Id), I(pc)), "none", fee), true
}

// kWithdrawCoin: MsgWithdraw on pool p paid with an arbitrary coin (foreign != "none": the share coin of another pool
// or of the pool with the same id in another app), then the end of the batch. The node is recorded whether or not the
// message is accepted: pc is what was burned of the pool's OWN share coin, outX / outY what left the pool's reserves.
func (f *kfix) kWithdrawCoin(p ltypes.Pool, who int, coin sdk.Coin, foreign string, fee sdkmath.LegacyDec) *step {
	user := f.e.Users[actor(who)]
	s := newStep("withdraw", "keeper", kindOf(p))
	s.ids(p)
	s.foreign = foreign
	u0 := f.snap(p, user)
	fs0 := f.supply(coin.Denom)
	r := f.e.Deliver(ltypes.NewMsgWithdraw(p.AppId, user, p.Id, coin))
	s.accepted = r.OK
	pre := f.snap(p, user)
	pc := coin.Amount.BigInt()
	s.rx, s.ry, s.ps, s.reqPc, s.fee = pre.rx, pre.ry, pre.ps, pc, fee
	if r.OK {
		guard(s, func() {
			x, y := ramm.Withdraw(I(pre.rx), I(pre.ry), I(pre.ps), I(pc), fee)
			s.fOutX, s.fOutY = x.BigInt(), y.BigInt()
		})
	}
	pan, ps := f.endBatch()
	s.panicked, s.panicS = s.panicked || pan, s.panicS+ps
	post := f.snap(p, user)
	s.rx2, s.ry2, s.ps2 = post.rx, post.ry, post.ps
	s.outX, s.outY, s.pc = new(big.Int).Sub(pre.rx, post.rx), new(big.Int).Sub(pre.ry, post.ry), new(big.Int).Sub(pre.ps, post.ps)
	s.uX, s.uY, s.uPc = new(big.Int).Sub(post.uX, u0.uX), new(big.Int).Sub(post.uY, u0.uY), new(big.Int).Sub(u0.uPc, post.uPc)
	if foreign != "none" {
		s.foreignBurned = new(big.Int).Sub(fs0, f.supply(coin.Denom))
	}
	f.poolPrice(s, p)
	return s
}

// ---- vectors ----------------------------------------------------------------------------------------

type shVec struct {
	A   string `json:"a"`
	Pre struct {
		Rx int64 `json:"rx"`
		Ry int64 `json:"ry"`
		Ps int64 `json:"ps"`
	} `json:"pre"`
	Args struct {
		X   int64 `json:"x"`
		Y   int64 `json:"y"`
		Pc  int64 `json:"pc"`
		Fee int64 `json:"fee"`
	} `json:"args"`
}

func randMag(rng *sim.Rng, maxDigits int) *big.Int {
	d := 1 + rng.Intn(maxDigits)
	x := new(big.Int).Rand(rng.Rand, pow10(d))
	return x
}

func randFee(rng *sim.Rng) sdkmath.LegacyDec {
	dec := sdkmath.LegacyMustNewDecFromStr
	switch rng.Intn(7) {
	case 0:
		return dec("0")
	case 1:
		return dec("0.003")
	case 2:
		return dec("0.1")
	case 3:
		return dec("0.000000000000000001")
	case 4:
		return dec("0.999999999999999999")
	case 5:
		return dec("0.5")
	}
	return sdkmath.LegacyNewDecFromBigIntWithPrec(new(big.Int).Rand(rng.Rand, pow10(18)), 18)
}

// random admissible (min, max, initial) triple
func randRange(rng *sim.Rng) (mn, mx, init sdkmath.LegacyDec) {
	one := sdkmath.LegacyOneDec()
	// min price 10^-15 .. 10^6, log-uniform, with random digits
	e := rng.Intn(22) - 15
	mant := sdkmath.LegacyNewDecFromBigIntWithPrec(new(big.Int).Add(pow10(17), new(big.Int).Rand(rng.Rand, new(big.Int).Mul(big.NewInt(9), pow10(17)))), 17) // 1.0 .. 10.0
	mn = mant
	for i := 0; i < e; i++ {
		mn = mn.MulInt64(10)
	}
	for i := 0; i > e; i-- {
		mn = mn.QuoInt64(10)
	}
	if mn.LT(ramm.MinPoolPrice) {
		mn = ramm.MinPoolPrice
	}
	var width sdkmath.LegacyDec
	switch rng.Intn(4) {
	case 0:
		width = sdkmath.LegacyMustNewDecFromStr("0.001") // the narrowest admissible range
	case 1:
		width = sdkmath.LegacyNewDecWithPrec(int64(1+rng.Intn(500)), 3)
	case 2:
		width = sdkmath.LegacyNewDec(int64(1 + rng.Intn(50)))
	default:
		width = sdkmath.LegacyNewDec(int64(1 + rng.Intn(1000000)))
	}
	mx = mn.Mul(one.Add(width))
	if mx.GT(ramm.MaxPoolPrice) {
		mx = ramm.MaxPoolPrice
	}
	if rng.Intn(5) == 0 { // on ticks (what the keeper accepts)
		mn, mx = ramm.PriceToUpTick(mn, 4), ramm.PriceToDownTick(mx, 4)
	}
	switch rng.Intn(6) {
	case 0:
		init = mn
	case 1:
		init = mx
	case 2:
		init = mn.Add(sdkmath.LegacySmallestDec())
	case 3:
		init = mx.Sub(sdkmath.LegacySmallestDec())
	default:
		span := mx.Sub(mn).BigInt()
		if span.Sign() <= 0 {
			init = mn
		} else {
			init = mn.Add(sdkmath.LegacyNewDecFromBigIntWithPrec(new(big.Int).Rand(rng.Rand, span), 18))
		}
	}
	return
}

func sharesMain(args []string) int {
	fs := flag.NewFlagSet("amm shares", flag.ExitOnError)
	vectors := fs.String("vectors", "", "file with TLC transition lines")
	out := fs.String("out", "shares.ndjson", "output log")
	seed := fs.Int64("seed", 1, "seed")
	nrand := fs.Int("random", 3000, "seeded random amm-level cases (real-size amounts)")
	nranged := fs.Int("ranged", 1500, "seeded random ranged-pool lifecycles")
	nkeeper := fs.Int("keeper", 40, "keeper-level real-size scenarios")
	kevery := fs.Int("kevery", 1, "run every n-th vector also through the keeper")
	fs.Parse(args)

	lg := &sim.Log{}
	dec := sdkmath.LegacyMustNewDecFromStr
	base := newFix()
	sf := newSharesFix(base)
	// small-mode keeper fixtures, one per pool under test and fee of the model (the fee is an app parameter);
	// in each of them the other pools of the pair are disabled
	kf := map[string]*sharesFix{}
	fixFor := func(idx int, feeMilli int64) *sharesFix {
		key := fmt.Sprintf("%d/%d", idx, feeMilli)
		if f, ok := kf[key]; ok {
			return f
		}
		f := sf.br()
		f.only(idx)
		f.setParams([]string{"WithdrawFeeRate"}, []string{sdkmath.LegacyNewDecWithPrec(feeMilli, 3).String()})
		kf[key] = f
		return f
	}
	nforeign := 0
	nvec, nkvec := 0, 0
	if *vectors != "" {
		fh, err := os.Open(*vectors)
		if err != nil {
			fmt.Fprintln(os.Stderr, err)
			return 2
		}
		sc := bufio.NewScanner(fh)
		sc.Buffer(make([]byte, 1<<20), 1<<26)
		for sc.Scan() {
			js := sim.TLCJSON(sc.Text())
			if js == "" {
				continue
			}
			var v shVec
			if err := json.Unmarshal([]byte(js), &v); err != nil {
				fmt.Fprintln(os.Stderr, "bad vector:", err, sc.Text())
				return 2
			}
			nvec++
			rx, ry, ps := big.NewInt(v.Pre.Rx), big.NewInt(v.Pre.Ry), big.NewInt(v.Pre.Ps)
			a := map[string]interface{}{"rx": v.Pre.Rx, "ry": v.Pre.Ry, "ps": v.Pre.Ps, "x": v.Args.X, "y": v.Args.Y, "pc": v.Args.Pc, "feeMilli": v.Args.Fee}
			// the same function serves basic and ranged pools; ranged additionally reports the price after the step
			// (every kevery-th vector also goes through the keeper: of those, two in three on the ranged pools 1 / 2, one on the basic pool 3)
			slot := nvec
			if *kevery > 1 {
				slot = nvec / *kevery
			}
			kind := "ranged"
			if slot%3 == 2 && v.Pre.Rx > 0 && v.Pre.Ry > 0 {
				kind = "basic"
			}
			fee := sdkmath.LegacyNewDecWithPrec(v.Args.Fee, 3)
			switch v.A {
			case "Deposit":
				lg.Add(0, "vec", "Deposit", a, nil, ammDeposit(kind, rx, ry, ps, big.NewInt(v.Args.X), big.NewInt(v.Args.Y), sf.mn, sf.mx).node())
			case "Withdraw":
				lg.Add(0, "vec", "Withdraw", a, nil, ammWithdraw(kind, rx, ry, ps, big.NewInt(v.Args.Pc), fee, sf.mn, sf.mx).node())
			}
			if *kevery > 0 && nvec%*kevery == 0 {
				// pool under test: ranged pools 1 and 2 alternate (pool id != pair id), the basic pool is pool 3
				idx := 2
				if kind == "ranged" {
					idx = (slot / 3) % 2
				}
				f := fixFor(idx, v.Args.Fee).br()
				pool := f.pools[idx]
				f.inject(pool, rx, ry, ps)
				var s *step
				var ok bool
				if v.A == "Deposit" {
					s, ok = f.kDeposit(pool, 5, big.NewInt(v.Args.X), big.NewInt(v.Args.Y), nil)
				} else {
					s, ok = f.kWithdraw(pool, 0, big.NewInt(v.Args.Pc), fee)
				}
				if ok {
					nkvec++
					lg.Add(0, "kvec", "K"+v.A, a, nil, s.node())
				}
				// adversarial twin of every 8th keeper vector: the same request naming a coin that is not the pool's
				if nkvec%8 == 0 {
					g := fixFor(idx, v.Args.Fee).br()
					g.inject(pool, rx, ry, ps)
					var t *step
					if v.A == "Withdraw" {
						if nkvec%16 == 0 { // the share coin of the pool with the same id in the foreign app (held by the attacker)
							t = g.kWithdrawCoin(pool, attacker, sdk.NewCoin(ltypes.PoolCoinDenom(g.otherApp, pool.Id), I(big.NewInt(v.Args.Pc))), "otherApp", fee)
						} else { // the share coin of another pool of the same app (actor 0 created all of them)
							t = g.kWithdrawCoin(pool, 0, sdk.NewCoin(ltypes.PoolCoinDenom(g.appID, g.pools[(idx+1)%3].Id), I(big.NewInt(v.Args.Pc))), "otherPool", fee)
						}
					} else {
						t, _ = g.kDeposit(pool, 5, big.NewInt(v.Args.X), big.NewInt(v.Args.Y), sdk.NewCoins(sdk.NewCoin(thirdDenom, sdkmath.NewInt(3))))
					}
					if t != nil {
						nforeign++
						lg.Add(0, "kvec", "K"+v.A+"Foreign", a, nil, t.node())
					}
				}
			}
		}
		fh.Close()
	}

	rng := sim.NewRng(*seed)
	// ---- real-size amm-level cases --------------------------------------------------------------------
	for i := 0; i < *nrand; i++ {
		run := fmt.Sprintf("rnd:%d", *seed)
		md := []int{6, 12, 20, 30, 40}[rng.Intn(5)]
		rx, ry, ps := randMag(rng, md), randMag(rng, md), randMag(rng, md)
		ps.Add(ps, big.NewInt(1))
		switch rng.Intn(12) {
		case 0:
			rx = z()
		case 1:
			ry = z()
		}
		if rx.Sign() == 0 && ry.Sign() == 0 {
			rx = big.NewInt(1)
		}
		kind := "basic"
		mn, mx := sf.mn, sf.mx
		if rng.Intn(3) == 0 || rx.Sign() == 0 || ry.Sign() == 0 {
			kind = "ranged"
			mn, mx, _ = randRange(rng)
		}
		a := map[string]interface{}{"rx": rx.String(), "ry": ry.String(), "ps": ps.String(), "kind": kind}
		if rng.Intn(2) == 0 {
			x, y := randMag(rng, md), randMag(rng, md)
			if rng.Intn(3) == 0 && rx.Sign() > 0 && ry.Sign() > 0 { // near-proportional offers: both sides bind
				x = new(big.Int).Quo(new(big.Int).Mul(rx, big.NewInt(int64(1+rng.Intn(1000)))), big.NewInt(1000))
				y = new(big.Int).Quo(new(big.Int).Mul(ry, big.NewInt(int64(1+rng.Intn(1000)))), big.NewInt(1000))
			}
			a["x"], a["y"] = x.String(), y.String()
			lg.Add(0, run, "Deposit", a, nil, ammDeposit(kind, rx, ry, ps, x, y, mn, mx).node())
		} else {
			pc := new(big.Int).Rand(rng.Rand, ps)
			pc.Add(pc, big.NewInt(1))
			switch rng.Intn(8) {
			case 0:
				pc = new(big.Int).Set(ps)
			case 1:
				pc = new(big.Int).Sub(ps, big.NewInt(1))
				if pc.Sign() == 0 {
					pc = big.NewInt(1)
				}
			case 2:
				pc = big.NewInt(1)
			}
			fee := randFee(rng)
			a["pc"], a["fee"] = pc.String(), fee.String()
			lg.Add(0, run, "Withdraw", a, nil, ammWithdraw(kind, rx, ry, ps, pc, fee, mn, mx).node())
		}
	}

	// ---- ranged pool lifecycles: creation, deposit, withdrawal, swaps against the pool's own orders ---
	ncreate := 0
	for i := 0; i < *nranged; i++ {
		run := fmt.Sprintf("ranged:%d:%d", *seed, i)
		mn, mx, init := randRange(rng)
		md := []int{7, 9, 14, 24, 38}[rng.Intn(5)]
		x, y := randMag(rng, md), randMag(rng, md)
		x.Add(x, big.NewInt(1))
		y.Add(y, big.NewInt(1))
		s := newStep("create", "amm", "ranged")
		s.inX, s.inY = x, y
		s.mn, s.mx = mn, mx
		for _, p := range []sdkmath.LegacyDec{mn, mx, init} {
			if !ramm.PriceToDownTick(p, 4).Equal(p) {
				s.offTicks = true
			}
		}
		var pool *ramm.RangedPool
		var err error
		guard(s, func() { pool, err = ramm.CreateRangedPool(I(x), I(y), mn, mx, init) })
		a := map[string]interface{}{"x": x.String(), "y": y.String(), "min": mn.String(), "max": mx.String(), "init": init.String()}
		if err != nil || s.panicked && pool == nil {
			if s.panicked {
				lg.Add(0, run, "CreateRanged", a, nil, s.node())
			}
			continue
		}
		ncreate++
		ax, ay := pool.Balances()
		s.ax, s.ay, s.pc = ax.BigInt(), ay.BigInt(), pool.PoolCoinSupply().BigInt()
		s.rx2, s.ry2, s.ps2 = s.ax, s.ay, s.pc
		rangedPrice(s, s.rx2, s.ry2, mn, mx)
		parent := lg.Add(0, run, "CreateRanged", a, nil, s.node())
		rx, ry, ps := s.rx2, s.ry2, s.ps2
		for k := 0; k < 3; k++ {
			switch rng.Intn(3) {
			case 0:
				dx, dy := randMag(rng, md), randMag(rng, md)
				d := ammDeposit("ranged", rx, ry, ps, dx, dy, mn, mx)
				parent = lg.Add(parent, run, "Deposit", map[string]interface{}{"x": dx.String(), "y": dy.String()}, nil, d.node())
				if !d.panicked {
					rx, ry, ps = d.rx2, d.ry2, d.ps2
				}
			case 1:
				pc := new(big.Int).Rand(rng.Rand, ps)
				pc.Add(pc, big.NewInt(1))
				if pc.Cmp(ps) >= 0 {
					pc = new(big.Int).Sub(ps, big.NewInt(1))
				}
				if pc.Sign() <= 0 {
					continue
				}
				fee := randFee(rng)
				w := ammWithdraw("ranged", rx, ry, ps, pc, fee, mn, mx)
				parent = lg.Add(parent, run, "Withdraw", map[string]interface{}{"pc": pc.String(), "fee": fee.String()}, nil, w.node())
				if !w.panicked {
					rx, ry, ps = w.rx2, w.ry2, w.ps2
				}
			default:
				// swap: the pool's own orders around its price are filled, cheapest first
				sw := newStep("swap", "amm", "ranged")
				sw.rx, sw.ry, sw.ps, sw.ps2 = rx, ry, ps, ps
				nrx, nry := new(big.Int).Set(rx), new(big.Int).Set(ry)
				guard(sw, func() {
					p := ramm.NewRangedPool(I(rx), I(ry), I(ps), mn, mx)
					price := p.Price()
					lo, hi := ltypes.PriceLimits(price, dec("0.1"), 4)
					var orders []ramm.Order
					// the pool-order generators loop until their tick leaves [lo, hi]; a counting orderer bounds the number of orders a single
					// call may place (the generators recover from a panic of the orderer and return nothing), so a call that does not make
					// progress is cut off and reported instead of exhausting memory
					co := &capOrderer{max: 200000}
					sell := rng.Intn(2) == 0
					if sell {
						orders = ramm.PoolSellOrders(p, co, lo, hi, 4)
					} else {
						orders = ramm.PoolBuyOrders(p, co, lo, hi, 4)
					}
					if co.cut {
						fmt.Fprintf(os.Stderr, "amm shares: pool-order generator cut off after %d orders: sell=%v rx=%s ry=%s ps=%s min=%s max=%s price=%s lo=%s hi=%s\n",
							co.n, sell, rx, ry, ps, mn, mx, price, lo, hi)
					}
					if len(orders) == 0 {
						return
					}
					take := 1 + rng.Intn(len(orders))
					for _, o := range orders[:take] {
						if o.GetDirection() == ramm.Sell {
							nrx.Add(nrx, o.GetPrice().MulInt(o.GetAmount()).TruncateInt().BigInt())
							nry.Sub(nry, o.GetAmount().BigInt())
						} else {
							nrx.Sub(nrx, o.GetPrice().MulInt(o.GetAmount()).Ceil().TruncateInt().BigInt())
							nry.Add(nry, o.GetAmount().BigInt())
						}
					}
				})
				if nrx.Sign() < 0 || nry.Sign() < 0 {
					continue
				}
				sw.rx2, sw.ry2 = nrx, nry
				if !sw.panicked {
					rangedPrice(sw, nrx, nry, mn, mx)
				}
				parent = lg.Add(parent, run, "RangedSwap", map[string]interface{}{}, nil, sw.node())
				if !sw.panicked {
					rx, ry = nrx, nry
				}
			}
		}
	}

	// ---- keeper level, real-size: fixture pools in a random state or pools created by messages; deposits, withdrawals
	// and adversarial requests (foreign share coins, coins outside the pair) by several actors -----------------
	nk := 0
	for sidx := 0; sidx < *nkeeper; sidx++ {
		run := fmt.Sprintf("keeper:%d:%d", *seed, sidx)
		fee := []string{"0", "0.003", "0.1"}[rng.Intn(3)]
		feeD := dec(fee)
		var f *kfix
		var g *sharesFix // non-nil when the scenario runs on the fixture pools (the foreign app's pools exist)
		var pool ltypes.Pool
		var r sim.Result
		parent := 0
		holder := 0
		idx := rng.Intn(3)
		if rng.Intn(3) != 0 {
			// a fixture pool (ids: app 2, pair 3, pool 1..3) put into a random real-size state
			g = sf.br()
			pool = g.only(idx)
			f = g.kfix
			f.setParams([]string{"WithdrawFeeRate"}, []string{fee})
			md := []int{7, 12, 20, 30}[rng.Intn(4)]
			irx := new(big.Int).Add(big.NewInt(1000), randMag(rng, md))
			iry := new(big.Int).Add(big.NewInt(1000), randMag(rng, md))
			ips := new(big.Int).Add(big.NewInt(1000), randMag(rng, md))
			f.inject(pool, irx, iry, ips)
		} else {
			// a ranged pool created by message: pool 1 of pair 3
			f = base.branch()
			f.setParams([]string{"WithdrawFeeRate"}, []string{fee})
			holder = 1
			tp := 4
			c := []string{"0.7", "1", "1.3", "0.02", "45"}[rng.Intn(5)]
			ci := ramm.TickToIndex(ramm.PriceToDownTick(dec(c), tp), tp)
			mn := ramm.TickFromIndex(ci-1-rng.Intn(4000), tp)
			mx := ramm.TickFromIndex(ci+20+rng.Intn(4000), tp)
			init := ramm.TickFromIndex(ramm.TickToIndex(mn, tp)+rng.Intn(ramm.TickToIndex(mx, tp)-ramm.TickToIndex(mn, tp)+1), tp)
			x := new(big.Int).Add(big.NewInt(1000000), randMag(rng, 6+rng.Intn(20)))
			y := new(big.Int).Add(big.NewInt(1000000), randMag(rng, 6+rng.Intn(20)))
			q0, b0 := f.bal(f.e.Users[actor(1)], quoteDenom), f.bal(f.e.Users[actor(1)], baseDenom)
			pool, r = f.createRanged(1, x, y, mn, mx, init)
			if !r.OK {
				continue
			}
			s := newStep("create", "keeper", "ranged")
			s.ids(pool)
			s.inX, s.inY = x, y
			sn := f.snap(pool, f.e.Users[actor(1)])
			s.rx2, s.ry2, s.ps2 = sn.rx, sn.ry, sn.ps
			s.ax, s.ay, s.pc = s.rx2, s.ry2, s.ps2
			s.uX, s.uY = new(big.Int).Sub(q0, sn.uX), new(big.Int).Sub(b0, sn.uY)
			f.poolPrice(s, pool)
			parent = lg.Add(0, run, "KCreateRanged", map[string]interface{}{"x": x.String(), "y": y.String(), "min": mn.String(), "max": mx.String(), "init": init.String()}, nil, s.node())
			nk++
		}
		own := ltypes.PoolCoinDenom(pool.AppId, pool.Id)
		holders := []int{holder}
		for k := 0; k < 4+rng.Intn(5); k++ {
			rxs := f.bal(pool.GetReserveAddress(), quoteDenom)
			rys := f.bal(pool.GetReserveAddress(), baseDenom)
			pss := f.supply(own)
			switch act := rng.Intn(7); {
			case act < 3:
				who := 2 + rng.Intn(8)
				x := new(big.Int).Quo(new(big.Int).Mul(rxs, big.NewInt(int64(rng.Intn(3000)))), big.NewInt(1000))
				y := new(big.Int).Quo(new(big.Int).Mul(rys, big.NewInt(int64(rng.Intn(3000)))), big.NewInt(1000))
				if rng.Intn(3) == 0 {
					x, y = randMag(rng, 12), randMag(rng, 12)
				}
				s, ok := f.kDeposit(pool, who, x, y, nil)
				if ok {
					parent = lg.Add(parent, run, "KDeposit", map[string]interface{}{"who": actor(who), "x": x.String(), "y": y.String()}, nil, s.node())
					nk++
					if s.pc.Sign() > 0 {
						holders = append(holders, who)
					}
				}
			case act < 6:
				who := holders[rng.Intn(len(holders))]
				have := f.bal(f.e.Users[actor(who)], own)
				if have.Sign() == 0 {
					continue
				}
				pc := new(big.Int).Rand(rng.Rand, have)
				pc.Add(pc, big.NewInt(1))
				switch rng.Intn(5) {
				case 0:
					pc = have
				case 1:
					pc = big.NewInt(int64(1 + rng.Intn(5)))
				}
				s, ok := f.kWithdraw(pool, who, pc, feeD)
				if ok {
					parent = lg.Add(parent, run, "KWithdraw", map[string]interface{}{"who": actor(who), "pc": pc.String(), "fee": fee}, nil, s.node())
					nk++
				}
			default:
				// adversarial: a request on this pool that names a coin which is not the pool's
				amt := new(big.Int).Quo(pss, big.NewInt(int64(2+rng.Intn(50))))
				if amt.Sign() == 0 {
					amt = big.NewInt(1)
				}
				var s *step
				var what string
				switch v := rng.Intn(3); {
				case v == 0 && g != nil:
					// share coin of the pool with the same id in the foreign app; the attacker owns 10^12 of them
					cap := f.bal(f.e.Users[actor(attacker)], ltypes.PoolCoinDenom(f.otherApp, pool.Id))
					if amt.Cmp(cap) > 0 {
						amt = cap
					}
					what = "otherApp"
					s = f.kWithdrawCoin(pool, attacker, sdk.NewCoin(ltypes.PoolCoinDenom(f.otherApp, pool.Id), I(amt)), what, feeD)
				case v == 1 && g != nil:
					other := g.pools[(idx+1)%3]
					cap := f.bal(f.e.Users[actor(0)], ltypes.PoolCoinDenom(f.appID, other.Id))
					if amt.Cmp(cap) > 0 {
						amt = cap
					}
					what = "otherPool"
					s = f.kWithdrawCoin(pool, 0, sdk.NewCoin(ltypes.PoolCoinDenom(f.appID, other.Id), I(amt)), what, feeD)
				default:
					what = "notInPair"
					x := new(big.Int).Quo(rxs, big.NewInt(int64(2+rng.Intn(9))))
					y := new(big.Int).Quo(rys, big.NewInt(int64(2+rng.Intn(9))))
					s, _ = f.kDeposit(pool, 2+rng.Intn(8), x, y, sdk.NewCoins(sdk.NewCoin(thirdDenom, sdkmath.NewInt(int64(1+rng.Intn(1000000))))))
				}
				if s != nil {
					parent = lg.Add(parent, run, "KForeign", map[string]interface{}{"what": what, "amt": amt.String()}, nil, s.node())
					nk++
					nforeign++
				}
			}
			f.beginNext(6 * time.Second)
		}
	}

	if err := lg.Write(*out); err != nil {
		fmt.Fprintln(os.Stderr, err)
		return 2
	}
	fmt.Printf("amm shares: vectors=%d keeperVectors=%d foreign=%d random=%d rangedCreated=%d keeperSteps=%d nodes=%d\n", nvec, nkvec, nforeign, *nrand, ncreate, nk, len(lg.Nodes))
	return 0
}
