package oracle

import (
	"bufio"
	"encoding/json"
	"fmt"
	"os"

	abci "github.com/cometbft/cometbft/abci/types"
	sdk "github.com/cosmos/cosmos-sdk/types"

	"github.com/comdex-official/comdex/x/bandoracle"
	bandtypes "github.com/comdex-official/comdex/x/bandoracle/types"
	"github.com/comdex-official/comdex/x/market"
	markettypes "github.com/comdex-official/comdex/x/market/types"

	"vh/sim"
)

// bandSt is the projection of the band keeper onto Band.tla's record B.
type bandSt struct {
	Flag   bool  `json:"flag"`
	Valid  bool  `json:"valid"`
	Temp   int64 `json:"temp"`
	Last   int64 `json:"last"`
	Dh     int64 `json:"dh"`
	Dbool  bool  `json:"dbool"`
	Hasres bool  `json:"hasres"`
	Rate   int64 `json:"rate"`
}

const cyc = int64(20)

func projectBand(e *sim.Env, gap int64) bandSt {
	k := e.App.BandoracleKeeper
	b := bandSt{Flag: k.GetCheckFlag(e.Ctx), Valid: k.GetOracleValidationResult(e.Ctx), Temp: k.GetTempFetchPriceID(e.Ctx), Last: k.GetLastFetchPriceID(e.Ctx), Dh: -1}
	dd := k.GetDiscardData(e.Ctx)
	b.Dbool = dd.DiscardBool
	if dd.BlockHeight >= 0 {
		a := (e.Ctx.BlockHeight() - dd.BlockHeight) / cyc
		if a > gap {
			a = gap
		}
		if a < 0 {
			a = 0
		}
		b.Dh = a
	}
	res, err := k.GetFetchPriceResult(e.Ctx, bandtypes.OracleRequestID(b.Last))
	if err == nil && len(res.Rates) > 0 {
		b.Hasres = true
		b.Rate = -1
		if res.Rates[0] < small {
			b.Rate = int64(res.Rates[0])
		}
	}
	return b
}

func injectBand(e *sim.Env, b bandSt, n uint64, gap int64, hPrev int64) {
	k := e.App.BandoracleKeeper
	k.SetFetchPriceMsg(e.Ctx, bandtypes.MsgFetchPriceData{OracleScriptID: 12, SourceChannel: "channel-0", AskCount: 1, MinCount: 1,
		TwaBatchSize: n, AcceptedHeightDiff: gap * cyc, FeeLimit: sdk.NewCoins()})
	k.SetLastBlockHeight(e.Ctx, 1)
	k.SetCheckFlag(e.Ctx, b.Flag)
	k.SetOracleValidationResult(e.Ctx, b.Valid)
	k.SetTempFetchPriceID(e.Ctx, b.Temp)
	k.SetLastFetchPriceID(e.Ctx, bandtypes.OracleRequestID(b.Last))
	dh := int64(-1)
	if b.Dh >= 0 {
		dh = hPrev - b.Dh*cyc
	}
	k.SetDiscardData(e.Ctx, bandtypes.DiscardData{BlockHeight: dh, DiscardBool: b.Dbool})
	if b.Hasres {
		k.SetFetchPriceResult(e.Ctx, bandtypes.OracleRequestID(b.Last), bandtypes.FetchPriceResult{Rates: []uint64{uint64(b.Rate), 3}})
	}
}

// effRate = the rate the market hook would sample for the idx-th priced asset: the stored result of the last acknowledged request
func effRate(e *sim.Env, idx int) uint64 {
	k := e.App.BandoracleKeeper
	res, err := k.GetFetchPriceResult(e.Ctx, bandtypes.OracleRequestID(k.GetLastFetchPriceID(e.Ctx)))
	if err != nil || len(res.Rates) <= idx {
		return 0
	}
	return res.Rates[idx]
}

// arrive = what the IBC acknowledgement / response handlers of x/bandoracle write (oracle.go)
func arrive(e *sim.Env, kind string, rates []uint64) {
	if kind == "none" {
		return
	}
	k := e.App.BandoracleKeeper
	id := k.GetLastFetchPriceID(e.Ctx) + 1
	k.SetLastFetchPriceID(e.Ctx, bandtypes.OracleRequestID(id))
	if kind == "full" {
		k.SetFetchPriceResult(e.Ctx, bandtypes.OracleRequestID(id), bandtypes.FetchPriceResult{Rates: rates})
	}
}

func runCycle(e *sim.Env) (panicked bool, ps string) {
	defer func() {
		if x := recover(); x != nil {
			panicked, ps = true, fmt.Sprint(x)
		}
	}()
	bandoracle.BeginBlocker(e.Ctx, abci.RequestBeginBlock{}, e.App.BandoracleKeeper)
	market.BeginBlocker(e.Ctx, abci.RequestBeginBlock{}, e.App.MarketKeeper, e.App.BandoracleKeeper, e.App.AssetKeeper)
	return
}

type bandVec struct {
	Args struct {
		Kind string `json:"kind"`
		R    int64  `json:"r"`
	} `json:"args"`
	Pre struct {
		B bandSt `json:"b"`
		W struct {
			Found  bool    `json:"found"`
			Win    []int64 `json:"win"`
			Idx    int64   `json:"idx"`
			Active bool    `json:"active"`
			Val    int64   `json:"val"`
			D      int64   `json:"d"`
		} `json:"w"`
	} `json:"pre"`
	N   int64 `json:"n"`
	Gap int64 `json:"gap"`
}

// bandVectors executes every transition of MC_Band on the real bandoracle + market begin blockers.
func bandVectors(lg *sim.Log, e0 *sim.Env, a1 uint64, path string) (int, error) {
	f, err := os.Open(path)
	if err != nil {
		return 0, err
	}
	defer f.Close()
	sc := bufio.NewScanner(f)
	sc.Buffer(make([]byte, 1<<20), 1<<26)
	n := 0
	for sc.Scan() {
		js := sim.TLCJSON(sc.Text())
		if js == "" {
			continue
		}
		var v bandVec
		if err := json.Unmarshal([]byte(js), &v); err != nil {
			return n, err
		}
		n++
		e := e0.Branch()
		const H = int64(1000)
		hPrev, hNow := (H-1)*cyc, H*cyc
		e.Ctx = e.Ctx.WithBlockHeight(hPrev)
		injectBand(e, v.Pre.B, uint64(v.N), v.Gap, hPrev)
		if v.Pre.W.Found {
			pv := make([]uint64, len(v.Pre.W.Win))
			for j, x := range v.Pre.W.Win {
				pv[j] = uint64(x)
			}
			d := int64(-1)
			if v.Pre.W.D >= 0 {
				d = hPrev - v.Pre.W.D*cyc
			}
			e.App.MarketKeeper.SetTwa(e.Ctx, markettypes.TimeWeightedAverage{AssetID: a1, ScriptID: 12, Twa: uint64(v.Pre.W.Val), CurrentIndex: uint64(v.Pre.W.Idx),
				IsPriceActive: v.Pre.W.Active, PriceValue: pv, DiscardedHeightDiff: d})
		}
		preW := project(e, a1, v.Gap, cyc)
		preB := projectBand(e, v.Gap)
		arrive(e, v.Args.Kind, []uint64{uint64(v.Args.R), 3})
		eff := effRate(e, 0)
		e.Ctx = e.Ctx.WithBlockHeight(hNow)
		panicked, ps := runCycle(e)
		s := project(e, a1, v.Gap, cyc)
		lg.Add(0, "bandvec", "Cycle", map[string]interface{}{"kind": v.Args.Kind, "r": int64(eff), "rL": sim.LimbsU64(eff), "dh": 1, "n": v.N, "gap": v.Gap, "unit": cyc, "asset": 1},
			nil, map[string]interface{}{"pre": preW.W, "w": s.W, "preb": preB, "b": projectBand(e, v.Gap), "panic": panicked, "panicS": ps, "calcErr": s.CalcErr, "getErr": s.GetErr})
	}
	return n, sc.Err()
}

// bandRuns: seeded behaviours through the REAL band + market hooks (no stubbing of the band state).
func bandRuns(lg *sim.Log, e0 *sim.Env, a1, a3 uint64, rng *sim.Rng, seed int64, runs, steps int) {
	big := []uint64{^uint64(0), 1 << 63, 999999999999}
	smallv := []uint64{1, 2, 3, 5, 1000000, 7}
	for r := 0; r < runs; r++ {
		e := e0.Branch()
		n := uint64(1 + rng.Intn(3))
		gap := int64(1 + rng.Intn(3))
		run := fmt.Sprintf("band:%d:%d", seed, r)
		h := int64(4000)
		e.Ctx = e.Ctx.WithBlockHeight(h)
		injectBand(e, bandSt{Dh: -1}, n, gap, h)
		par := map[uint64]int{}
		prevW := map[uint64]rec{}
		prevB := projectBand(e, gap)
		for _, a := range []uint64{a1, a3} {
			s := project(e, a, gap, cyc)
			par[a] = lg.Add(0, run, "Init", map[string]interface{}{"kind": "none", "n": n, "gap": gap, "unit": cyc, "asset": a, "r": 0, "rL": []int64{}, "dh": 0},
				nil, map[string]interface{}{"pre": s.W, "w": s.W, "preb": prevB, "b": prevB, "panic": false, "panicS": "", "calcErr": s.CalcErr, "getErr": s.GetErr})
			prevW[a] = s.W
		}
		for k := 0; k < steps; k++ {
			if r%2 == 1 && k > 0 && rng.Intn(14) == 0 {
				// governance installs a new fetch-price configuration (other window size / accepted gap) through the keeper entry point the
				// proposal handler calls: every window is dropped, the cadence restarts
				n = uint64(1 + rng.Intn(5))
				gap = int64(1 + rng.Intn(3))
				if err := e.App.BandoracleKeeper.AddFetchPriceRecords(e.Ctx, bandtypes.MsgFetchPriceData{OracleScriptID: 12, SourceChannel: "channel-0", AskCount: 1, MinCount: 1,
					TwaBatchSize: n, AcceptedHeightDiff: gap * cyc, FeeLimit: sdk.NewCoins()}); err != nil {
					panic(err)
				}
				e.App.BandoracleKeeper.SetLastBlockHeight(e.Ctx, 1) // keep the cadence phase of the fixture (heights divisible by 20)
				nb := projectBand(e, gap)
				for _, a := range []uint64{a1, a3} {
					s := project(e, a, gap, cyc)
					par[a] = lg.Add(par[a], run, "Reconfig", map[string]interface{}{"kind": "none", "r": 0, "rL": []int64{}, "dh": 0, "n": n, "gap": gap, "unit": cyc, "asset": a},
						nil, map[string]interface{}{"pre": prevW[a], "w": s.W, "preb": prevB, "b": nb, "panic": false, "panicS": "", "calcErr": s.CalcErr, "getErr": s.GetErr})
					prevW[a] = s.W
				}
				prevB = nb
			}
			kind := []string{"full", "full", "full", "full", "none", "ack"}[rng.Intn(6)]
			sample := func() uint64 {
				switch x := rng.Intn(10); {
				case x < 2:
					return 0
				case x < 4:
					return big[rng.Intn(len(big))]
				default:
					return smallv[rng.Intn(len(smallv))]
				}
			}
			r1, r3 := sample(), sample()
			arrive(e, kind, []uint64{r1, r3})
			eff1, eff3 := effRate(e, 0), effRate(e, 1)
			// idle blocks between cadence heights run the hooks too (market switches prices off while validation is false)
			for i := int64(1); i < cyc; i += 7 {
				e.Ctx = e.Ctx.WithBlockHeight(h + i)
				runCycle(e)
			}
			h += cyc
			e.Ctx = e.Ctx.WithBlockHeight(h)
			panicked, ps := runCycle(e)
			nb := projectBand(e, gap)
			for _, a := range []uint64{a1, a3} {
				rv := eff1
				if a == a3 {
					rv = eff3
				}
				s := project(e, a, gap, cyc)
				rs := int64(-1)
				if rv < small {
					rs = int64(rv)
				}
				pb := prevB
				par[a] = lg.Add(par[a], run, "Cycle", map[string]interface{}{"kind": kind, "r": rs, "rL": sim.LimbsU64(rv), "dh": 1, "n": n, "gap": gap, "unit": cyc, "asset": a},
					nil, map[string]interface{}{"pre": prevW[a], "w": s.W, "preb": pb, "b": nb, "panic": panicked, "panicS": ps, "calcErr": s.CalcErr, "getErr": s.GetErr})
				prevW[a] = s.W
			}
			prevB = nb
			if panicked {
				break
			}
		}
	}
}
