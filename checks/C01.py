"""C01 - served by the harbor family log (checks/_harbor.py)."""
import os, sys
sys.path.insert(0, os.path.dirname(os.path.abspath(__file__)))
import _harbor

META = dict(
    category="model_checking",
    technique="explicit TLA+ spec (Harbor/VaultSpec/DutchV1) + TLC trace validation of recorded real-code behaviours and bounded implementation exploration; vault handlers predicted by the spec (conformance)",
    text='Harbor.tla/VaultSpec.tla specify the vault handlers and the V2 liquidation/auction hand-over; TLC evaluates, on every recorded real state, the custody identity per collateral denom, the vault count, and the per-product collateral / minted / id totals (delta form per step, state form at the root), with vaults awaiting auction counted at the debt handed to the auction (V2) resp. at the locked vault AmountIn / AmountOut (V1, which is what CloseDutchAuction/UpdateProtocolData subtract). The identities are judged on every step of the emergency-shutdown flows as well (redemption set-up, TriggerEsm, V1 shutdown close-out). Vault handler steps are additionally predicted exactly by VaultSpec (Conf_Vault).',
    note="Bounded: 3 users, 4 products (two sharing a collateral denom, one stable-mint), small amounts (TLC 32-bit), decimals 1/10/100, oracle-priced debt; interest amounts are environment values taken from the log; both liquidation/auction generations are driven (V2 through blocks and messages; V1 - x/liquidation, x/auction - through MsgLiquidateVault / MsgPlaceDutchBid and, because module.go does not wire its begin blockers, through direct calls of the exported BeginBlockers as environment actions V1Sweep / V1Tick); emergency shutdown is driven too (rarely in ordinary runs, headed for in every sixth run, and in a bounded exploration of the shutdown flows: MsgDepositESM / MsgExecuteESM, the esm begin blocker with price snapshot and redemption set-up after the cool-off, MsgCollateralRedemption, withdrawals in the cool-off, V2 TriggerEsm and the V1 shutdown close-out). Trusted: projection functions, TLC, bank module.",
    design_ref='4 C01',
)


def run(c):
    return _harbor.run(c, ['okVaultOps', 'seizures', 'closingBids', 'v1Seizures', 'v1Closes', 'esmExecuted', 'esmVaultRedemptions', 'esmStableRedemptions', 'esmV2CloseOuts', 'esmV1CloseOuts'])
