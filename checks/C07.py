"""C07 — every order is settled exactly (fills, refunds, swap fees add up); an order outside its placement batch can
always be cancelled by its owner; MM cancel/replace cancels and refunds every earlier MM order of that owner in that pair.
Same specification, log and TLC pass as C04 (checks/C04.py: pipeline)."""
import importlib.util, os
import vlib

_spec = importlib.util.spec_from_file_location("chk_C04_shared", os.path.join(os.path.dirname(os.path.abspath(__file__)), "C04.py"))
_c04 = importlib.util.module_from_spec(_spec)
_spec.loader.exec_module(_c04)

META = dict(
    category="model_checking",
    technique=_c04.META["technique"],
    text="Per step and per user, TLC compares the change of the user's balance with the flows the statement prescribes for the user's orders: "
         "placement takes offer + floor(offer*fee) (no reserve for MM orders), every fill returns its demand coins, termination (completed, expired, "
         "cancelled, cancel-all, MM replace) returns the unspent offer plus reserve - floor(executed*fee) (C07_OwnerLedger, delta form). "
         "C07_Cancellable: a cancel by the owner of a live order outside its placement batch (by the harness's own clock: at least one end-of-block with a due batch has run since placement, not the module's batch counter) succeeds and yields status Canceled. "
         "C07_CancelAll: after a successful CancelAllOrders every live order of the signer outside its placement batch (named pairs / all pairs) is Canceled. "
         "C07_MMReplace: after a successful CancelMMOrder / MMOrder every earlier live MM order of that owner in that pair is Canceled. "
         "C07_EscrowCovers / C07_NothingRemains: the pair escrow covers unspent offers + held reserves of live orders and is empty when the book is empty; "
         "C07_EscrowCoversNet is the same modulo the recorded matching residue (amm family) so that any other leak is reported even after a non-conserving match. "
         "Configuration axis app id != pair id is driven (app 2 / pair 1 next to app 1 / pair 2).",
    note=_c04.META["note"] + " Per-order attribution inside one step is by sum over the owner's orders (balances, not events).",
    design_ref="4 C07",
)


def run(c):
    d, res = _c04.pipeline(c)
    return _c04.finish(c, d, res, ["rqOrder", "rqMarket", "rqMarketBoundary", "rqFeeStep", "rqRoundedUp", "rqPartialEnd", "rqMarketPartialEnd", "rqExpiryDue", "rqCrossing", "rqDemandExceedsRest", "rqLowResidual", "cancel", "rqCancelAll", "rqCancelAllMixed", "rqMM", "rqMMDiff", "rqMMPartial", "rqMMIndexHole", "rqMMImproved"],
                       "bounded TLC model (3 configs: orders on app 1, pools on app 1, orders on app 2 = app id != pair id) checked exhaustively; its alphabet explored "
                       "breadth-first on the real module; seeded random multi-actor runs (limit / market / MM orders, cancel, cancel-all, MM cancel, expiry, "
                       "partial fills over several batches) with a drain phase; each recorded node is one TLC state of Trace_Liquidity")
