"""Shared runner of the `lend` family: one set of harness logs + one TLC pass per log, cached per (binary hash, spec hash,
tier, seed). Serves C08 (books + LTV) and the borrow side of C09 (V2 borrow liquidation: C09_Borrow*) and C10 (lend-initiated
V2 Dutch auctions: C10_Lend*). Every property check judges only its own C<id>_* formulas of spec/lend/Trace_Lend.tla;
usage from a property's check file:  import _lend;  return _lend.run(c, need=[...antecedent counters that must be > 0...])."""
import json, os, re
import vlib

UNPREDICTED = ["Tick", "Bid", "Kill", "LiquidateV1", "BidV1"]
TIERS = {
    "quick": dict(profiles=[("same", 4), ("cross", 4), ("multi", 4), ("twopool", 5)], runs_s=12, runs_b=3, runs_v1=4, steps=170),
    "thorough": dict(profiles=[("same", 6), ("cross", 5), ("multi", 5), ("twopool", 6)], runs_s=150, runs_b=40, runs_v1=60, steps=300),
}
NEED = {
    "C08": ["released", "releasedBridged", "releasedWithInterest", "atBoundary", "rejectedLoans", "withdrawnWithPledge", "repaid",
            "handedOver", "rewardPaid", "stableBorrowed", "walked", "confOkSteps", "drawn"],
    "C09": ["seizures", "sweepSeizures", "bridgedSeizures", "bridged2Seizures", "safeLiquidateRequests", "nearSafeRequests", "nearSafeBridged2", "nearSafeEmode", "killedSteps", "blocks", "longWaits",
            "v1Seizures", "v1SweepSeizures", "v1SafeRequests", "v1KilledSteps", "v1LongWaits", "v1SmallBatchRuns", "v1CursorWraps", "v1LateSeizures"],
    "C10": ["okBids", "partialBids", "closingBids", "oversizedBids", "priceChecks", "bridgedCloses", "ownerRefunds", "auctionBlocks", "restarts",
            "v1Bids", "v1PartialBids", "v1ClosingBids", "v1OversizedClosing", "v1Recreated", "v1AuctionBlocks", "v1Restarts"],
}


def mc_cfg(wd, name, profile, steps, emit, props):
    with open(os.path.join(wd, name), "w") as f:
        f.write('SPECIFICATION Spec\nCONSTANTS InitFile = "lend_init.json" Profile = "%s" MaxSteps = %d Emit = %s\n'
                'INVARIANTS InvBooksLend InvBooksBorrow NonNeg\nPROPERTIES %s\nCHECK_DEADLOCK FALSE\n'
                % (profile, steps, "TRUE" if emit else "FALSE", " ".join(props)))


def produce(c, binhash):
    t = TIERS[c.tier]

    def producer(d):
        vlib.stage_spec(d, ["lend"])
        vlib.run_vh(["lend", "--init", os.path.join(d, "lend_init.json")], timeout=300)
        gen = dist = 0
        jobs = []
        # ---- model runs: C08 on the model + transition dump ----
        for prof, steps in t["profiles"]:
            cfg = "MC_Lend_%s%d.cfg" % (prof, steps)
            mc_cfg(d, cfg, prof, steps, True, ["PropLtv", "PropLtvOpenBridged", "PropLtvDrawBridged", "PropPoolHeld"])
            tfile = os.path.join(d, "T_%s.txt" % prof)
            r = vlib.model_check(d, "MC_Lend", cfg, workers=1, tfile=tfile, timeout=2400)
            gen += r["generated"]
            dist += r["distinct"]
            jobs.append((prof, ["--trans", tfile, "--runs-small", "0", "--runs-big", "0"]))
        # ---- real code: walk every model transition, then seeded drives; TLC judges every recorded node ----
        jobs.append(("drive", ["--runs-small", str(t["runs_s"]), "--runs-big", str(t["runs_b"]), "--runs-v1", str(t["runs_v1"]), "--steps", str(t["steps"])]))
        logs, stats, samples = [], {}, []
        walked = tstates = allnodes = 0
        for name, args in jobs:
            logf = os.path.join(d, "lend_%s.ndjson" % name)
            out = vlib.run_vh(["lend", "--out", logf, "--seed", str(c.seed)] + args, timeout=3000)
            m = re.search(r"walked=(\d+)", out)
            walked += int(m.group(1)) if m else 0
            dst = os.path.join(d, "log.ndjson")
            if os.path.lexists(dst):
                os.remove(dst)
            tr = vlib.trace_check_chunked(d, "Trace_Lend", "Trace_Lend.cfg", logf, chunk_nodes=20000, ptr_fields=["args.root"], workers=4, timeout=3000)
            for k, v in tr["stats"].items():
                if isinstance(v, int):
                    stats[k] = stats.get(k, 0) + v
            tstates += tr.get("distinct", 0)
            allnodes += tr["stats"].get("nodes", 0)
            nodes = vlib.read_log(logf)
            pick = [n for n in nodes if n["a"] in ("Borrow", "Draw", "Withdraw", "Liquidate", "Bid") and n["res"].get("ok")]
            for n in pick[:1] + pick[-1:]:
                samples.append(dict(run=n["run"], a=n["a"], args=n["args"], res=n["res"], path_len=len(vlib.path_to(nodes, n["id"]))))
            del nodes
            if not tr["fails"]:
                os.remove(logf)   # nothing to look up or replay in it
            logs.append(dict(name=name, file=os.path.basename(logf), fails=[list(x) for x in tr["fails"]]))
        for f in os.listdir(d):
            if f.startswith("T_") or f == "log.ndjson":
                try:
                    os.remove(os.path.join(d, f))
                except OSError:
                    pass
        return dict(logs=logs, stats=stats, samples=samples, walked=walked, tstates=tstates, allnodes=allnodes, gen=gen, dist=dist,
                    profiles=["%s,MaxSteps=%d" % x for x in t["profiles"]])

    return vlib.cached("lend", [binhash, vlib.spec_hash("lend"), c.tier, c.seed, TIERS[c.tier]], producer)


def run(c, need=None):
    binhash = vlib.sha_file(vlib.BIN)
    d, res, was_cached = produce(c, binhash)
    for lg in res["logs"]:
        if lg["fails"]:
            c.judge(dict(fails=[tuple(x) for x in lg["fails"]]), os.path.join(d, lg["file"]))
    st = res["stats"]
    need = NEED.get(c.prop, []) if need is None else need
    zero = [k for k in need if st.get(k, 0) == 0]
    if zero and not c.violations:   # a violation found on real states stands even if another antecedent was not exercised
        raise vlib.NoVerdict("vacuous run, antecedent counters are 0: %s" % zero)
    c.samples = res["samples"]
    return c.finish("model_checking", dict(
        states=res["dist"], transitions=res["gen"], traces_validated_against_impl=res["allnodes"],
        model_configs=res["profiles"], transitions_executed_on_impl=res["walked"], trace_states=res["tstates"],
        antecedents=st, exhaustive=True, unpredicted_actions=UNPREDICTED, shared_log_cached=was_cached,
        unpredicted_fields=["interest / reward amounts (environment, taken from the log)", "fractional interest carry", "cToken supply"],
        rule="every transition of the bounded profiles (same-pool, cross-pool, multi-pair, one asset in two pools; 2 users, amounts at the exact LTV boundary -1/0/+1, "
             "interest injection, price moves, foreign-owner attempts) is executed once on the real msg servers; plus seeded drives "
             "(3 users, 2 pools, 11 pairs, mixed decimals, time gaps up to a year, price moves aimed just below / above each position's liquidation threshold, sweep batch sizes 1..3, "
             "circuit breaker, V2 liquidation messages and block sweeps, tiny / partial / exact / over-sized Dutch bids; first-generation behaviours with the borrow sweep as a cursor machine: batch 1 / 2 against 4 / 6 open borrows, full rounds of the cursor, then positions at the middle, head and tail of the list made unsafe after the cursor passed them); each node is a TLC state of Trace_Lend"),
        assumptions=["prices are written with MarketKeeper.SetTwa (band oracle stubbed: validation result true, no request pending)",
                     "amounts stay below 2^31 and collateral value * ratio denominators below 10^18, where the code's 18-decimal quotient decides exactly like the rational inequality",
                     "asset rate parameters have non-zero stable-rate parameters (the all-zero case divides by zero in interest calculation: reported separately)",
                     "a block whose hooks panic is not judged (it would halt the chain; C15)",
                     "the circuit breaker is toggled through the esm keeper setter (admin check is C12)",
                     "C09/C10: lend-initiated liquidations and Dutch auctions of both generations (vault side: harbor family); the first-generation begin blockers are not wired into the app and are called directly after each block of a first-generation behaviour (as the repository's tests do); the bounded response of the first-generation borrow sweep (C09_BorrowLive_V1) is counted in runs of that sweep",
                     "after a first-generation locked vault has been overwritten (known finding C09-v1-locked-vault-id-counter-regresses) the rest of that behaviour is not judged"])
