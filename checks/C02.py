"""C02 - served by the harbor family log (checks/_harbor.py)."""
import os, sys
sys.path.insert(0, os.path.dirname(os.path.abspath(__file__)))
import _harbor

META = dict(
    category="model_checking",
    technique="explicit TLA+ spec (Harbor/VaultSpec/DutchV1) + TLC trace validation of recorded real-code behaviours and bounded implementation exploration; vault handlers predicted by the spec (conformance)",
    text='TLC evaluates on recorded real steps: supply change <= change of recorded principal (equality when no auction settles), every successful mint delivers minted - floor(minted*fee) to the user and the fee to the collector and equals the recorded principal change, burns equal the principal retired (also at the close of a V1 Dutch auction: burn = LockedVault.AmountOut), interest/fee steps never mint; the backing includes the debt registered for emergency redemption (x/esm redemption book: vault and stable-vault principal moved there after the cool-off, reduced by the collector burn and by every redemption); across 6 decimal-scale configurations x 4 fee settings (stable-mint conversion included).',
    note="Bounded: 3 users, 4 products (two sharing a collateral denom, one stable-mint), small amounts (TLC 32-bit), decimals 1/10/100, oracle-priced debt; interest amounts are environment values taken from the log; both liquidation/auction generations are driven (V2 through blocks and messages; V1 - x/liquidation, x/auction - through MsgLiquidateVault / MsgPlaceDutchBid and, because module.go does not wire its begin blockers, through direct calls of the exported BeginBlockers as environment actions V1Sweep / V1Tick); emergency shutdown is driven too (rarely in ordinary runs, headed for in every sixth run, and in a bounded exploration of the shutdown flows: MsgDepositESM / MsgExecuteESM, the esm begin blocker with price snapshot and redemption set-up after the cool-off, MsgCollateralRedemption, withdrawals in the cool-off, V2 TriggerEsm and the V1 shutdown close-out). Trusted: projection functions, TLC, bank module.",
    design_ref='4 C02',
)


def run(c):
    return _harbor.run(c, ['okMints', 'okBurns', 'closingBids', 'v1Seizures', 'v1Closes', 'esmVaultRedemptions', 'esmCollectorBurns', 'esmRedemptions'])
