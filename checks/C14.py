"""C14 — emergency controls fail closed: circuit breaker, emergency shutdown with cool-off, missing/inactive oracle price.
spec/matrix/Controls.tla (+Catalogue.tla): handler x control setting x inactive-price subset as a finite TLA+ cell set, guard table written
from the statement (Required*) and transcribed from the code (Impl*); MC_Matrix checks Impl refines Required and emits the cells;
`vh matrix` executes them on the real handlers and hooks; Trace_Matrix judges."""
import os, sys
sys.path.insert(0, os.path.dirname(os.path.abspath(__file__)))
import vlib
import matrix_common as mx

META = dict(
    category="model_checking",
    technique="TLA+ control/guard matrix (Controls.tla) enumerated by TLC; every cell executed on the real handlers and block hooks under real kill-switch / ESM / price settings; outcomes judged by a TLC trace spec",
    text="Controls.tla gives, per message handler of vault, locker and lend (32 handler/product rows) and per sweep / auction starter (10 hooks), what the "
         "statement demands under breaker in {off,on} x shutdown in {off, executed this block (no snapshot), executed with the snapshot blocked by an inactive feed, "
         "executed in cool-off, executed after cool-off} x every subset of needed prices unavailable (inactive / missing record), plus the external-keeper liquidation and the V2 market bid "
         "for the price clause, next to the guards as coded. TLC checks at design level that the coded guards refine the demanded ones and emits the cells; the "
         "harness sets the controls through the real entry points (MsgKillSwitch from the admin, MsgDepositESM + MsgExecuteESM + a block for the snapshot, "
         "inactive TWA records) on a fresh fixture and on seeded non-fresh states in which the same message succeeds with the controls off, executes the "
         "message / hook and records result, store digest and seizure / auction counts; TLC evaluates C14_Breaker, C14_Shutdown, C14_CoolOff, "
         "C14_PriceMissing, C14_FailsClosed, C14_HookBreaker, C14_HookPriceMissing, C14_AuctionPriceMissing (record of a live Dutch auction unchanged by the per-block update / restart step when a needed price is off; both generations, vault and lend auctions) on every cell and Conf_Ctl / Conf_Hook (outcome = coded guard sequence).",
    note="Round 4: a second vault app (twin) sits in the same sweep loops as harbor: with the breaker on one of them the hook must leave THAT app's positions "
         "alone (identity by the vault product's app, not by the tag of the locked vault) while the other app's positions are processed; the borrow rows also run on a "
         "cross-pool position (collateral not a transit asset) with each of its four price roles switched off separately. Breaker expectations beyond the statement's wording (lend withdraw/close/repay/close-borrow) follow the anchors' guard list; locker withdraw/close and "
         "everything the statement does not constrain is observed only. 'after cool-off' is the state a transaction sees when the shutdown hook has not redeemed the vaults. "
         "V1 liquidation/auction begin-blockers are called directly (not wired in the app).",
    design_ref="4 C14",
)


def run(c):
    logf, res, cached = mx.produce(c)
    c.judge(dict(fails=[tuple(x) for x in res["fails"]]), logf)
    st = res["stats"]
    if not c.violations:   # a violation on real-code states stands on its own; vacuity only matters for a clean result
        mx.need(st, ["ctlBreaker", "ctlShutdown", "ctlCoolOff", "ctlCoolWitness", "ctlPrice", "ctlRefOk", "ctlFreeOk", "hookBreaker", "hookPrice", "hookRefActs", "aucPrice", "aucRefMoved", "ctlNoSnapshot", "ctlPriceInactive", "ctlPriceMissing", "hookPeerBusy", "ctlCrossPool"])
        mx.need_eq(st, [("ctlHandlersWitnessed", "ctlHandlers"), ("hooksWitnessed", "hooks"), ("aucStepsWitnessed", "aucSteps")])
    c.samples = mx.samples(logf, ("Ctl", "Hook", "Auc"))
    return c.finish("model_checking", dict(
        states=res["mc"]["distinct"], transitions=res["mc"]["generated"], traces_validated_against_impl=st["nodes"],
        must_reject_cells_executed=st["ctlBreaker"] + st["ctlShutdown"] + st["ctlCoolOff"] + st["ctlPrice"] + st["hookBreaker"] + st["hookPrice"] + st["aucPrice"],
        prepared_states=st["states"], antecedents=st, exhaustive=True, log_cached=cached,
        rule="every cell handler x (breaker, shutdown status, inactive-price subset) and hook x (breaker, shutdown status) is one execution on the real code "
             "per prepared state (fresh fixture + seeded random prefixes); a must-reject cell counts only when the same message / hook acts in the same "
             "state with all controls off"),
        assumptions=["controls are set through MsgKillSwitch / MsgDepositESM / MsgExecuteESM; inactive prices by clearing IsPriceActive of the TWA record",
                     "V1 liquidation / auction begin-blockers are invoked directly, as in the repository's tests"])
