"""C05 — batch matching conserves coins and never fills an order beyond its limits.
spec/amm/MatchLaws.tla (the laws, once, over an abstract number algebra) ; Match.tla (order record + the engine's fill
arithmetic, matching abstracted as pairwise trades) ; MC_Match (book generator + design check) ; Trace_Match (TLC judges
every book matched by the real engine)."""
import os
import vlib

META = dict(
    category="model_checking",
    technique="TLA+ laws (MatchLaws.tla) checked by TLC on a bounded matching model; TLC enumerates small order books exhaustively as inputs, "
              "each is matched by the real amm.OrderBook / keeper Match / end-of-batch ExecuteMatching, and TLC judges every recorded result",
    text="MatchLaws.tla states base conservation, the dust bound (0 <= dust < individual fills), paid <= offer, filled <= amount, the per-fill price "
         "limit and matched => received > 0 over (orders, fills, dust), once, for TLC integers and for limb numbers. MC_Match shows the laws are "
         "invariants of every sequence of pairwise trades built from the transcribed FillOrder arithmetic, and enumerates every order book of a small "
         "box (prices on a tick grid, small amounts, batch ages, with/without last price, optional basic/ranged pool). Each book is matched by the real "
         "engine (amm package with a fill-counting order type, the keeper's Match glue, and real limit orders through the liquidity EndBlocker against "
         "real balances); plus seeded random books up to 10^30. Every result is one TLC state of Trace_Match. Exhaustive for the box, sampled beyond.",
    note="Trusted: TLC/Json module; the fill-counting order wrapper (delegates to amm.BaseOrder); for the keeper's own PoolOrder and stored orders the "
         "number of individual fills is not observable, so the per-fill tolerances are judged on the amm-level run of the same book. "
         "Open finding: sell-side residual dropped (base conservation), see known/amm.json.",
    design_ref="4 C05; 5 #10",
)

INV = "INVARIANTS InvBase InvDust InvOffer InvAmount InvLimit InvReceive\nCHECK_DEADLOCK FALSE\n"


def S(xs):
    return "{" + ", ".join(str(x) if not isinstance(x, str) else '"%s"' % x for x in xs) + "}"


def cfg(tp=1, pd=100, prices=(40, 50, 70), amounts=(2, 3, 5), mb=2, ms=2, lasts=(0,), kinds=("none",), rx=(0,), ry=(0,), mn=0, mx=0,
        emit=True, explore=False):
    return ("SPECIFICATION Spec\nCONSTANTS TP = %d  PD = %d  Prices = %s  Amounts = %s  MaxBuys = %d  MaxSells = %d\n"
            "  Lasts = %s  PoolKinds = %s  PoolRx = %s  PoolRy = %s  PoolMn = %d  PoolMx = %d  Emit = %s  Explore = %s\n%s"
            % (tp, pd, S(prices), S(amounts), mb, ms, S(lasts), S(kinds), S(rx), S(ry), mn, mx,
               "TRUE" if emit else "FALSE", "TRUE" if explore else "FALSE", INV))


# generator configurations: (name, cfg kwargs)
QUICK = [
    ("sub1_2x2", dict(prices=(40, 50, 70), amounts=(2, 3, 5), mb=2, ms=2, lasts=(0,))),
    ("sub1_last", dict(prices=(40, 50, 70), amounts=(3, 4), mb=2, ms=2, lasts=(50, 70))),
    ("sells3", dict(prices=(50, 70), amounts=(2, 3, 7), mb=1, ms=3, lasts=(0, 50))),
    ("buys3", dict(prices=(50, 70), amounts=(2, 3, 7), mb=3, ms=1, lasts=(0, 70))),
    ("pow10", dict(prices=(99, 100, 110), amounts=(1, 3), mb=2, ms=2, lasts=(0, 100))),
    ("pool_b", dict(prices=(45, 50, 55), amounts=(150, 400), mb=2, ms=1, lasts=(0, 50), kinds=("basic", "ranged"), rx=(2000,), ry=(4000,), mn=30, mx=90)),
    ("pool_s", dict(prices=(45, 50, 55), amounts=(150, 400), mb=1, ms=2, lasts=(0, 50), kinds=("basic", "ranged"), rx=(2100,), ry=(3900,), mn=30, mx=90)),
]
THOROUGH = [
    [("sub1_2x2L", dict(prices=(40, 50, 70), amounts=(2, 3, 5), mb=2, ms=2, lasts=(0, 40, 50, 70)))],
    [("tp2_2x2", dict(tp=2, pd=1000, prices=(499, 500, 505), amounts=(2, 3, 9), mb=2, ms=2, lasts=(0, 500)))],
    [("s3b2", dict(prices=(40, 50, 70), amounts=(2, 3), mb=2, ms=3, lasts=(0, 50)))],
    [("b3s2", dict(prices=(40, 50, 70), amounts=(2, 3), mb=3, ms=2, lasts=(0, 50)))],
    [("b3s3", dict(prices=(50, 70), amounts=(2, 5), mb=3, ms=3, lasts=(0, 50, 70)))],
    [("pow10L", dict(prices=(98, 99, 100, 110), amounts=(1, 3), mb=2, ms=2, lasts=(0, 99, 100))),
     ("big1", dict(prices=(190, 200, 210), amounts=(1, 2, 3), mb=2, ms=2, lasts=(0, 200)))],
    [("pool2x2", dict(prices=(45, 50, 55), amounts=(150, 400), mb=2, ms=2, lasts=(0, 50), kinds=("basic", "ranged"), rx=(2000, 2100), ry=(4000,), mn=30, mx=90))],
    [("pool_hi", dict(prices=(190, 200, 220), amounts=(120, 500), mb=2, ms=2, lasts=(0, 200), kinds=("basic", "ranged"), rx=(8000,), ry=(4000,), mn=110, mx=350))],
]
DESIGN_Q = dict(prices=(40, 70), amounts=(2, 3, 5), mb=2, ms=2, lasts=(0,), emit=False, explore=True)
DESIGN_T = dict(prices=(40, 50, 70), amounts=(2, 3, 5), mb=2, ms=2, lasts=(0,), emit=False, explore=True)


def run(c):
    c.stage("amm")
    quick = c.tier == "quick"
    # (1) design-level: the laws are invariants of every pairwise-trade matching built from FillOrder
    with open(os.path.join(c.wd, "MC_Match_design.cfg"), "w") as f:
        f.write(cfg(**(DESIGN_Q if quick else DESIGN_T)))
    d = vlib.model_check(c.wd, "MC_Match", "MC_Match_design.cfg", workers=4, timeout=1500)
    if d.get("depth", 0) < 3:
        raise vlib.NoVerdict("design model did not explore trades: %s" % d)
    gen_states, gen_trans = d["distinct"], d["generated"]

    batches = [QUICK] if quick else THOROUGH
    nbooks = (3000, 40) if quick else (12000, 150)      # random books / keeper scenarios per batch
    tot = dict(nodes=0, vectors=0)
    stats = {}
    samples = []
    names = []
    for bi, batch in enumerate(batches):
        tfile = os.path.join(c.wd, "T%d.txt" % bi)
        for name, kw in batch:
            cf = "MC_Match_%s.cfg" % name
            with open(os.path.join(c.wd, cf), "w") as f:
                f.write(cfg(**kw))
            r = vlib.model_check(c.wd, "MC_Match", cf, workers=1, tfile=tfile, timeout=1500)
            if r["transitions_dumped"] != r["distinct"]:
                raise vlib.NoVerdict("generator %s: %d books printed for %d states" % (name, r["transitions_dumped"], r["distinct"]))
            tot["vectors"] += r["distinct"]
            gen_states += r["distinct"]
            gen_trans += r["generated"]
            names.append("%s:%d" % (name, r["distinct"]))
        logf = os.path.join(c.wd, "match%d.ndjson" % bi)
        vlib.run_vh(["amm", "match", "--vectors", tfile, "--out", logf, "--seed", str(c.seed * 100 + bi), "--books", str(nbooks[0]),
                     "--kfull", str(nbooks[1])], timeout=1800)
        tr = vlib.trace_check(c.wd, "Trace_Match", "Trace_Match.cfg", logf, workers=4, timeout=2400)
        c.judge(tr, logf)
        for k, v in tr["stats"].items():
            stats[k] = stats.get(k, 0) + v
        tot["nodes"] += tr["stats"].get("nodes", 0)
        if not samples:
            nodes = vlib.read_log(logf)
            pick = [n for n in nodes if n["st"].get("matched")]
            samples = [pick[0], pick[len(pick) // 2], pick[-1]] if len(pick) >= 3 else nodes[:3]
            del nodes
        os.remove(logf)
        lnk = os.path.join(c.wd, "log.ndjson")       # (vlib.trace_check leaves a symlink; a dangling one blocks the next batch)
        if os.path.lexists(lnk):
            os.remove(lnk)
    c.samples = samples
    need = ["matched", "big", "withLast", "poolMatched", "multiFill", "partial", "mixedAges", "kmatch", "kfull", "ranged",
            "kfullIdsDistinct", "kfullSecondPair", "kfullPoolIdNePairId", "foreignOrderAttempts"]
    if not c.violations and any(stats.get(k, 0) == 0 for k in need):   # a violation on real-code states is a verdict whatever the coverage
        raise vlib.NoVerdict("vacuous run: %s" % stats)
    return c.finish("model_checking", dict(
        states=gen_states, transitions=gen_trans, traces_validated_against_impl=tot["nodes"],
        books_generated_by_tlc=tot["vectors"], generator_configs=names, design_model=dict(distinct=d["distinct"], generated=d["generated"], depth=d.get("depth")),
        antecedents=stats, exhaustive=True,
        rule="every order book of the bounded boxes (<= 3 buys x 3 sells, tick grids below / at / above 1.0, amounts 1..9 resp. 120..1000 with pools, "
             "batch age old/new, with and without last price, no pool / basic pool / ranged pool) is matched once by the real engine; plus seeded random "
             "books (<= 15 x 15 orders, amounts to 10^30, tick precision 1..3) and keeper-level batches (real limit orders + EndBlocker); each result is a "
             "TLC state of Trace_Match judged with the C05 laws"),
        assumptions=["individual fills are counted by an order type that wraps amm.BaseOrder (the amm.Order interface admits it)",
                     "keeper-level runs observe paid/open from stored order records and received from real balance deltas; per-fill tolerances are judged at amm level",
                     "price limit ratio 0.1 (module default) in the last-price path"])
