"""C11 - bidders' funds are safe (English auctions of both generations, limit-bid book).
spec/english/English.tla + LimitBid.tla ; MC_English / MC_LimitBid (exhaustive, bounded) ; every model transition is
executed once on the real keepers by a graph walk ; seeded behaviours ; TLC judges every recorded state
(Trace_English / Trace_LimitBid).  This file also holds the machinery shared with C13 (family())."""
import json, os, shutil
import vlib

META = dict(
    category="model_checking",
    technique="TLA+ specs English.tla / LimitBid.tla model-checked by TLC; the complete transition graph of each bounded model is walked on the real "
              "msg servers and block hooks (one CacheContext branch per edge); recorded states validated by TLC trace specs (conformance + C11 formulas)",
    text="English.tla transcribes surplus / debt / generic English auctions of both generations (x/auction, x/auctionsV2 + the collector-driven "
         "starters); LimitBid.tla the deposit / cancel / withdraw handlers with attacker-chosen amount and denomination. TLC explores all "
         "interleavings of bids (equal, barely improving, just short, far off, wrong denomination, unknown auction), hook runs and time steps "
         "for 2 bidders and every auction kind x generation, with and without token-mint data; each generated transition is executed on the real "
         "code and TLC checks code step = spec step and the C11 formulas (custody = standing bids, improvement by the bid factor, refund of the "
         "outbid bidder in the same step, every way an auction ends - regular close: exactly the winner receives the lot; emergency shutdown "
         "of the app: the standing bidder is made whole -, own deposit only, recorded total = sum of deposits, custody keeps "
         "the outstanding deposits). Seeded behaviours add 3 actors, random configurations, both generations interleaved and automatic fills "
         "by Dutch auctions. Exhaustive for the bounded models, sampled beyond them.",
    note="Trusted: TLC/Json module, the projection functions of harness/fam/english, bank/store semantics. Generation-1 begin blocker is called "
         "directly (not wired in app.go). The generic generation-2 English auction is opened by the environment through the exported keeper "
         "entry point (no message reaches it on this tree). Dutch settlement arithmetic of automatic fills is monitored, not predicted.",
    design_ref="4 C11",
)

ENGLISH_INV = "InvCustodyCovers InvCustodyExact InvNetFeesNonNeg InvCollectorBacked InvOneAuction"


def _english_cfgs(tier):
    """(name, constants) of the MC_English runs."""
    def k(gens, flag, generic, tm, nf0, maxbids, maxauc, maxt, bidders='{"u1", "u2"}', esm="FALSE"):
        return ('Gens = %s  Flag = "%s"  Generic = %s  Tm0 = %s  Esm = %s  Nf0 = %d  Fund = 30  MaxBids = %d  MaxAuc = %d  MaxT = %d  Bidders = %s  Emit = TRUE'
                % (gens, flag, generic, tm, esm, nf0, maxbids, maxauc, maxt, bidders))
    if tier == "quick":
        return [("g1-surplus", k("{1}", "surplus", "FALSE", "TRUE", 45, 2, 1, 140)),
                ("g1-debt", k("{1}", "debt", "FALSE", "TRUE", 5, 2, 1, 140)),
                ("g2-surplus", k("{2}", "surplus", "FALSE", "TRUE", 45, 2, 1, 420)),
                ("g2-debt", k("{2}", "debt", "FALSE", "TRUE", 5, 2, 1, 420)),
                ("g2-generic", k("{2}", "none", "TRUE", "TRUE", 45, 2, 1, 420)),
                ("g2-surplus-notm", k("{2}", "surplus", "FALSE", "FALSE", 45, 2, 1, 420)),
                ("g1-debt-notm", k("{1}", "debt", "FALSE", "FALSE", 5, 1, 1, 140)),
                ("g2-dist", k("{2}", "dist", "FALSE", "TRUE", 45, 1, 1, 420)),
                ("g1-surplus-esm", k("{1}", "surplus", "FALSE", "TRUE", 45, 1, 1, 140, esm="TRUE")),
                ("g1-debt-esm", k("{1}", "debt", "FALSE", "TRUE", 5, 1, 1, 140, esm="TRUE"))]
    return [("g1-surplus", k("{1}", "surplus", "FALSE", "TRUE", 45, 3, 1, 140)),
            ("g1-debt", k("{1}", "debt", "FALSE", "TRUE", 5, 3, 1, 140)),
            ("g2-surplus", k("{2}", "surplus", "FALSE", "TRUE", 45, 2, 2, 620)),
            ("g2-surplus-b3", k("{2}", "surplus", "FALSE", "TRUE", 45, 3, 1, 420)),
            ("g2-debt", k("{2}", "debt", "FALSE", "TRUE", 5, 2, 2, 620)),
            ("g2-debt-b3", k("{2}", "debt", "FALSE", "TRUE", 5, 3, 1, 420)),
            ("g2-generic", k("{2}", "none", "TRUE", "TRUE", 45, 3, 1, 420)),
            ("g2-surplus-notm", k("{2}", "surplus", "FALSE", "FALSE", 45, 2, 1, 420)),
            ("g1-surplus-notm", k("{1}", "surplus", "FALSE", "FALSE", 45, 2, 1, 140)),
            ("g1-debt-notm", k("{1}", "debt", "FALSE", "FALSE", 5, 2, 1, 140)),
            ("g12-surplus", k("{1, 2}", "surplus", "FALSE", "TRUE", 45, 1, 2, 420)),
            ("g12-debt", k("{1, 2}", "debt", "FALSE", "TRUE", 5, 1, 2, 420)),
            ("g2-dist", k("{2}", "dist", "FALSE", "TRUE", 45, 1, 1, 420)),
            ("g1-surplus-esm", k("{1}", "surplus", "FALSE", "TRUE", 45, 2, 1, 140, esm="TRUE")),
            ("g1-debt-esm", k("{1}", "debt", "FALSE", "TRUE", 5, 2, 1, 140, esm="TRUE")),
            ("g12-surplus-esm", k("{1, 2}", "surplus", "FALSE", "TRUE", 45, 1, 1, 420, esm="TRUE")),
            ("g2-surplus-3", k("{2}", "surplus", "FALSE", "TRUE", 35, 2, 1, 420, '{"u1", "u2", "u3"}'))]


def _mc(d, module, name, constants, invariants, constraint, tfile):
    cfg = "%s_%s.cfg" % (module, name)
    with open(os.path.join(d, cfg), "w") as f:
        f.write("SPECIFICATION Spec\nCONSTANTS %s\n" % constants)
        if constraint:
            f.write("CONSTRAINT %s\n" % constraint)
        f.write("INVARIANTS %s\nCHECK_DEADLOCK FALSE\n" % invariants)
    r = vlib.model_check(d, module, cfg, workers=1, tfile=tfile, timeout=1500)
    return dict(config=name, generated=r["generated"], distinct=r["distinct"], wall=round(r["wall"], 1))


def _produce(d, tier, seed):
    vlib.stage_spec(d, ["english"])
    quick = tier == "quick"
    out = {}
    # ---- world A: English auctions
    ta = os.path.join(d, "TA.txt")
    mca = [_mc(d, "MC_English", n, k, ENGLISH_INV, "StateBound", ta) for n, k in _english_cfgs(tier)]
    la = os.path.join(d, "a.ndjson")
    runs, steps = (24, 60) if quick else (250, 100)
    vlib.run_vh(["english", "--world", "A", "--tfile", ta, "--out", la, "--seed", str(seed), "--runs", str(runs), "--steps", str(steps)], timeout=3000)
    tr = vlib.trace_check(d, "Trace_English", "Trace_English.cfg", la, workers=4, timeout=3000)
    out["A"] = dict(mc=mca, fails=tr["fails"], stats=tr["stats"], distinct=tr.get("distinct"), log="a.ndjson")
    # ---- world B: limit bids
    tb = os.path.join(d, "TB.txt")
    kb = 'Bidders = {"u1", "u2"}  DepAmts = {10, 25}  Prems = {2, 5}  MaxDeps = %d  Fund = 60  Emit = TRUE' % (2 if quick else 3)
    kb += "  FillDebt = 0"
    mcb = [_mc(d, "MC_LimitBid", "book", kb, "InvBookClean InvTotal InvNonNeg InvCustody", None, tb)]
    # design-level run with abstract automatic fills (deposits below / equal to / above the auction's remaining debt); not walked
    kf = 'Bidders = {"u1", "u2"}  DepAmts = {10, 25, 40}  Prems = {2, 5}  MaxDeps = 2  Fund = 100  Emit = FALSE  FillDebt = 25'
    mcb.append(_mc(d, "MC_LimitBid", "fills", kf, "InvBookClean InvTotal InvNonNeg", None, None))
    lb = os.path.join(d, "b.ndjson")
    runs, steps = (30, 80) if quick else (250, 120)
    vlib.run_vh(["english", "--world", "B", "--tfile", tb, "--out", lb, "--seed", str(seed), "--runs", str(runs), "--steps", str(steps)], timeout=3000)
    tr = vlib.trace_check(d, "Trace_LimitBid", "Trace_LimitBid.cfg", lb, workers=4, timeout=3000)
    out["B"] = dict(mc=mcb, fails=tr["fails"], stats=tr["stats"], distinct=tr.get("distinct"), log="b.ndjson")
    # ---- world C: lockers + collector
    tc = os.path.join(d, "TC.txt")
    inv = "InvTotals InvLockerCustody InvNonNeg InvBacked"
    if quick:
        kc = [("lockers", 'Users2 = {"u1", "u2"}  AppsOn = {"a1", "a2"}  Amts = {10}  MaxLockers = 2  MaxVaults = 0  Fund = 100  Emit = TRUE'),
              ("vaults", 'Users2 = {"u1", "u2"}  AppsOn = {"a1"}  Amts = {10}  MaxLockers = 1  MaxVaults = 1  Fund = 100  Emit = TRUE')]
    else:
        kc = [("lockers", 'Users2 = {"u1", "u2"}  AppsOn = {"a1", "a2"}  Amts = {10, 25}  MaxLockers = 2  MaxVaults = 0  Fund = 100  Emit = TRUE'),
              ("vaults", 'Users2 = {"u1", "u2"}  AppsOn = {"a1", "a2"}  Amts = {10}  MaxLockers = 1  MaxVaults = 1  Fund = 100  Emit = TRUE')]
    mcc = [_mc(d, "MC_Locker", n, k, inv, None, tc) for n, k in kc]
    lc = os.path.join(d, "c.ndjson")
    runs, steps = (30, 80) if quick else (300, 120)
    vlib.run_vh(["english", "--world", "C", "--tfile", tc, "--out", lc, "--seed", str(seed), "--runs", str(runs), "--steps", str(steps)], timeout=3000)
    tr = vlib.trace_check(d, "Trace_Locker", "Trace_Locker.cfg", lc, workers=4, timeout=3000)
    out["C"] = dict(mc=mcc, fails=tr["fails"], stats=tr["stats"], distinct=tr.get("distinct"), log="c.ndjson")
    for fn in os.listdir(d):  # keep the cache small: logs + result only
        if fn.endswith((".txt", ".tla", ".cfg")) or fn.startswith("md_"):
            p = os.path.join(d, fn)
            shutil.rmtree(p, ignore_errors=True) if os.path.isdir(p) else os.remove(p)
    return out


def family(c):
    """One harness + TLC pass serves C11 and C13 (cached by harness binary, spec, tier, seed)."""
    key = [vlib.sha_file(vlib.BIN), vlib.spec_hash("english"), c.tier, c.seed]
    d, res, cached = vlib.cached("english", key, lambda dd: _produce(dd, c.tier, c.seed))
    vlib.log("[english] family result %s (%s)" % ("from cache" if cached else "computed", d))
    for w in res.values():
        w["fails"] = [tuple(x) for x in w["fails"]]
    return d, res


def sample_nodes(path, want):
    """A few real cases from a log: the first node of each wanted action."""
    out, seen = [], set()
    with open(path) as f:
        for l in f:
            n = json.loads(l)
            if n["a"] in want and n["a"] not in seen and n.get("res", {}).get("ok", True):
                seen.add(n["a"])
                out.append(dict(run=n["run"], a=n["a"], args=n["args"], res=n["res"]))
            if len(seen) == len(want):
                break
    return out


def count_lines(path):
    with open(path) as f:
        return sum(1 for _ in f)


def run(c):
    d, res = family(c)
    A, B = res["A"], res["B"]
    la, lb = os.path.join(d, A["log"]), os.path.join(d, B["log"])
    c.judge(A, la)
    c.judge(B, lb)
    sa, sb = A["stats"], B["stats"]
    need = dict(acceptedBids=sa.get("acceptedBids", 0), outbids=sa.get("outbids", 0), rejectedBids=sa.get("rejectedBids", 0),
                closesGen1=sa.get("closesGen1", 0), closesGen2=sa.get("closesGen2", 0), dueGen1=sa.get("dueGen1", 0), dueGen2=sa.get("dueGen2", 0), noTokenMintHooks=sa.get("noTokenMintHooks", 0),
                shutdownEndsWithBid=sa.get("shutdownEndsWithBid", 0), shutdownEndsNoBid=sa.get("shutdownEndsNoBid", 0),
                shutdownEndsSurplus=sa.get("shutdownEndsSurplus", 0), shutdownEndsDebt=sa.get("shutdownEndsDebt", 0),
                deposits=sb.get("deposits", 0), cancels=sb.get("cancels", 0), withdraws=sb.get("withdraws", 0),
                withdrawOver=sb.get("withdrawOver", 0), withdrawOtherDenom=sb.get("withdrawOtherDenom", 0),
                fillsExact=sb.get("fillsExact", 0), fillsExactSingle=sb.get("fillsExactSingle", 0), fillsOver=sb.get("fillsOver", 0), fillsUnder=sb.get("fillsUnder", 0))
    zero = [k for k, v in need.items() if v == 0]
    if zero and not c.violations:   # vacuity only guards an all-green result: a violation on real-code states is a verdict
        raise vlib.NoVerdict("vacuous run, antecedent counters are 0: %s" % zero)
    c.samples = sample_nodes(la, {"BidV1Surplus", "BidV1Debt", "BidV2", "Block"}) + sample_nodes(lb, {"Deposit", "Withdraw", "Cancel"})
    mcs = A["mc"] + B["mc"]
    na, nb = count_lines(la), count_lines(lb)
    return c.finish("model_checking", dict(
        states=sum(m["distinct"] for m in mcs), transitions=sum(m["generated"] for m in mcs),
        traces_validated_against_impl=na + nb, trace_states=(A.get("distinct") or 0) + (B.get("distinct") or 0),
        model_configs=["%s:%s" % (("MC_English" if m in A["mc"] else "MC_LimitBid"), m["config"]) for m in mcs],
        antecedents=dict(english=sa, limitbid=sb), exhaustive=True,
        rule="every transition of the bounded models MC_English (auction kind x generation x token-mint configs, 2 bidders, 5 boundary bid amounts "
             "per auction state, wrong denomination / unknown auction / wrong expected payment) and MC_LimitBid (2 depositors, 2 premiums, withdraw "
             "amounts below / equal / above / far above the deposit in 3 denominations) is executed once on the real code by a graph walk; "
             "plus seeded behaviours (3 actors, random configurations, both generations interleaved, automatic fills); each log node is a TLC state"),
        assumptions=["generation-1 auction.BeginBlocker is called directly (it is not wired in app.go)",
                     "the generic generation-2 English auction is opened through the exported keeper entry point CreateLockedVault",
                     "token-mint supply of the governance token exceeds every burn (the burn guard CurrentSupply - amount > 0 is never hit)",
                     "the app's emergency shutdown is executed through the esm keeper's status setter (the cool-off end lies beyond every behaviour)"])
