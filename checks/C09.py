"""C09 - served by the harbor family log (checks/_harbor.py)."""
import os, sys
sys.path.insert(0, os.path.dirname(os.path.abspath(__file__)))
import _harbor
import _lend

META = dict(
    category="model_checking",
    technique="explicit TLA+ spec (Harbor/VaultSpec) + TLC trace validation of recorded real-code behaviours and bounded implementation exploration; vault handlers predicted by the spec (conformance)",
    text='TLC evaluates on recorded real steps that every seized vault was unsafe (exact ratio with principal+interest+closing fee at the prices in force) and liquidation was enabled, that seizure moves exactly the recorded collateral and opens exactly one auction for it, and the bounded-response ghost (blocks an unsafe, enabled vault stays unseized <= 2*ceil(len/batch)) over behaviours with batch sizes 1..3 and interleaved create/close.',
    note="Bounded: 3 users, 4 products (two sharing a collateral denom, one stable-mint), small amounts (TLC 32-bit), decimals 1/10/100, oracle-priced debt; interest amounts are environment values taken from the log; V1 liquidation/auction generation and emergency shutdown are not driven by this family. Trusted: projection functions, TLC, bank module.",
    design_ref='4 C09',
)


def run(c):
    # vault side (harbor family: V2 sweep / liquidate messages / Dutch auctions) and borrow side (lend family) of the property
    c.defer = True
    _harbor.run(c, ['seizures', 'sweepSeizures', 'blocks'])
    _lend.run(c)
    return c.finish_all(["harbor", "lend"])
