"""C09 - served by the harbor family log (checks/_harbor.py)."""
import os, sys
sys.path.insert(0, os.path.dirname(os.path.abspath(__file__)))
import _harbor
import _lend

META = dict(
    category="model_checking",
    technique="explicit TLA+ spec (Harbor/VaultSpec/DutchV1) + TLC trace validation of recorded real-code behaviours and bounded implementation exploration; vault handlers predicted by the spec (conformance)",
    text='TLC evaluates on recorded real steps that every seized vault was unsafe (exact ratio with principal+interest+closing fee at the prices in force) and liquidation was enabled, that seizure moves exactly the recorded collateral and opens exactly one auction for it, and the bounded-response ghost (blocks an unsafe, enabled vault stays unseized <= 2*ceil(len/batch)) over behaviours with batch sizes 1..3 and interleaved create/close. Both generations: V1 seizures by MsgLiquidateVault and by the V1 sweep are judged by the same safety formula, C09_SeizeExact_V1 / C09_CustodyMoves_V1 state the hand-over to the auctionV1 account, C09_Live_V1 is the bounded response counted in runs of the V1 begin blocker (MC_Sweep behaviours are replayed alternately on the V2 block sweep and on the V1 sweep), Conf_V1Sweep binds the V1 sweep to spec/sweep/Sweep.tla and Conf_V1Liquidate predicts the seizure exactly (DutchV1.tla).',
    note="Bounded: 3 users, 4 products (two sharing a collateral denom, one stable-mint), small amounts (TLC 32-bit), decimals 1/10/100, oracle-priced debt; interest amounts are environment values taken from the log; both liquidation/auction generations are driven (V2 through blocks and messages; V1 - x/liquidation, x/auction - through MsgLiquidateVault / MsgPlaceDutchBid and, because module.go does not wire its begin blockers, through direct calls of the exported BeginBlockers as environment actions V1Sweep / V1Tick); emergency shutdown is driven too (rarely in ordinary runs, headed for in every sixth run, and in a bounded exploration of the shutdown flows: MsgDepositESM / MsgExecuteESM, the esm begin blocker with price snapshot and redemption set-up after the cool-off, MsgCollateralRedemption, withdrawals in the cool-off, V2 TriggerEsm and the V1 shutdown close-out). Trusted: projection functions, TLC, bank module.",
    design_ref='4 C09',
)


def run(c):
    # vault side (harbor family: V2 sweep / liquidate messages / Dutch auctions) and borrow side (lend family) of the property
    c.defer = True
    _harbor.run(c, ['seizures', 'sweepSeizures', 'blocks', 'v1Seizures', 'v1MsgSeizures', 'v1SweepSeizures', 'v1SafeLiquidateAttempts', 'v1LongWaits'])
    _lend.run(c)
    return c.finish_all(["harbor", "lend"])
