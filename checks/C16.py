"""C16 — determinism: same blocks => byte-identical module state, balances and tx results.
spec/pairs/Replica.tla (replicas applying one shared block sequence; Step must not depend on the environment) ;
MC_Replica (all interleavings; the env-dependent variant must be refuted by TLC) ; `vh pairs replicas` executes one
generated workload covering all DeFi modules on fresh in-process instances (in model-generated interleavings) and in
fresh OS processes with GOMAXPROCS 1/4/16 ; TLC (Trace_Replica) judges per block: per-store digests and tx results."""
import json, os, re
import vlib

META = dict(
    category="model_checking",
    technique="TLA+ spec Replica.tla model-checked by TLC (interleavings of replicas; environment-dependent step refuted); one seeded workload over "
              "all DeFi modules executed on the real application by 2 in-process replicas per model-generated interleaving and 3 fresh OS "
              "processes (GOMAXPROCS 1/4/16); per-block store digests and tx results validated by TLC trace spec",
    text="Replica.tla states determinism over pairs of replicas fed one block sequence. TLC enumerates all interleavings of two replicas (and refutes "
         "the variant whose step function reads the environment); the harness replays the same JSON workload (configuration, vault/locker/lend/"
         "liquidity/rewards/auction messages, price moves, V2 liquidations, Dutch and English bids, epochs, swap-fee conversion at height 150, seeded "
         "random tail) with real blocks (BeginBlock/router/EndBlock/Commit) on independent instances and processes; every replica logs one digest per "
         "module store (+bank), (ok, code, response hash, gas) per message and an order-sensitive digest of the events of every message and of Begin/EndBlock after every block; TLC compares every replica with the reference at "
         "every height. In addition every block that carries messages or follows a long gap is executed 8 (thorough: 16) times from the same "
         "committed state on cache branches and the executions are compared with each other (state, results incl. gas of rejected multi-fault "
         "messages, events): rarely varying code (1 execution in 8) is exercised tens of times per workload. The workload contains pool-less "
         "order books with same-price groups of very different order sizes and zero-share orders, multi-fault rejected messages, the emergency "
         "controls and block gaps of more than two epochs. Sampled over seeds, exhaustive over the bounded interleavings.",
    note="Trusted: TLC/Json module, SHA-256 store dumps via the app's store keys, Go's per-process map randomisation as the source of "
         "iteration-order variation (a nondeterministic map range shows up with probability 1-2^-k over k replicas/blocks, not with certainty). "
         "Wall clock never enters headers; time.Now() uses under x/ and app/ are listed as information.",
    design_ref="4 C16",
)

NEED_TAGS = ["esm.killswitch", "esm.execute", "esm.redeem", "liquidity.limit.dust", "vault.interest", "liquidity.limit", "liquidity.market", "liquidity.mm", "liquidity.depositfarm", "rewards.gauge", "vault.create", "locker.create",
             "lend.borrow", "aucv2.bid.dutch", "aucv2.bid.english", "aucv2.limitbid", "liqv2.internal", "rewards.extlocker"]
NEED_COVER = dict(gaugesDistributed=1, maxActiveFarmersInAPool=3, pairsMatched=2, feeConversions=1, lockedVaultsV2=2, bidsV2=3, swapFeeGaugeTriggers=1,
                  cancelAllMultiPair=5, multiPoolBatches=8, events=1000,
                  dustBatches=5, multiFaultRejections=20, acceptedListMessages=8, guardedRejections=3, longGaps=2, rerunBlocks=20)


def time_now_uses():
    out = []
    for top in ("x", "app"):
        for root, _, files in os.walk(os.path.join(vlib.REPO, top)):
            for fn in files:
                if fn.endswith(".go") and not fn.endswith("_test.go"):
                    p = os.path.join(root, fn)
                    try:
                        for n, l in enumerate(open(p, errors="ignore"), 1):
                            if "time.Now()" in l:
                                out.append("%s:%d" % (os.path.relpath(p, vlib.REPO), n))
                    except OSError:
                        pass
    return sorted(out)


def run(c):
    c.stage("pairs")
    quick = c.tier == "quick"
    nblocks = 3 if quick else 4
    cfg = "MC_Replica_run.cfg"
    with open(os.path.join(c.wd, cfg), "w") as f:
        f.write('SPECIFICATION Spec\nCONSTANTS Replicas = {"a", "b"}  NBlocks = %d  Env = {0}  EnvDependent = FALSE  Emit = TRUE\n'
                'INVARIANT C16_Model\nCHECK_DEADLOCK FALSE\n' % nblocks)
    tfile = os.path.join(c.wd, "T.txt")
    mc = vlib.model_check(c.wd, "MC_Replica", cfg, workers=1, tfile=tfile, timeout=600)
    # vacuity of the model property: a step that reads the environment must be refuted
    env = vlib.run_tlc(c.wd, "MC_Replica", "MC_Replica_env.cfg", workers=1, timeout=600)
    if env.get("ok") or "Invariant C16_Model is violated" not in env["out"]:
        raise vlib.NoVerdict("MC_Replica_env: the environment-dependent step was not refuted (model property vacuous)")
    logf = os.path.join(c.wd, "replica.ndjson")
    tail, pad, nsched = (20, 150, 2) if quick else (300, 450, 8)
    vlib.run_vh(["pairs", "replicas", "--seed", str(c.seed), "--out", logf, "--work", c.wd, "--tail", str(tail), "--pad", str(pad),
                 "--schedules", tfile, "--nsched", str(nsched), "--procs", "1,4,16", "--reruns", str(8 if quick else 16)], timeout=1500 if quick else 3000)
    tr = vlib.trace_check(c.wd, "Trace_Replica", "Trace_Replica.cfg", logf, workers=4, timeout=1200)
    c.judge(tr, logf)
    nodes = vlib.read_log(logf)
    meta = json.load(open(os.path.join(c.wd, "workload_tags.json")))
    st = tr["stats"]
    missing = [t for t in NEED_TAGS if meta["tags"].get(t, 0) == 0]
    low = ["%s=%d<%d" % (k, meta["cover"].get(k, 0), v) for k, v in NEED_COVER.items() if meta["cover"].get(k, 0) < v]
    # vacuity control (not applied when TLC already found a violation on real-code states: a changed tree may also change what the workload reaches)
    if not c.violations and (missing or low or st.get("replicas", 0) < 2 + 2 * nsched or st.get("compared", 0) == 0 or st.get("okTxs", 0) < 100 \
            or st.get("reruns", 0) < 100 or st.get("rerunFailedTxs", 0) < 10):
        raise vlib.NoVerdict("vacuous run: missing successful message kinds %s, low coverage %s, stats %s" % (missing, low, st))
    def slim(n):
        n = dict(n)
        n["st"] = dict(n["st"], txs=n["st"]["txs"][:3])
        return n
    blocks = [n for n in nodes if n["a"] == "Block"]
    c.samples = [nodes[0], slim(blocks[1]), slim(blocks[len(blocks) // 2]), slim(blocks[-1])]
    return c.finish("model_checking", dict(
        states=mc["distinct"], transitions=mc["generated"], traces_validated_against_impl=st.get("replicas", 0),
        interleavings_generated=mc.get("transitions_dumped"), interleavings_executed=nsched,
        trace_states=tr.get("distinct"), antecedents=st, workload=meta["cover"], ok_messages_by_kind=meta["tags"],
        model_env_dependent_step_refuted=True, time_now_uses_information_only=time_now_uses(),
        exhaustive=False,
        rule="one seeded workload (scripted pass through all DeFi modules + %d random blocks, padded to height %d) replayed from the same JSON on "
             "2 in-process replicas per interleaving (%d of the %d interleavings TLC generated for 2 replicas x %d segments) and in 3 fresh OS "
             "processes (GOMAXPROCS 1,4,16); every replica/height is a TLC state compared with the reference replica"
             % (tail, pad, nsched, mc.get("transitions_dumped", 0), nblocks)),
        assumptions=["band oracle results are stubbed through the keepers' setters (env.* steps are part of the shared block sequence)",
                     "signature / fee ante handlers are out of scope: messages are routed with baseapp's runMsgs atomicity"])
