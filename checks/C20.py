"""C20 — genesis export + re-import preserves every live position, custody record, parameter, price and id counter;
continuations behave identically.
spec/pairs/Genesis.tla (components with live ids + counter; Export/Import with the code's counter-restoration variants;
RoundTrip must be a stuttering step of the observation function; continuations must give equal results and new ids) ;
MC_Genesis (exhaustive open/close histories; ideal import satisfies the property, the code's variants are refuted) ;
`vh pairs roundtrip` executes (a) every model history on the real vault / locker / lend / liquidity modules and (b) seeded
workloads over all DeFi modules with an export + InitChain of a fresh app at many heights, recording per observation part
the answers of both chains and per continuation aspect the results, balances and new ids ; TLC (Trace_Genesis) judges."""
import json, os
import vlib

META = dict(
    category="model_checking",
    technique="TLA+ spec Genesis.tla model-checked by TLC (open/close histories x round trip x continuation; counter-restoration variants of the code "
              "refuted); every model history executed on the real modules; seeded all-module workloads round-tripped through "
              "ExportAppStateAndValidators + InitChain at many heights; observations and continuations of both chains validated by TLC trace spec",
    text="Genesis.tla states the property over pairs (orig, copy): RoundTrip = Import(Export(orig)) is a stuttering step of the observation function and "
         "every continuation gives equal results, balances and new ids. TLC checks it on the bounded model and generates the histories "
         "(open, close-highest, close-lowest, round trip, continuation) that are executed on the real vault, locker, lend and liquidity-order handlers "
         "(conformance of the id allocation: Conf_Open / Conf_Close). Seeded workloads over all DeFi modules are exported after Commit at many "
         "heights, a fresh application is initialised from the export, and the observation function (every public read entry point of the 14 module "
         "keepers over an id grid, bank balances and supply: ~250 parts) is answered by both chains; 7 continuation scripts (blocks only, vault, "
         "locker, lend, order, bid, gauge) run on forks of both. TLC judges one formula per component plus three continuation formulas; the per-store "
         "KV prefix diff is diagnostic only. Exhaustive for the bounded histories, sampled for workloads.",
    note="Trusted: TLC/Json module, the reflective enumeration of keeper getters (ids 0..12, pairs 0..4 x 0..10), SHA-256 of canonical JSON answers. "
         "The band-oracle module is treated as the chain's IBC environment: its stubbed validation verdict is re-established on the copy. Closed-position "
         "history getters are recorded but not judged. Continuations run with the exported Begin/EndBlocker on cache branches (forks), not committed.",
    design_ref="4 C20",
)

CODE_MODES = ["maxlive", "count", "zero"]


def run(c):
    c.stage("pairs")
    quick = c.tier == "quick"
    pre, cont = (3, 1) if quick else (4, 2)
    cfg = "MC_Genesis_run.cfg"
    with open(os.path.join(c.wd, cfg), "w") as f:
        f.write('SPECIFICATION Spec\nCONSTANTS MaxId = 6  Mode = "exact"  PreDepth = %d  ContDepth = %d  Emit = TRUE\n'
                'INVARIANTS RoundTripStutters ContinuationSame NoOverwrite\nCHECK_DEADLOCK FALSE\n' % (pre, cont))
    tfile = os.path.join(c.wd, "T.txt")
    mc = vlib.model_check(c.wd, "MC_Genesis", cfg, workers=1, tfile=tfile, timeout=900)
    # design-level result: the ways the code restores counters do not satisfy the property (TLC must refute each)
    refuted = {}
    for m in CODE_MODES:
        cf = "MC_Genesis_%s.cfg" % m
        with open(os.path.join(c.wd, cf), "w") as f:
            f.write('SPECIFICATION Spec\nCONSTANTS MaxId = 6  Mode = "%s"  PreDepth = 3  ContDepth = 1  Emit = FALSE\n'
                    'INVARIANTS RoundTripStutters ContinuationSame NoOverwrite\nCHECK_DEADLOCK FALSE\n' % m)
        r = vlib.run_tlc(c.wd, "MC_Genesis", cf, workers=1, timeout=600)
        viol = [i for i in ("RoundTripStutters", "ContinuationSame", "NoOverwrite") if "Invariant %s is violated" % i in r["out"]]
        if r.get("ok") or not viol:
            raise vlib.NoVerdict("MC_Genesis mode %s was not refuted (model property vacuous)" % m)
        refuted[m] = viol[0]
    logf = os.path.join(c.wd, "genesis.ndjson")
    every, tail, nwl = (6, 18, 1) if quick else (3, 200, 3)
    out = vlib.run_vh(["pairs", "roundtrip", "--seed", str(c.seed), "--out", logf, "--behaviours", tfile, "--every", str(every), "--tail", str(tail),
                       "--workloads", str(nwl)],
                      timeout=1500 if quick else 3000)
    tr = vlib.trace_check(c.wd, "Trace_Genesis", "Trace_Genesis.cfg", logf, workers=4, timeout=2400, heap="6g")
    c.judge(tr, logf)
    nodes = vlib.read_log(logf)
    st = tr["stats"]
    wcover = json.load(open(logf + ".cover.json"))
    # vacuity of the workload side: emergency-control state, fractional trackers and extreme parameters must exist at export points
    need = dict(killSwitchRecords=1, esmStatusRecords=1, esmUserDeposits=1, esmCoolOffData=1, guardedRejections=3, vaultInterestCalcs=3,
                lockerRewardTrackers=1, extremeParamSets=2, longGaps=1, acceptedListMessages=4)
    low = ["%s=%d<%d" % (k, wcover.get(k, 0), v) for k, v in need.items() if wcover.get(k, 0) < v]
    vit = sum(1 for n in nodes if n["a"] == "Part" and n["args"]["comp"] == "Rewards" and n["args"]["part"] == "GetVaultInterestTracker" and n["st"]["on"] > 0)
    if st.get("idSpacesSharedOutOfOrder", 0) == 0 or st.get("adminRejected", 0) < 20 or st.get("adminAccepted", 0) < 5 or st.get("idSpacesLive", 0) < 50:
        low.append("id spaces / admin continuation: %s" % {k: st.get(k, 0) for k in ("idSpacesSharedOutOfOrder", "adminRejected", "adminAccepted", "idSpacesLive")})
    if not c.violations and (low or vit == 0):
        raise vlib.NoVerdict("vacuous workload: %s, round-trip points with vault interest trackers: %d" % (low, vit))
    if not c.violations and (st.get("points", 0) < 5 or st.get("nonEmptyParts", 0) < 100 or st.get("contTxOk", 0) < 10 or st.get("contIds", 0) == 0
            or st.get("absCloses", 0) == 0 or st.get("absRT", 0) == 0 or st.get("absCont", 0) == 0 or st.get("halts", 0) > 0):
        raise vlib.NoVerdict("vacuous run: %s" % st)
    kv = {}
    for n in nodes:
        if n["a"] == "KV":
            k = kv.setdefault(n["args"]["store"], dict(lost=set(), extra=set(), changed=set()))
            for f in ("lost", "extra", "changed"):
                k[f].update(n["st"][f])
    kvs = {s: {f: sorted(v) for f, v in d.items()} for s, d in sorted(kv.items())}
    failing_parts = sorted({"%s.%s" % (n["args"]["comp"], n["args"]["part"]) for n in nodes if n["a"] == "Part" and n["st"]["o"] != n["st"]["c"]})
    # representation-only: stores with a KV difference but no differing observation part of that component
    comp_of_store = {n["st"]["store"]: n["args"]["comp"] for n in nodes if n["a"] == "Part"}
    rep_only = sorted(s for s in kvs if s in comp_of_store and not any(p.startswith(comp_of_store[s] + ".") for p in failing_parts))
    pick = lambda a, pred=lambda n: True: next((n for n in nodes if n["a"] == a and pred(n)), None)
    c.samples = [x for x in [pick("RT"), pick("Part", lambda n: n["st"]["on"] > 0), pick("Part", lambda n: n["st"]["o"] != n["st"]["c"]),
                             pick("ContTx"), pick("AbsCont")] if x]
    return c.finish("model_checking", dict(
        states=mc["distinct"], transitions=mc["generated"], traces_validated_against_impl=st.get("points", 0),
        model_histories_executed=mc.get("transitions_dumped"), model_counter_modes_refuted=refuted,
        trace_states=tr.get("distinct"), antecedents=st, kv_prefix_differences=kvs, differing_observation_parts=failing_parts,
        representation_only_stores=rep_only, workload=wcover, record_fields_never_non_default=json.load(open(logf + ".neverset.json")), points_with_vault_interest_trackers=vit, harness_summary=out.strip().splitlines()[-1],
        exhaustive=False,
        rule="every history of the bounded model (<= %d operations before the round trip, <= %d after) executed on 4 real components; "
             "%d seeded workload(s) (scripted pass through all DeFi modules + %d random blocks) exported and re-imported after every %d-th block, "
             "each point followed by 7 continuation scripts on forks of both chains; every part / continuation step is a TLC state"
             % (pre, cont, nwl, tail, every)),
        assumptions=["band-oracle state is IBC environment: the stubbed oracle verdict is re-established on the re-imported chain",
                     "history of closed positions (auction / locked-vault history, reserve-funding log) is recorded but not judged",
                     "gas is not compared in C20 continuations (representation-dependent); ok / code / response data are"])
