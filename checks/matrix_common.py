"""Shared pipeline of the `matrix` family (C12 + C14): one MC_Matrix run, one `vh matrix` pass, one Trace_Matrix run.
Both properties are judged from the same recorded log (cached per harness binary / spec / tier / seed)."""
import hashlib, json, os, shutil
import vlib

FAM = "matrix"


def source_hash():
    """Key of the shared log: content hash of the Go sources that make up the harness binary (comdex app/, x/, types/, go.mod
    and the harness itself). The binary's own hash is not stable across the two property runs: the Go toolchain stamps the
    git 'modified' flag of the enclosing work tree into it, and writing evidence/<id>.json flips that flag."""
    h = hashlib.sha256()
    roots = [os.path.join(vlib.REPO, d) for d in ("app", "x", "types")] + [os.path.join(vlib.VERIF, "harness", d) for d in ("sim", "cmd", "fam/matrix")]
    for root in roots:
        for dp, dn, fn in sorted(os.walk(root)):
            dn.sort()
            for f in sorted(fn):
                if f.endswith(".go") and not f.endswith("_test.go"):
                    p = os.path.join(dp, f)
                    h.update(os.path.relpath(p, root).encode())
                    h.update(vlib.sha_file(p).encode())
    h.update(vlib.sha_file(os.path.join(vlib.REPO, "go.mod")).encode())
    return h.hexdigest()[:24]


def produce(c, binhash=None):
    binhash = source_hash()
    quick = c.tier == "quick"
    states, steps = (8, 16) if quick else (80, 40)

    def producer(d):
        wd = os.path.join(d, "wd")
        vlib.stage_spec(wd, [FAM])
        tfile = os.path.join(d, "T.txt")
        mc = vlib.model_check(wd, "MC_Matrix", "MC_Matrix.cfg", workers=1, tfile=tfile, timeout=900)
        logf = os.path.join(d, "matrix.ndjson")
        out = vlib.run_vh(["matrix", "--cells", tfile, "--out", logf, "--seed", str(c.seed), "--states", str(states), "--steps", str(steps)],
                          timeout=1500 if quick else 3000)
        tr = vlib.trace_check(wd, "Trace_Matrix", "Trace_Matrix.cfg", logf, workers=4, timeout=1500 if quick else 3000)
        shutil.rmtree(wd, ignore_errors=True)
        return dict(mc=mc, fails=[list(x) for x in tr["fails"]], stats=tr["stats"], distinct=tr.get("distinct"), states=states, steps=steps,
                    vh=out.strip().splitlines()[-1] if out.strip() else "")

    d, res, cached = vlib.cached(FAM, [binhash, vlib.spec_hash(FAM), c.tier, c.seed], producer)
    return os.path.join(d, "matrix.ndjson"), res, cached


def need(st, keys):
    zero = [k for k in keys if st.get(k, 0) == 0]
    if zero:
        raise vlib.NoVerdict("vacuous run, antecedent counters are 0: %s (stats %s)" % (zero, st))


def need_eq(st, pairs):
    bad = [(a, st.get(a), b, st.get(b)) for a, b in pairs if st.get(a) != st.get(b)]
    if bad:
        raise vlib.NoVerdict("non-vacuity witnesses incomplete: %s" % bad)


def samples(logf, kinds):
    out, seen = [], set()
    for n in vlib.read_log(logf):
        if n["a"] in kinds and n["a"] not in seen:
            seen.add(n["a"])
            out.append(n)
        if n["a"] in kinds and len(out) < 6 and not n["res"].get("ok", True) and (n["a"], "rej") not in seen:
            seen.add((n["a"], "rej"))
            out.append(n)
    return out
