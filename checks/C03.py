"""C03 - served by the harbor family log (checks/_harbor.py)."""
import os, sys
sys.path.insert(0, os.path.dirname(os.path.abspath(__file__)))
import _harbor

META = dict(
    category="model_checking",
    technique="explicit TLA+ spec (Harbor/VaultSpec/DutchV1) + TLC trace validation of recorded real-code behaviours and bounded implementation exploration; vault handlers predicted by the spec (conformance)",
    text='TLC evaluates the exact rational collateralisation inequality (cross-multiplied, no rounding) on every successful create/draw/withdraw/deposit-and-draw, the debt floor on every open vault after every step, the ceiling on the sum of open principals per product, and rejection whenever a required price is inactive; drivers generate amounts at the boundary -1/0/+1. The ratio requirement is judged outside emergency shutdown only (the statement); floor and ceiling are judged always, in step form (the step that sets a principal / raises the outstanding principal); withdrawals in the cool-off are predicted by VaultSpec (ratio >= 1 on the principal at the snapshot prices) through Conf_Vault.',
    note="Bounded: 3 users, 4 products (two sharing a collateral denom, one stable-mint), small amounts (TLC 32-bit), decimals 1/10/100, oracle-priced debt; interest amounts are environment values taken from the log; both liquidation/auction generations are driven (V2 through blocks and messages; V1 - x/liquidation, x/auction - through MsgLiquidateVault / MsgPlaceDutchBid and, because module.go does not wire its begin blockers, through direct calls of the exported BeginBlockers as environment actions V1Sweep / V1Tick); emergency shutdown is driven too (rarely in ordinary runs, headed for in every sixth run, and in a bounded exploration of the shutdown flows: MsgDepositESM / MsgExecuteESM, the esm begin blocker with price snapshot and redemption set-up after the cool-off, MsgCollateralRedemption, withdrawals in the cool-off, V2 TriggerEsm and the V1 shutdown close-out). Trusted: projection functions, TLC, bank module.",
    design_ref='4 C03',
)


def run(c):
    return _harbor.run(c, ['okRiskOps', 'rejectedRisk', 'inactivePriceAttempts', 'esmCoolOffWithdrawals', 'esmRejectedMints'])
