"""C19 — incentive payouts never exceed their funding and follow farmed share.
spec/gauge/Gauge.tla (one text over an abstract algebra of naturals; GaugeInt = TLC integers, GaugeLimbs = real-size amounts);
MC_Split (exhaustive split table) ; MC_Gauge (bounded gauge lifecycles incl. the swap-fee gauges of the pools, fee arrival and
governance changes of the fee distribution denom) ; every model transition is executed on the real
x/rewards + x/liquidity code (split vectors; walk of the model's transition graph on cache branches of the real app) ;
seeded multi-gauge / multi-pool / multi-farmer behaviours incl. external reward programs ; Trace_Gauge judges every recorded state."""
import os
import vlib

META = dict(
    category="model_checking",
    technique="TLA+ spec Gauge.tla model-checked by TLC (split table exhaustively, bounded gauge lifecycles exhaustively); every model "
              "transition replayed on the real code (graph walk on nested cache contexts); recorded behaviours of the real code "
              "(model walk + seeded random drivers with real-size amounts) judged by the TLC trace spec",
    text="Gauge.tla transcribes SplitTotalAmountPerEpoch, the epoch clock (TriggerAndUpdateEpochInfos incl. the skipped-epoch branch), "
         "MsgCreateGauge validation, the per-gauge epoch step of created gauges and of the swap-fee gauges every pool creation registers "
         "(deposit = fees pulled from the pair's collector in the app's current SwapFeeDistrDenom minus the burn share; deposit and distributed "
         "total carry their own denoms, so a governance change of the distribution denom restarts both per denom). The farmed value used for "
         "the share (single pool; master/child = min of master value and aggregated child value, cross-multiplied rationals) is computed by the "
         "spec from recorded pool reserves, prices, decimals and farmed amounts. Payouts are taken from the log (balance deltas of every "
         "account) and judged by the laws: split sums to the deposit; what leaves custody in an epoch <= that epoch's allocation (swap-fee "
         "gauge: its deposit); distributed <= deposit; payout*total*10^12 <= alloc*value*(10^12+1) per farmer (the bound as stated); custody >= "
         "undistributed remainders of active gauges (swap-fee gauge: its deposit, in the deposit's denom) + available of external programs per "
         "denom (root absolutely, every step in delta form). Conformance predicts the code exactly: payout = floor(alloc*value/total), gauge "
         "books, epoch clock, fee pull and burn. Exhaustive for the bounded models, sampled beyond them.",
    note="Trusted: TLC + Json module; the projection (keeper getters, bank balances); farmed amounts are valued with amm.Withdraw at zero fee "
         "(the spec only checks that they do not exceed the proportional share of the reserves). Asset decimals are powers of ten. "
         "Payout attribution by balance deltas is only done when a gauge is the only one whose books show a payout in that denom in the block. "
         "In the model walk a farm message is followed by the real queue-activation routine run with a shifted clock; the random drivers let "
         "the queue run naturally. Governance changes (SwapFeeDistrDenom, SwapFeeBurnRate) are written with the liquidity keeper's "
         "SetGenericParams; swap fees are sent to the pair's collector address (no swaps are executed). "
         "External reward programs: locker programs (real locker messages) and lend programs are exercised; the lend positions the lend programs pay to are "
         "fixture records written with the lend keeper's setters (app with kill switch on, so the unwrapped V2 borrow-liquidation sweep ignores them); "
         "vault / stable-mint programs only have their books projected (none is created).",
    design_ref="4 C19",
)

FORMULAS = ["C19_SplitSum", "C19_Cumulative", "C19_CustodyRoot", "C19_CustodyDelta", "C19_EpochCap", "C19_OnlyInEpoch", "C19_ProRata"]


def _cfg(path, name, nu, maxfarm, maxg, tpl, steps, pools, amts, modes, emit, swap=None, children=False):
    sw = "WithSwap = FALSE  FeeAmts = {}  FeeBudget = 0  FeeDenoms = {}  GovBudget = 0"
    if swap:
        sw = "WithSwap = TRUE  FeeAmts = %s  FeeBudget = %d  FeeDenoms = {101, 102}  GovBudget = %d" % swap
    # children: four pools with assets of their own, every farmer holds a master position from the start, child positions and
    # the prices of the child pools' pairs are arranged (all combinations) before the gauge is created
    sw += ("  NP = 4  ChildPricePools = {2, 3, 4}  SetupFirst = TRUE  PreFarm = {1}" if children
           else "  NP = 2  ChildPricePools = {}  SetupFirst = FALSE  PreFarm = {}")
    with open(os.path.join(path, name), "w") as f:
        f.write("SPECIFICATION Spec\nCONSTANTS NU = %d  MaxFarm = %d  MaxGauges = %d  Templates <- %s  Steps = %s  D = 2  FarmPools = %s  "
                "Amts = %s  Modes = %s  Emit = %s\n  %s\nINVARIANTS Cumulative Custody SplitExact Finished\nCHECK_DEADLOCK FALSE\n"
                % (nu, maxfarm, maxg, tpl, steps, pools, amts, modes, "TRUE" if emit else "FALSE", sw))


def run(c):
    c.stage("gauge")
    quick = c.tier == "quick"
    wd = c.wd
    gen = dist = 0
    # (a) split table, exhaustive
    with open(os.path.join(wd, "MC_Split_run.cfg"), "w") as f:
        f.write("SPECIFICATION Spec\nCONSTANTS MaxDep = %d  MaxEp = %d\nINVARIANTS SumExact TooSmall Shape AllocAgree\nCHECK_DEADLOCK FALSE\n"
                % ((60, 12) if quick else (300, 40)))
    tsplit = os.path.join(wd, "T_split.txt")
    r = vlib.model_check(wd, "MC_Split", "MC_Split_run.cfg", workers=1, tfile=tsplit, timeout=900)
    nsplit = r.get("transitions_dumped", 0)
    gen += r["generated"]
    dist += r["distinct"]
    # (b) gauge lifecycles, exhaustive bounded models; the dumps are walked on the real application
    Q, OFF = '{"q", "b", "off"}', '{"q", "off"}'
    # last field: swap-fee gauges in the model (fee amounts, number of fee arrivals, number of denom changes); None = created gauges only
    models = [("single", 2, 2, 1, "TplSingle", "{1, 3, 5}", "{1}", "{1, 2}", Q, None),
              ("master", 2, 1, 1, "TplMaster", "{1, 3, 5}", "{1, 2}", "{1}", OFF, None),
              ("swapfee", 1, 1, 1, "TplFee", "{3}", "{1}", "{1}", '{"q"}', ("{3}", 1, 1)),
              ("children", 2, 1, 1, "TplChildren1", "{3}", "{2, 3, 4}", "{1}", '{"q"}', "children")]
    if not quick:
        models += [("single3", 3, 2, 1, "TplSingle", "{1, 3, 5}", "{1}", "{1, 2}", Q, None),
                   ("masterall", 2, 1, 1, "TplMasterAll", "{1, 3, 5}", "{1, 2}", "{1}", OFF, None),
                   ("twoA", 1, 1, 2, "TplTwo", "{3}", "{1, 2}", "{1}", '{"q"}', None),
                   ("twoB", 2, 1, 2, "TplTwo", "{3}", "{1}", "{1}", '{"q"}', None),
                   ("swapfee2", 2, 1, 1, "TplFee", "{3}", "{1}", "{1}", '{"q"}', ("{3}", 1, 1)),
                   ("childrenall", 2, 1, 1, "TplChildren", "{3}", "{2, 3, 4}", "{1}", '{"q"}', "children")]
    graphs, mstats = [], {}
    for (name, nu, mf, mg, tpl, steps, pools, amts, modes, swap) in models:
        cfg = "MC_Gauge_%s_run.cfg" % name
        _cfg(wd, cfg, nu, mf, mg, tpl, steps, pools, amts, modes, True, None if swap == "children" else swap, swap == "children")
        tf = os.path.join(wd, "G_%s.txt" % name)
        r = vlib.model_check(wd, "MC_Gauge", cfg, workers=1, tfile=tf, timeout=2400)
        gen += r["generated"]
        dist += r["distinct"]
        mstats[name] = dict(generated=r["generated"], distinct=r["distinct"], depth=r.get("depth"), wall=round(r["wall"], 1))
        if r.get("transitions_dumped", 0) != r["generated"] - 1:
            raise vlib.NoVerdict("transition dump of %s incomplete: %s lines for %s generated states" % (name, r.get("transitions_dumped"), r["generated"]))
        graphs.append("%s=%s" % (name, tf))
    if not quick:
        # design-level only (no walk): the larger two-gauge model
        _cfg(wd, "MC_Gauge_big_run.cfg", 2, 2, 2, "TplTwo", "{1, 3, 5}", "{1, 2}", "{1, 2}", Q, False)
        r = vlib.model_check(wd, "MC_Gauge", "MC_Gauge_big_run.cfg", workers=4, timeout=2400)
        gen += r["generated"]
        dist += r["distinct"]
        mstats["two-gauges-design-only"] = dict(generated=r["generated"], distinct=r["distinct"], depth=r.get("depth"), wall=round(r["wall"], 1))
    # harness + trace runs, in parts (each part is a self-contained tree log judged by one TLC run)
    if quick:
        parts = [dict(vectors=tsplit, graphs=graphs, first=0, runs=24, steps=90, nbig=300)]
    else:
        parts = [dict(vectors=tsplit, graphs=graphs[:4], first=0, runs=0, steps=0, nbig=3000),
                 dict(vectors="", graphs=graphs[4:5], first=0, runs=0, steps=0, nbig=0),
                 dict(vectors="", graphs=graphs[5:6], first=0, runs=0, steps=0, nbig=0),
                 dict(vectors="", graphs=graphs[8:9], first=0, runs=0, steps=0, nbig=0),
                 dict(vectors="", graphs=graphs[9:10], first=0, runs=0, steps=0, nbig=0),
                 dict(vectors="", graphs=graphs[6:8], first=0, runs=100, steps=140, nbig=0),
                 dict(vectors="", graphs=[], first=100, runs=200, steps=140, nbig=0)]
    st, nnodes, outs, tstates = {}, 0, [], 0
    smp = [None, None, None]
    for i, pt in enumerate(parts):
        logf = os.path.join(wd, "gauge%d.ndjson" % i)
        args = ["gauge", "--out", logf, "--seed", str(c.seed), "--first", str(pt["first"]), "--runs", str(pt["runs"]),
                "--steps", str(pt["steps"]), "--bigsplits", str(pt["nbig"])]
        if pt["vectors"]:
            args += ["--vectors", pt["vectors"]]
        if pt["graphs"]:
            args += ["--graph", ",".join(pt["graphs"])]
        out = vlib.run_vh(args, timeout=3000)
        outs.append(out.strip().splitlines()[-1] if out.strip() else "")
        tr = vlib.trace_check(wd, "Trace_Gauge", "Trace_Gauge.cfg", logf, workers=4, timeout=3000)
        c.judge(tr, logf)
        for k, v in tr["stats"].items():
            st[k] = st.get(k, 0) + v
        tstates += tr.get("distinct", 0)
        nodes = vlib.read_log(logf)
        nnodes += len(nodes)
        # samples: a split vector, a model-walk epoch with payouts, a random-driver epoch with real-size amounts
        def pick(pred):
            for n in nodes:
                if pred(n):
                    return n
            return None
        def paid_block(n, prefix):
            if n["a"] != "BeginBlock" or not n["run"].startswith(prefix):
                return False
            p = nodes[n["parent"] - 1]
            return any(g["kind"] == "reg" and g2["trig"] > g["trig"] and g2["dist"] != g["dist"] for g, g2 in zip(p["st"]["gauges"], n["st"]["gauges"]))
        cand = [pick(lambda n: n["a"] == "Split" and n["run"] == "vec" and n["args"]["n"] > 3 and len(n["st"]["split"]) > 0),
                pick(lambda n: paid_block(n, "walk:master")), pick(lambda n: paid_block(n, "drive") and n["run"].endswith("big"))]
        smp = [a or b for a, b in zip(smp, cand)]
        del nodes
        os.remove(logf)
        lnk = os.path.join(wd, "log.ndjson")   # vlib.trace_check only replaces the link when its target still exists
        if os.path.lexists(lnk):
            os.remove(lnk)
    c.samples = [dict(id=s["id"], run=s["run"], a=s["a"], args=s["args"], parent=s["parent"],
                      st=dict(s["st"], users=s["st"].get("users", [])[:2]) if "users" in s["st"] else s["st"]) for s in smp if s]
    need = ["masterManyChildren", "unpricedChildBeforePaid", "twoUnpricedChildren", "swapDenomSwitch", "swapNewDenomPaid", "swapProRataPaid", "swapBurnEpochs", "swapSharedDenomPaid", "govDenomChanges", "multiPoolSwapPaid", "feePullFailedBooked",
            "splits", "bigSplits", "gaugeEpochs", "proRataPaid", "masterPaid", "skippedEpochBlocks", "created", "rejected", "gaugesEnded",
            "noPriceEpochs", "swapFeePaid", "extPayBlocks", "lendPayBlocks", "bigStates", "roots"]
    zero = [k for k in need if st.get(k, 0) == 0]
    if zero and not c.violations:   # a violation on real-code states is a verdict even if other antecedents were not exercised
        raise vlib.NoVerdict("vacuous run, antecedent counters are 0: %s (%s)" % (zero, st))
    return c.finish("model_checking", dict(
        states=dist, transitions=gen, traces_validated_against_impl=nnodes,
        model_runs=mstats, split_vectors=nsplit, trace_states=tstates, antecedents=st,
        harness=outs,
        exhaustive=True,
        rule="(a) every (deposit, epochs) pair of the split table is one vector on the real SplitTotalAmountPerEpoch (+ seeded real-size vectors up to 2^64-1); "
             "(b) every transition of the bounded MC_Gauge models (create/reject gauge, farm/unfarm by 1-3 farmers, price quote/base/off, time steps "
             "below, at and beyond two epoch durations, master/child gauges; model 'swapfee': the pools' swap-fee gauges, fee arrival, change of the "
             "distribution denom, a created gauge paid in a fee denom; model 'children': a master gauge over three child pools, every combination of "
             "priced / unpriced child pairs and of the farmers' child positions) is executed once on the real application by walking the model's "
             "transition graph on nested cache contexts; (c) seeded behaviours: up to ~12 gauges over 3 pools, 4 farmers, own and shared reward denoms, "
             "real-size amounts (6/8/18 decimals), natural queue activation, price loss/recovery, reserve donations, swap-fee gauges with fees arriving in the "
             "current / a stale distribution denom, governance changes of SwapFeeDistrDenom and SwapFeeBurnRate, a ranged pool sharing pool 1's pair "
             "(one fee collector for two gauges) in 3 of 8 runs - these open with a directed sequence: both pools farmed, fees collected and paid, one "
             "oracle price of the pair lost for two epochs -, five pools (two with assets of their own; whole pools losing both prices; master gauges "
             "with the default or a random selection / order of child pools) in 3 of 8 runs, gauges created in the fee denoms, locker reward "
             "programs, lend (borrower) reward programs paid in a priced asset that gauges also use. Every recorded state is a TLC state of Trace_Gauge."),
        assumptions=["asset decimals are powers of ten (exact sdk.Dec valuation)",
                     "per-farmer payouts are attributed by balance deltas only when the gauge is the only payer of its denom in that block "
                     "(aggregate laws are judged always)",
                     "deposits of created gauges <= 10^18 (SplitTotalAmountPerEpoch takes the deposit as Uint64())",
                     "conformance of swap-fee gauges is predicted for pairs with one pool (the value-weighted split of a collector between several pools is "
                     "not transcribed; the C19 laws are judged for them too); swap fees arrive by bank transfer to the collector",
                     "external programs: locker and lend programs run (lend positions are fixture records written with the lend keeper's setters); "
                     "vault / stable-mint programs are projected but not created by the drivers"])
