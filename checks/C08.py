"""C08 — lending books balance and borrowing is bounded by loan-to-value.
spec/lend/Lend.tla (x/lend handlers transcribed, interest as environment) ; MC_Lend (bounded exhaustive profiles) ;
every model transition executed on the real msg servers (graph walk) ; seeded multi-user drives with time gaps, price
moves, V2 liquidation and auction close ; every recorded node judged by TLC (Trace_Lend.tla)."""
import json, os, re
import vlib

META = dict(
    category="model_checking",
    technique="TLA+ spec Lend.tla model-checked by TLC on bounded profiles; every model transition replayed on the real x/lend msg servers "
              "(graph walk, model state = projection of the real state); seeded multi-user behaviours validated by a TLC trace spec",
    text="Lend.tla transcribes the x/lend handlers (lend, deposit, withdraw, close-lend, borrow incl. cross-pool bridging, borrow-alternate, "
         "deposit-borrow, draw, repay, close-borrow, repay-withdraw, funding) functionally over explicit position / totals / balance records; "
         "interest and lend rewards are environment choices. C08 is stated independently: published totals = sums over positions (delta form per "
         "step + root check), exact rational LTV (limb arithmetic) for every step that releases a loan, pool held the coins, withdraw/close never "
         "releases pledged collateral. TLC checks the formulas on the model, the harness executes each model transition once on the real code and "
         "TLC checks code step = spec step and the C08 formulas on every recorded real state, including drives with accruing interest, price "
         "moves, V2 liquidation hand-over and auction close. Exhaustive for the bounded profiles, sampled beyond them.",
    note="Trusted: TLC/Json module, the projection of keeper records and bank balances, prices written with MarketKeeper.SetTwa (as the repository's "
         "tests do). Interest amounts are not recomputed (environment); liquidation / auction / CalculateInterestAndRewards / block steps are "
         "monitored by the C08 formulas but not predicted (unpredicted_actions).",
    design_ref="4 C08",
)

JAR_OK = "Model checking completed. No error has been found."
UNPREDICTED = ["Tick", "Bid"]


def mc_cfg(wd, name, profile, steps, emit, props):
    with open(os.path.join(wd, name), "w") as f:
        f.write('SPECIFICATION Spec\nCONSTANTS InitFile = "lend_init.json" Profile = "%s" MaxSteps = %d Emit = %s\n'
                'INVARIANTS InvBooksLend InvBooksBorrow NonNeg\nPROPERTIES %s\nCHECK_DEADLOCK FALSE\n'
                % (profile, steps, "TRUE" if emit else "FALSE", " ".join(props)))


def run(c):
    c.stage("lend")
    quick = c.tier == "quick"
    vlib.run_vh(["lend", "--init", os.path.join(c.wd, "lend_init.json")], timeout=300)
    profiles = [("same", 4), ("cross", 4), ("multi", 4), ("twopool", 5)] if quick else [("same", 6), ("cross", 5), ("multi", 5), ("twopool", 6)]
    gen = dist = 0
    logs = []
    # ---- model runs: C08 on the model + transition dump ----
    for prof, steps in profiles:
        cfg = "MC_Lend_%s%d.cfg" % (prof, steps)
        mc_cfg(c.wd, cfg, prof, steps, True, ["PropLtv", "PropLtvOpenBridged", "PropPoolHeld"])
        tfile = os.path.join(c.wd, "T_%s.txt" % prof)
        r = vlib.model_check(c.wd, "MC_Lend", cfg, workers=1, tfile=tfile, timeout=2400)
        gen += r["generated"]
        dist += r["distinct"]
        logs.append((prof, tfile))
    # the named deviation (draw on a bridged position ignores the transit ratio) must show up as a model counterexample
    mc_cfg(c.wd, "MC_Lend_dev.cfg", "cross", 4, False, ["PropLtvDrawBridged"])
    dev = vlib.run_tlc(c.wd, "MC_Lend", "MC_Lend_dev.cfg", workers=4, timeout=900)
    dev_cex = "Action property PropLtvDrawBridged is violated" in dev["out"]
    if not dev_cex and not dev.get("ok"):
        vlib.log(vlib.tlc_error_text(dev["out"]))
        raise vlib.NoVerdict("model run for the named deviation failed")

    # ---- real code: walk every model transition, then seeded drives ----
    allnodes = 0
    stats = {}
    tstates = 0
    samples = []
    runs_s, runs_b, steps_d = (8, 3, 160) if quick else (120, 40, 300)
    jobs = [(prof, ["--trans", tf, "--runs-small", "0", "--runs-big", "0"]) for prof, tf in logs]
    jobs.append(("drive", ["--runs-small", str(runs_s), "--runs-big", str(runs_b), "--steps", str(steps_d)]))
    walked = 0
    for name, args in jobs:
        logf = os.path.join(c.wd, "lend_%s.ndjson" % name)
        out = vlib.run_vh(["lend", "--out", logf, "--seed", str(c.seed)] + args, timeout=3000)
        m = re.search(r"walked=(\d+)", out)
        walked += int(m.group(1)) if m else 0
        dst = os.path.join(c.wd, "log.ndjson")
        if os.path.lexists(dst):   # vlib.trace_check only removes a link whose target still exists
            os.remove(dst)
        tr = vlib.trace_check(c.wd, "Trace_Lend", "Trace_Lend.cfg", logf, workers=4, timeout=3000)
        c.judge(tr, logf)
        for k, v in tr["stats"].items():
            stats[k] = stats.get(k, 0) + v
        tstates += tr.get("distinct", 0)
        allnodes += tr["stats"].get("nodes", 0)
        nodes = vlib.read_log(logf)
        pick = [n for n in nodes if n["a"] in ("Borrow", "Draw", "Withdraw") and n["res"].get("ok")][:1] or nodes[-1:]
        for n in pick:
            samples.append(dict(run=n["run"], a=n["a"], args=n["args"], res=n["res"], path_len=len(vlib.path_to(nodes, n["id"]))))
        del nodes
        os.remove(logf)
    c.samples = samples
    need = ["released", "releasedBridged", "releasedWithInterest", "atBoundary", "rejectedLoans", "withdrawnWithPledge", "repaid",
            "handedOver", "rewardPaid", "stableBorrowed", "walked", "confOkSteps", "drawn"]
    zero = [k for k in need if stats.get(k, 0) == 0]
    if zero and not c.violations:   # a violation found on real states stands even if another antecedent was not exercised
        raise vlib.NoVerdict("vacuous run, antecedent counters are 0: %s" % zero)
    return c.finish("model_checking", dict(
        states=dist, transitions=gen, traces_validated_against_impl=allnodes,
        model_configs=["%s,MaxSteps=%d" % x for x in profiles], transitions_executed_on_impl=walked, trace_states=tstates,
        antecedents=stats, exhaustive=True, unpredicted_actions=UNPREDICTED,
        unpredicted_fields=["interest / reward amounts (environment, taken from the log)", "fractional interest carry", "cToken supply"],
        model_counterexample_named_deviation=dict(property="PropLtvDrawBridged", found=dev_cex,
                                                   note="draw on a cross-pool position applies the collateral asset's ratio alone; reproduced on the real code by formula C08_LtvDrawBridged"),
        rule="every transition of the bounded profiles (same-pool, cross-pool, multi-pair; 2 users, amounts at the exact LTV boundary -1/0/+1, "
             "interest injection, price moves, foreign-owner attempts) is executed once on the real msg servers; plus seeded drives "
             "(3 users, 2 pools, 11 pairs, mixed decimals, time gaps up to a year, price moves, V2 liquidation + auction bids); each node is a TLC state of Trace_Lend"),
        assumptions=["prices are written with MarketKeeper.SetTwa (band oracle stubbed: validation result true, no request pending)",
                     "amounts stay below 2^31 and collateral value * ltv denominators below 10^18, where the code's 18-decimal quotient decides exactly like the rational inequality",
                     "asset rate parameters have non-zero stable-rate parameters (the all-zero case divides by zero in interest calculation: C15/C18 matter, reported separately)",
                     "a block whose hooks panic is not judged (it would halt the chain; C15)"])
