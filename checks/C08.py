"""C08 — lending books balance and borrowing is bounded by loan-to-value.
spec/lend/Lend.tla (x/lend handlers transcribed, interest as environment) ; MC_Lend (bounded exhaustive profiles) ;
every model transition executed on the real msg servers (graph walk) ; seeded multi-user drives with time gaps, price
moves, V2 liquidation and auction close ; every recorded node judged by TLC (Trace_Lend.tla)."""
import vlib

META = dict(
    category="model_checking",
    technique="TLA+ spec Lend.tla model-checked by TLC on bounded profiles; every model transition replayed on the real x/lend msg servers "
              "(graph walk, model state = projection of the real state); seeded multi-user behaviours validated by a TLC trace spec",
    text="Lend.tla transcribes the x/lend handlers (lend, deposit, withdraw, close-lend, borrow incl. cross-pool bridging, borrow-alternate, "
         "deposit-borrow, draw, repay, close-borrow, repay-withdraw, funding) functionally over explicit position / totals / balance records; "
         "interest and lend rewards are environment choices. C08 is stated independently: published totals = sums over positions (delta form per "
         "step + root check), exact rational LTV (limb arithmetic) for every step that releases a loan, pool held the coins, withdraw/close never "
         "releases pledged collateral. TLC checks the formulas on the model, the harness executes each model transition once on the real code and "
         "TLC checks code step = spec step and the C08 formulas on every recorded real state, including drives with accruing interest, price "
         "moves, V2 liquidation hand-over and auction close. Exhaustive for the bounded profiles, sampled beyond them.",
    note="Trusted: TLC/Json module, the projection of keeper records and bank balances, prices written with MarketKeeper.SetTwa (as the repository's "
         "tests do). Interest amounts are not recomputed (environment); liquidation / auction / CalculateInterestAndRewards / block steps are "
         "monitored by the C08 formulas but not predicted (unpredicted_actions).",
    design_ref="4 C08",
)



def run(c):
    import os, sys
    sys.path.insert(0, os.path.dirname(os.path.abspath(__file__)))
    import _lend
    return _lend.run(c)
