"""C10 - served by the harbor family log (checks/_harbor.py)."""
import os, sys
sys.path.insert(0, os.path.dirname(os.path.abspath(__file__)))
import _harbor
import _lend

META = dict(
    category="model_checking",
    technique="explicit TLA+ spec (Harbor/VaultSpec/DutchV1) + TLC trace validation of recorded real-code behaviours and bounded implementation exploration; vault handlers predicted by the spec (conformance)",
    text='TLC evaluates on recorded real bids: paid <= remaining target, received <= remaining collateral, collateral received <= what (paid + bonus) buys at the posted price (exact limb arithmetic on the 18-decimal price, one unit of rounding per coin), price non-increasing between restarts and inside [end price, start price], start price = premium x oracle price, auction custody (collateral and collected debt) exactly accounted by live auctions after every step, unsold collateral to the owner and penalty to the collector at close. First generation (x/auction, DutchV1.tla): the same laws with the bid naming the collateral amount, posted price / start price (oracle x buffer) / end price (x cusp) as limbs, bids booked on the auction, auctionV1 custody accounted by live V1 auctions, and at the close inside the bid: principal burnt, collected minus principal (penalty + fees, net of the cover by the collector in the lossy path) to the collector and booked as net fees, rest of the collateral to the owner. Conf_V1Bid (relation: the two amounts are environment values constrained by the posted price, every balance / record / total / fee booking and the branch - open, close, lossy close through the collector - is predicted) and Conf_V1Tick (price update with exact 18-decimal half-even arithmetic on limbs, restart) bind the V1 auction steps to DutchV1.tla.',
    note="Bounded: 3 users, 4 products (two sharing a collateral denom, one stable-mint), small amounts (TLC 32-bit), decimals 1/10/100, oracle-priced debt; interest amounts are environment values taken from the log; both liquidation/auction generations are driven (V2 through blocks and messages; V1 - x/liquidation, x/auction - through MsgLiquidateVault / MsgPlaceDutchBid and, because module.go does not wire its begin blockers, through direct calls of the exported BeginBlockers as environment actions V1Sweep / V1Tick); emergency shutdown is driven too (rarely in ordinary runs, headed for in every sixth run, and in a bounded exploration of the shutdown flows: MsgDepositESM / MsgExecuteESM, the esm begin blocker with price snapshot and redemption set-up after the cool-off, MsgCollateralRedemption, withdrawals in the cool-off, V2 TriggerEsm and the V1 shutdown close-out). Trusted: projection functions, TLC, bank module.",
    design_ref='4 C10',
)


def run(c):
    # vault side (harbor family: V2 sweep / liquidate messages / Dutch auctions) and borrow side (lend family) of the property
    c.defer = True
    _harbor.run(c, ['okBids', 'closingBids', 'priceChecks', 'auctionBlocks', 'externalAuctions', 'externalCloses', 'bonusBids', 'v1Bids', 'v1Closes', 'v1LossyCloses', 'v1PriceChecks', 'v1PriceMoves', 'v1Restarts', 'v1EndPriceHits', 'esmV1CloseOuts'])
    _lend.run(c)
    return c.finish_all(["harbor", "lend"])
