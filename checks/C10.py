"""C10 - served by the harbor family log (checks/_harbor.py)."""
import os, sys
sys.path.insert(0, os.path.dirname(os.path.abspath(__file__)))
import _harbor
import _lend

META = dict(
    category="model_checking",
    technique="explicit TLA+ spec (Harbor/VaultSpec) + TLC trace validation of recorded real-code behaviours and bounded implementation exploration; vault handlers predicted by the spec (conformance)",
    text='TLC evaluates on recorded real bids: paid <= remaining target, received <= remaining collateral, collateral received <= what (paid + bonus) buys at the posted price (exact limb arithmetic on the 18-decimal price, one unit of rounding per coin), price non-increasing between restarts and inside [end price, start price], start price = premium x oracle price, auction custody (collateral and collected debt) exactly accounted by live auctions after every step, unsold collateral to the owner and penalty to the collector at close.',
    note="Bounded: 3 users, 4 products (two sharing a collateral denom, one stable-mint), small amounts (TLC 32-bit), decimals 1/10/100, oracle-priced debt; interest amounts are environment values taken from the log; V1 liquidation/auction generation and emergency shutdown are not driven by this family. Trusted: projection functions, TLC, bank module.",
    design_ref='4 C10',
)


def run(c):
    # vault side (harbor family: V2 sweep / liquidate messages / Dutch auctions) and borrow side (lend family) of the property
    c.defer = True
    _harbor.run(c, ['okBids', 'closingBids', 'priceChecks', 'auctionBlocks', 'externalAuctions', 'externalCloses', 'bonusBids'])
    _lend.run(c)
    return c.finish_all(["harbor", "lend"])
