"""C15 — block hooks never halt the chain and never leave half-applied steps.
spec/hooks/Hooks.tla (hook = sequence of units; ApplyFuncIfNoError = branch, run, commit-or-discard, recover; crash point (u,k));
MC_Hooks (exhaustive over a bounded hook space x every crash point; the unwrapped variant must be rejected by TLC);
every model behaviour executed on the real ApplyFuncIfNoError; crash-point enumeration of the real begin/end blockers on
states built with real messages; reference runs; TLC (Trace_Hooks) judges."""
import json, os, re
import vlib

META = dict(
    category="fault_enumeration",
    technique="TLA+ spec Hooks.tla model-checked by TLC over a bounded hook space and every crash point; every model behaviour replayed on the real "
              "ApplyFuncIfNoError; crash-point enumeration (k-th store access of unit u panics, via the guarded unit hook and a fault-injecting gas meter) of the real "
              "Begin/EndBlockers on fixture states incl. environment faults; recorded runs judged by TLC trace spec against skip/void reference runs",
    text="Hooks.tla models a block hook as a sequence of (nested) units of primitive effects run through ApplyFuncIfNoError (cache context, commit or discard, recover) "
         "with a crash plan (u,k); TLC checks NoHalt/Atomic/Continues for every hook of a bounded space and every crash point and rejects the unwrapped variant. "
         "Every model behaviour is executed on the real wrapper, cache contexts and bank keeper (Toy nodes). On states built with real messages (healthy, unsafe vaults and "
         "borrows, running/expired Dutch and English auctions, oracle down, inactive prices, auction types disabled, missing token-mint data, emptied collector, full "
         "utilisation, ESM executed, liquidity batches with expired orders, gauges due, V1 hooks) every unit of the real BeginBlocker/EndBlocker is enumerated: for sampled "
         "(quick) or all (thorough) k the k-th store access under the unit's context panics; TLC compares the store digest with the run in which the unit was skipped and "
         "with the run in which it had no effect, requires the hook to return, and checks naturally failing units and per-item steps (masked-item reference) the same way. Liquidation steps (one vault / one borrow, V1 and V2) "
         "are additionally judged by facets around the module's begin blocker run alone: seized, locked-vault written, auction started must be all true or all false - also when an inner "
         "step fails by itself (auction parameters missing, auction type off, price inactive at the auction start, collateral lent out). Hook loops are driven with real work in two CDP apps "
         "(both white-listed for V1 and V2 liquidation, liquidity in two apps); hooks run while a state's history is produced are judged like plain blocks. "
         "Unwrapped hooks are driven through multi-block histories of their inputs (band price rounds for window sizes 1-4: positive runs, zero-rate outages shorter and longer than the "
         "accepted gap, rebuilds, silent rounds, short answers); optional records are present/absent in governance's set-up orders (lookup table / auction mapping before any fee, second "
         "asset later, missing white-listing / auction parameters, kill switch); a failing step of another stage of a hook (surplus/debt starter) must leave every listed unit's facets "
         "as in the run where that step is masked. Auction starters (V1 surplus/debt activators, V2 starter) are judged by facets per auction mapping "
         "(collector debited, auction record, mapping flag) on states with and without auction parameters; height-gated branches run at their gate heights with the fault armed "
         "(swap-fee conversion every 150 blocks: never-traded pair with a pool and a coin in its fee collector, in either or both of two apps).",
    note="Trusted: TLC/Json module, sim.Digest over all DeFi stores + bank, the observation of unit failures through the wrapper's error log line, the item masks "
         "(borrow flagged liquidated / vault collateral inflated) used only for reference runs. Faults are injected at gas-metered store accesses only.",
    design_ref="4 C15",
)

INV = ["InvNoHalt", "InvAtomic", "InvContinues"]


def write_cfg(c, name, maxu, blen, bal, wrapped, nested, emit, invs):
    with open(os.path.join(c.wd, name), "w") as f:
        f.write("SPECIFICATION Spec\nCONSTANTS MaxUnits = %d  BodyLen = %d  Bal = {%s}  Wrapped = %s  Nested = %s  Emit = %s\nINVARIANTS %s\nCHECK_DEADLOCK FALSE\n"
                % (maxu, blen, ", ".join(map(str, bal)), "TRUE" if wrapped else "FALSE", "TRUE" if nested else "FALSE", "TRUE" if emit else "FALSE", " ".join(invs)))


def run(c):
    c.stage("hooks")
    quick = c.tier == "quick"
    tfile = os.path.join(c.wd, "T.txt")
    # 1. model: every hook of the bounded space, every crash point; dump = behaviours for the real wrapper
    write_cfg(c, "MC_dump.cfg", 2, 2, [0, 5] if quick else [0, 3, 5, 6], True, True, True, INV + ["InvGoesOn"])
    m1 = vlib.model_check(c.wd, "MC_Hooks", "MC_dump.cfg", workers=1, tfile=tfile, timeout=1500)
    gen, dist = m1["generated"], m1["distinct"]
    configs = ["MaxUnits=2,BodyLen=2,nested catalogue,dump"]
    if not quick:
        write_cfg(c, "MC_big.cfg", 3, 2, [0, 5], True, True, False, INV + ["InvGoesOn"])
        m2 = vlib.model_check(c.wd, "MC_Hooks", "MC_big.cfg", workers=4, timeout=1700)
        gen += m2["generated"]
        dist += m2["distinct"]
        configs.append("MaxUnits=3,BodyLen=2")
    # 2. sanity: the deliberately unwrapped variant must violate each invariant (the formulas bite)
    bites = {}
    for inv in INV:
        cfg = "MC_unwrapped_%s.cfg" % inv
        write_cfg(c, cfg, 2, 2, [0, 5], False, False, False, [inv])
        r = vlib.run_tlc(c.wd, "MC_Hooks", cfg, workers=1, timeout=600)
        bites[inv] = ("Invariant %s is violated" % inv) in r["out"]
        if not bites[inv]:
            vlib.log(vlib.tlc_error_text(r["out"]) or r["out"][-2000:])
            raise vlib.NoVerdict("sanity step failed: TLC did not report %s violated on the unwrapped variant" % inv)
    # 3. real code
    logf = os.path.join(c.wd, "hooks.ndjson")
    args = ["hooks", "--out", logf, "--seed", str(c.seed), "--vectors", tfile]
    args += ["--maxk", "10", "--variants", "1"] if quick else ["--maxk", "0", "--variants", "4"]
    out = vlib.run_vh(args, timeout=1500 if quick else 5000)
    hs = json.loads(re.search(r"\{.*\}", out.strip().splitlines()[-1]).group(0))
    tr = vlib.trace_check(c.wd, "Trace_Hooks", "Trace_Hooks.cfg", logf, workers=4, timeout=1500 if quick else 5000)
    c.judge(tr, logf)
    nodes = vlib.read_log(logf)
    pick = lambda a, pred=lambda n: True: next((n for n in nodes if n["a"] == a and pred(n)), None)
    c.samples = [n for n in (pick("Toy", lambda n: n["st"]["failed"]), pick("Unit", lambda n: n["st"]["failed"]),
                             pick("Fault", lambda n: n["res"]["victim"] != n["args"]["u"]), pick("Fault"), pick("Item", lambda n: n["res"]["probeFailed"]),
                             pick("Block")) if n]
    st = tr["stats"]
    if c.violations:  # a violation found on real-code states stands whatever the vacuity counters say
        return c.finish("fault_enumeration", dict(evaluations=max(1, len(nodes)), distinct_nontrivial=max(2, len(c.violations)),
                                                  rule="run ended with violations; see replay files", antecedents=st))
    need = ["states", "blocks", "units", "nestedUnits", "failedUnits", "effectiveUnits", "faultsFired", "faultsNested", "itemsFailed", "toys", "toysAborting",
            "facets", "facetsApplied", "facetsV1Applied", "facetsBorrowApplied", "facetsUntouched", "facetsEnvFault", "multiAppSweeps",
            "stages", "stagesFailedWithWork", "oracleRounds", "oracleZeroRounds", "oracleRebuildRounds", "histSteps",
            "starters", "startersV1Started", "startersV2Started", "startersEnvFault", "gateBlocks150", "panickedUnits"]
    zero = [k for k in need if st.get(k, 0) == 0]
    if zero and not c.violations:   # a violation on real-code states is a verdict whatever the coverage
        raise vlib.NoVerdict("vacuous run, zero antecedent counters %s: %s" % (zero, st))
    if m1.get("transitions_dumped", 0) != st["toys"]:
        raise vlib.NoVerdict("model behaviours dumped (%s) != executed on the real wrapper (%s)" % (m1.get("transitions_dumped"), st["toys"]))
    cases = st["toys"] + st["faults"] + st["units"] + st["items"] + st["blocks"] + st["dryRuns"] + st["facets"] + st["stages"] + st["starters"]
    nontrivial = st["toysAborting"] + st["faultsFired"] + st["failedUnits"] + st["itemsFailed"]
    return c.finish("fault_enumeration", dict(
        evaluations=cases, distinct_nontrivial=nontrivial,
        rule="cases = model behaviours run on the real wrapper (every hook of the bounded space x every crash point) + fault runs of the real hooks (state x hook x unit x k; "
             "quick: first/last two and sampled accesses per unit, thorough: every access) + reference runs (skip/void per unit) + item cases + plain blocks; "
             "non-trivial = a unit really aborted: toy behaviours with an aborted unit, fired injected faults, naturally failing units, failing items (all distinct by construction)",
        states=dist, transitions=gen, model_configs=configs, unwrapped_variant_rejected=bites,
        traces_validated_against_impl=len(nodes), trace_states=tr.get("distinct"), antecedents=st, harness=hs,
        exhaustive=not quick),
        assumptions=["faults are injected at gas-metered KV store accesses of the unit's context (every keeper read/write/iterator step); failures between accesses are not enumerated",
                     "the reference for an aborted unit is the run with that unit skipped (nothing applied, failure reported) and the run with the unit executed on a throw-away branch",
                     "V1 liquidation/auction begin blockers are not wired in app.go and are called directly on V1 states",
                     "band IBC traffic is stubbed through the band keeper's setters"])
