"""C13 - locker balances and collector net fees are backed.
spec/english/Locker.tla + Collector.tla (+ English.tla for the auction outflows / inflows) ; MC_Locker, MC_English ;
graph walk on the real msg servers and hooks ; seeded behaviours with savings rewards, interest, liquidation penalty ;
TLC judges every recorded state (Trace_Locker / Trace_English). Shares one harness + TLC pass with C11."""
import importlib.util, os
import vlib

META = dict(
    category="model_checking",
    technique="TLA+ specs Locker.tla / Collector.tla / English.tla model-checked by TLC; the transition graphs of the bounded models are walked on the "
              "real msg servers and block hooks; recorded states validated by TLC trace specs (conformance + C13 formulas in step form)",
    text="Locker.tla transcribes create / deposit / withdraw / close / reward-calc with the savings-reward path (net fees down, collector -> locker "
         "custody, locker and lookup total up) and the fee-generating vault messages; Collector.tla states the net-fee book; English.tla supplies "
         "the surplus / debt auctions of both generations and the distributor payout for every allowed combination of the mapping flags. "
         "TLC checks on every recorded real state: lookup total = sum of locker balances (and the id list), locker custody >= totals, withdraw / "
         "close pay exactly the requested amount / full net balance, net fees >= 0, and in step form that the recorded net fees of every asset "
         "move exactly with the collector's custody of that asset (inflows: draw-down / closing fee, interest, liquidation penalty, debt "
         "cover; outflows: savings, auction lots, surplus fund; lots returned by an emergency-shutdown close), also for governance saving-rate "
         "changes (settlement of every locker of the app) and for locker messages whose app / asset / locker id do not belong together. Saving-rate rewards and interest are the code's float amounts taken from the log. "
         "Exhaustive for the bounded models, sampled beyond them.",
    note="Trusted: TLC/Json module, projection functions, bank/store semantics. Rewards / interest (math.Pow) are environment amounts constrained by "
         "the laws, not recomputed. Generation-1 hook called directly. Net fees are seeded at the root of auction behaviours through the collector "
         "keeper together with the coins.",
    design_ref="4 C13",
)


def _fam():
    p = os.path.join(os.path.dirname(os.path.abspath(__file__)), "C11.py")
    spec = importlib.util.spec_from_file_location("chk_C11_family", p)
    m = importlib.util.module_from_spec(spec)
    spec.loader.exec_module(m)
    return m


def run_english(c):
    fam = _fam()
    d, res = fam.family(c)
    A, C = res["A"], res["C"]
    la, lc = os.path.join(d, A["log"]), os.path.join(d, C["log"])
    c.judge(A, la)
    c.judge(C, lc)
    sa, sc = A["stats"], C["stats"]
    need = dict(closesGen1=sa.get("closesGen1", 0), closesGen2=sa.get("closesGen2", 0), starts=sa.get("starts", 0), feeMoves=sa.get("feeMoves", 0),
                shutdownEndsWithBid=sa.get("shutdownEndsWithBid", 0), shutdownEndsNoBid=sa.get("shutdownEndsNoBid", 0),
                shutdownEndsSurplus=sa.get("shutdownEndsSurplus", 0),
                crossAppRewardCalc=sc.get("crossAppRewardCalc", 0), crossAppMsgs=sc.get("crossAppMsgs", 0), wrongAssetMsgs=sc.get("wrongAssetMsgs", 0),
                lsrChanges=sc.get("lsrChanges", 0), lsrChangesMulti=sc.get("lsrChangesMulti", 0), rewardDue=sc.get("rewardDue", 0), surplusDueDrained=sc.get("surplusDueDrained", 0), surplusDueFunded=sc.get("surplusDueFunded", 0),
                debtDueWithLockers=sc.get("debtDueWithLockers", 0), savingsDuringAuction=sc.get("savingsDuringAuction", 0),
                creates=sc.get("creates", 0), deposits=sc.get("deposits", 0), withdraws=sc.get("withdraws", 0), closes=sc.get("closes", 0),
                rewards=sc.get("rewards", 0), feeIn=sc.get("feeIn", 0), feeOut=sc.get("feeOut", 0), vaultConf=sc.get("vaultConf", 0),
                interestPaid=sc.get("interestPaid", 0), penalties=sc.get("penalties", 0), twoApps=sc.get("twoApps", 0))
    zero = [k for k, v in need.items() if v == 0]
    if zero and not c.violations:   # vacuity only guards an all-green result: a violation on real-code states is a verdict
        raise vlib.NoVerdict("vacuous run, antecedent counters are 0: %s" % zero)
    c.samples = fam.sample_nodes(lc, {"CreateLocker", "WithdrawLocker", "CloseLocker", "VaultCreate", "DutchBid"}) + fam.sample_nodes(la, {"Block", "HookV1", "SurplusFund"})
    mcs = C["mc"] + A["mc"]
    na, nc = fam.count_lines(la), fam.count_lines(lc)
    return c.finish("model_checking", dict(
        states=sum(m["distinct"] for m in mcs), transitions=sum(m["generated"] for m in mcs),
        traces_validated_against_impl=na + nc, trace_states=(A.get("distinct") or 0) + (C.get("distinct") or 0),
        model_configs=["%s:%s" % (("MC_Locker" if m in C["mc"] else "MC_English"), m["config"]) for m in mcs],
        antecedents=dict(locker=sc, english=sa), exhaustive=True,
        rule="every transition of the bounded models MC_Locker (2 users, 2 apps sharing the stable asset, locker create / deposit / withdraw below-at-above "
             "the balance / close / reward-calc by owner and non-owner, vault create / draw / close as fee generators) and MC_English (auction "
             "starts and closes of both generations from the collector, distributor payout) is executed once on the real code by a graph walk; "
             "plus seeded behaviours with saving rate and stability fee > 0, time gaps up to a year, saving-rate changes, price drop + liquidation "
             "+ Dutch bid (penalty); each log node is a TLC state"),
        assumptions=["savings rewards and vault interest are float computations of the code: taken from the log and constrained by the laws",
                     "generation-1 auction.BeginBlocker is called directly (it is not wired in app.go)",
                     "auction behaviours start from net fees seeded through the collector keeper together with the coins (root state only)"])


def run(c):
    # locker/collector/auction books (english family) + the vault / liquidation / Dutch-auction side of the collector book
    # (harbor family log: C13_CollectorDelta, C13_NetFeesNonNeg, C13_CollectorBacked on every recorded step)
    import sys
    sys.path.insert(0, os.path.dirname(os.path.abspath(__file__)))
    import _harbor
    c.defer = True
    run_english(c)
    _harbor.run(c, ['okVaultOps', 'closingBids', 'seizures'])
    return c.finish_all(["english", "harbor"])
