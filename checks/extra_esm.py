"""XESM - the emergency-shutdown life cycle of the CDP application (x/esm) beyond what C01/C02/C14 demand of it: stage order of the
begin blocker, the price snapshot, the redemption book and its backing by the esm account, the vault stage, and the redemption
message.  Not one of the listed properties: run with `bin/extra esm`.  Uses the harbor family's log (shared, cached): the laws are the
XESM_* formulas of spec/harbor/Trace_Harbor.tla over the operators of spec/harbor/Esm.tla."""
import os, sys
sys.path.insert(0, os.path.dirname(os.path.abspath(__file__)))
import _harbor

META = dict(
    property="XESM",
    category="model_checking",
    technique="TLA+ spec Esm.tla (laws of the shutdown life cycle) evaluated by the TLC trace spec Trace_Harbor on every recorded step of the real x/esm, x/vault, "
              "x/auction, x/auctionsV2 code (seeded emergency-shutdown-biased behaviours + bounded breadth-first exploration of the shutdown flows)",
    text="XESM_Stages: the status flags (executed, snapshot, vault stage, stable-vault stage, collector stage, share calculation) only go up and in the begin blocker's order. "
         "XESM_SnapshotFixed: the price snapshot and the cool-off window never change once set. XESM_NoVaultAfterStage: once the vault stage is done no vault is (re-)opened (it could never be redeemed). XESM_BookBacked: per collateral denom the esm account moves exactly with the book (delta form; root: holds at least the book). XESM_VaultStage: the vault stage removes "
         "every vault that was open and books at least their collateral. XESM_RedeemBurns: a redemption of x burns x debt coins and strikes x off the registered debt. XESM_RedeemPaysFromBook: the "
         "redeemer receives exactly what leaves the esm account, nobody else is paid. XESM_RedeemWithinProRata: per denom the pay-out is at most x / registered debt of the collateral held. "
         "XESM_RedeemAfterShares: redemption only after the shares were computed and the cool-off ended. XESM_RejectedChangesNothing.",
    note="Same trusted base and drivers as the harbor family (C01). Fixture prices are small integers, so value roundings of the esm code are exaggerated; the laws are upper bounds and "
         "conservation statements that do not depend on the price scale.",
    design_ref="6 (growing the specification: emergency shutdown)",
)


def run(c):
    return _harbor.run(c, ["esmExecuted", "esmSnapshots", "esmVaultRedemptions", "esmStableRedemptions", "esmCollectorBurns", "esmRedemptions", "esmV2CloseOuts", "esmV1CloseOuts"])
