"""C06 — pool shares are fair: deposits and withdrawals cannot extract value from a pool.
spec/amm/ShareLaws.tla (the laws, once, over an abstract number algebra) ; PoolShares.tla (amm.Deposit / amm.Withdraw
transcribed at parametric decimal precision) ; MC_PoolShares (exhaustive box, every transition = one vector) ;
Trace_PoolShares (TLC judges every step executed by the real amm functions and the real keeper)."""
import os
import vlib

META = dict(
    category="model_checking",
    technique="TLA+ transcription of amm.Deposit/Withdraw exhaustively model-checked by TLC against the fairness laws; every model transition "
              "replayed on the real functions and through real keeper requests (value for value); real-size and ranged-pool steps judged by TLC with limb arithmetic",
    text="PoolShares.tla transcribes Deposit (truncate ratio, truncate shares, half-even proportion, ceil accepted coins) and Withdraw (truncate at every "
         "step, last-share case) at decimal precision 10^K; ShareLaws.tla states the laws (accepted <= offered; shares minted at no better than reserves "
         "per share; withdrawal <= pro-rata part reduced by the fee; reserves per share never decrease up to 10^-17 of the reserve; last shares take "
         "everything; ranged price in range). TLC checks the laws on every (rx, ry, ps, x, y | pc, fee) of a small box; each case is executed on the real "
         "amm.Deposit/Withdraw and, with the pool state injected, through MsgDeposit/MsgWithdraw + the end-of-batch execution on real balances, and TLC "
         "compares value for value. Seeded real-size cases (to 10^40), ranged-pool lifecycles (creation, deposits, withdrawals, swaps against the pool's own "
         "orders) and real-size keeper scenarios are judged by TLC with the laws over limb numbers. Exhaustive for the box, sampled beyond.",
    note="Trusted: TLC/Json module; the precision argument K=6 vs 18 (comment in PoolShares.tla) is additionally checked case by case; DecApproxSqrt / "
         "DeriveTranslation are not transcribed (ranged pool outputs are logged and judged). Open finding: ranged pool price leaves its range by "
         "rounding-sized amounts, see known/amm.json.",
    design_ref="4 C06",
)

INV = "INVARIANTS InvDepositWithinOffer InvDepositRateFair InvWithdrawWithinShare InvLastShare InvPerShare InvNonNegative\nCHECK_DEADLOCK FALSE\n"


def cfg(R, S, X, fees, emit=True):
    return ("SPECIFICATION Spec\nCONSTANTS R = %d  S = %d  X = %d  Fees = {%s}  K = 6  Emit = %s\n%s"
            % (R, S, X, ", ".join(str(f) for f in fees), "TRUE" if emit else "FALSE", INV))


def run(c):
    c.stage("amm")
    quick = c.tier == "quick"
    # boxes: (R, S, X, fees, run every n-th vector through the keeper)
    boxes = [(8, 8, 6, (0, 3, 100), 2)] if quick else [(12, 12, 8, (0, 3, 100), 2), (16, 6, 4, (0, 3, 500), 1)]
    rnd = (3000, 800, 40) if quick else (60000, 12000, 600)   # real-size amm cases, ranged lifecycles, keeper scenarios
    states = trans = 0
    stats = {}
    nodes_total = 0
    samples = []
    names = []
    for bi, (R, S, X, fees, kevery) in enumerate(boxes):
        cf = "MC_PoolShares_%d.cfg" % bi
        with open(os.path.join(c.wd, cf), "w") as f:
            f.write(cfg(R, S, X, fees))
        tfile = os.path.join(c.wd, "PT%d.txt" % bi)
        r = vlib.model_check(c.wd, "MC_PoolShares", cf, workers=1, tfile=tfile, timeout=2400, heap="6g")
        if r["transitions_dumped"] == 0 or r["transitions_dumped"] >= r["generated"]:
            raise vlib.NoVerdict("transition dump of %s inconsistent: %s" % (cf, r))
        states += r["distinct"]
        trans += r["transitions_dumped"]
        names.append("R=%d,S=%d,X=%d,fees=%s:%d" % (R, S, X, "/".join(map(str, fees)), r["transitions_dumped"]))
        logf = os.path.join(c.wd, "shares%d.ndjson" % bi)
        last = bi == len(boxes) - 1
        vlib.run_vh(["amm", "shares", "--vectors", tfile, "--out", logf, "--seed", str(c.seed * 100 + bi), "--kevery", str(kevery),
                     "--random", str(rnd[0] if last else 0), "--ranged", str(rnd[1] if last else 0), "--keeper", str(rnd[2] if last else 0)],
                    timeout=3000)
        tr = vlib.trace_check(c.wd, "Trace_PoolShares", "Trace_PoolShares.cfg", logf, workers=4, timeout=3000)
        c.judge(tr, logf)
        for k, v in tr["stats"].items():
            stats[k] = stats.get(k, 0) + v
        nodes_total += tr["stats"].get("nodes", 0)
        if last:
            nodes = vlib.read_log(logf)
            pick = [n for n in nodes if n["a"] in ("KDeposit", "KWithdraw") and n["run"] != "kvec"] or nodes
            vec = [n for n in nodes if n["run"] == "vec" and n["st"]["pc"] not in (0, [])] or nodes
            samples = [vec[len(vec) // 2], pick[0], pick[-1]]
            del nodes
        os.remove(logf)
        lnk = os.path.join(c.wd, "log.ndjson")       # (vlib.trace_check leaves a symlink; a dangling one blocks the next batch)
        if os.path.lexists(lnk):
            os.remove(lnk)
    c.samples = samples
    need = ["big", "deposits", "withdraws", "creates", "minted", "lastShare", "keeperDeposits", "keeperWithdraws", "priced", "ranged",
            "confDeposit", "confWithdraw", "withFee", "swaps",
            "foreignCoinAttempts", "foreignAppCoinAttempts", "foreignDepositAttempts", "poolIdNePairId", "idsPairwiseDistinct",
            "rangedDepositPoolIdNePairId"]
    if not c.violations and any(stats.get(k, 0) == 0 for k in need):   # a violation on real-code states is a verdict whatever the coverage
        raise vlib.NoVerdict("vacuous run: %s" % stats)
    return c.finish("model_checking", dict(
        states=states, transitions=trans, traces_validated_against_impl=nodes_total, model_configs=names, antecedents=stats, exhaustive=True,
        rule="every transition of the bounded model (pool states rx, ry in 0..R, ps in 1..S, deposits x, y in 0..X, withdrawals pc in 1..ps x fees) is one "
             "vector on the real amm.Deposit / amm.Withdraw and (every n-th) one injected-state request through the real keeper, compared value for value "
             "with PoolShares.tla; plus seeded real-size cases to 10^40, ranged-pool lifecycles and keeper scenarios; each step is a TLC state of "
             "Trace_PoolShares judged with the C06 laws"),
        assumptions=["keeper vectors inject the pool state (reserve balances, share supply) through the bank keeper before the request",
                     "decimal precision 6 in the model equals precision 18 in the code for denominators <= 16 (argument in PoolShares.tla, and checked per case)",
                     "the withdrawal clause 'pro-rata part reduced by the fee' is applied to pc < ps; redeeming the last shares is governed by its own clause",
                     "ranged-pool prices are judged as RangedPool.Price() reports them for the reserves after the step (fresh translation, as the keeper derives it in the next batch)"])
