"""Shared runner of the `harbor` family (C01, C02, C03, C09, C10): one harness log + one TLC pass, cached per
(binary hash, spec hash, tier, seed); every property check judges only its own C<id>_* formulas."""
import os, json
import vlib

TIERS = {
    "quick": dict(runs=40, steps=70, depth=3, maxnodes=3000),
    "thorough": dict(runs=600, steps=120, depth=4, maxnodes=40000),
}


def produce(c, binhash):
    t = TIERS[c.tier]

    def producer(d):
        vlib.stage_spec(d, ["harbor"])
        logf = os.path.join(d, "harbor.ndjson")
        vlib.run_vh(["harbor", "--out", logf, "--seed", str(c.seed), "--runs", str(t["runs"]), "--steps", str(t["steps"]),
                     "--depth", str(t["depth"]), "--maxnodes", str(t["maxnodes"])], timeout=3000)
        tr = vlib.trace_check(d, "Trace_Harbor", "Trace_Harbor.cfg", logf, workers=8 if c.tier == "thorough" else 4,
                              timeout=3400, heap="8g")
        return dict(fails=tr["fails"], stats=tr["stats"], distinct=tr.get("distinct"), generated=tr.get("generated"), wall=tr["wall"])

    d, res, was_cached = vlib.cached("harbor", [binhash, vlib.spec_hash("harbor"), c.tier, c.seed, TIERS[c.tier]], producer)
    return d, res, was_cached


def run(c, need):
    binhash = vlib.sha_file(vlib.BIN)
    d, res, was_cached = produce(c, binhash)
    logf = os.path.join(d, "harbor.ndjson")
    tr = dict(fails=[tuple(x) for x in res["fails"]], stats=res["stats"])
    c.judge(tr, logf)
    st = res["stats"]
    for k in need:
        if st.get(k, 0) == 0:
            raise vlib.NoVerdict("vacuous run: antecedent counter %s = 0 (%s)" % (k, st))
    nodes = vlib.read_log(logf)
    pick = [n for n in nodes if n["res"].get("ok") and n["a"] not in ("Init", "Block", "Price")][:400]
    c.samples = [dict(a=n["a"], args=n["args"], res=n["res"]) for n in pick[:: max(1, len(pick) // 6)]][:6]
    return c.finish("model_checking", dict(
        states=res["distinct"], transitions=res["distinct"], traces_validated_against_impl=st.get("nodes", 0),
        antecedents=st, shared_log_cached=was_cached,
        rule="every node of the recorded tree log (seeded multi-actor behaviours over 6 decimal/fee configurations + bounded "
             "breadth-first exploration of a fixed action-instance set on CacheContext branches) is one TLC state of Trace_Harbor; "
             "formulas are evaluated on (pre-state, step, post-state) of the real keepers"),
        assumptions=["signatures/ante chain out of scope: signer = message's From", "oracle prices injected with MarketKeeper.SetTwa (environment action Price)",
                     "kill switch toggled through the esm keeper setter (admin check is C12)"])
