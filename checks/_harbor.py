"""Shared runner of the `harbor` family (C01, C02, C03, C09, C10): one harness log + one TLC pass, cached per
(binary hash, spec hash, tier, seed); every property check judges only its own C<id>_* formulas."""
import os, json
import vlib

TIERS = {
    "quick": dict(runs=60, steps=70, depth=4, maxnodes=5000, mdepth=8, sweepmax=40, simnum=25,
                  exh=[(2, 5, 1, 1, "{5}"), (1, 4, 1, 1, "{4}"), (3, 6, 1, 1, "{2, 6}")], adv=[(1, 4, 2, 3, "{4}")],
                  sim=[(2, 5, 1, 1, "{3, 5}", 16), (3, 7, 1, 1, "{4, 7}", 14)]),
    "thorough": dict(runs=600, steps=120, depth=6, maxnodes=60000, mdepth=10, sweepmax=400, simnum=200,
                     exh=[(b, n, 1, 1, "{%d}" % n) for b in (1, 2, 3) for n in (3, 4, 5, 6, 7)] + [(2, 6, 1, 1, "{1, 6}"), (3, 7, 1, 1, "{2, 5, 7}")],
                     adv=[(1, 4, 2, 3, "{4}"), (1, 6, 0, 5, "{6}"), (2, 6, 2, 5, "{6}")],
                     sim=[(1, 4, 1, 1, "{2, 4}", 20), (2, 5, 1, 1, "{3, 5}", 18), (3, 7, 1, 1, "{4, 7}", 16), (2, 7, 1, 1, "{1, 7}", 22)]),
}


def sweep_cfg(path, b, n0, mc, mx, risky, inv, constraint, depth=40):
    with open(path, "w") as f:
        f.write("SPECIFICATION Spec\nCONSTANTS B = %d  N0 = %d  MaxCreate = %d  MaxClose = %d  Risky0 = %s  Emit = TRUE  Depth = %d\n"
                "%s\nCONSTRAINT %s\nVIEW View\nCHECK_DEADLOCK FALSE\n" % (b, n0, mc, mx, risky, depth, "\n".join("INVARIANT " + i for i in inv), constraint))


def sweep_models(c, d, t):
    """MC_Sweep: (1) exhaustive: the liveness bound holds in the model when the environment creates/closes at most one other
    position; (2) adversarial configs: every shortest violating behaviour is emitted; (3) simulation: random behaviours.
    (2) and (3) are replayed on real vaults by the harness."""
    tfile = os.path.join(d, "sweep.txt")
    open(tfile, "w").close()
    stats = dict(generated=0, distinct=0, configs=[])
    for k, (b, n0, mc, mx, risky) in enumerate(t["exh"]):
        cfg = "sw_exh_%d.cfg" % k
        sweep_cfg(os.path.join(d, cfg), b, n0, mc, mx, risky, ["Live"], "Short")
        r = vlib.model_check(d, "MC_Sweep", cfg, workers=4, timeout=900)
        stats["generated"] += r["generated"]; stats["distinct"] += r["distinct"]
        stats["configs"].append("exhaustive B=%d N0=%d create<=%d close<=%d risky=%s: %d distinct" % (b, n0, mc, mx, risky, r["distinct"]))
    for k, (b, n0, mc, mx, risky) in enumerate(t["adv"]):
        cfg = "sw_adv_%d.cfg" % k
        sweep_cfg(os.path.join(d, cfg), b, n0, mc, mx, risky, ["LiveOrEmit"], "Short")
        r = vlib.model_check(d, "MC_Sweep", cfg, workers=1, timeout=900, tfile=tfile)
        stats["generated"] += r["generated"]; stats["distinct"] += r["distinct"]
        stats["configs"].append("adversarial B=%d N0=%d create<=%d close<=%d: %d violating behaviours emitted" % (b, n0, mc, mx, r.get("transitions_dumped", 0)))
    for k, (b, n0, mc, mx, risky, depth) in enumerate(t["sim"]):
        cfg = "sw_sim_%d.cfg" % k
        with open(os.path.join(d, cfg), "w") as f:
            f.write("SPECIFICATION Spec\nCONSTANTS B = %d  N0 = %d  MaxCreate = %d  MaxClose = %d  Risky0 = %s  Emit = TRUE  Depth = %d\n"
                    "INVARIANT Live\nINVARIANT EmitAtDepth\nCONSTRAINT DepthBound\nCHECK_DEADLOCK FALSE\n" % (b, n0, mc, mx, risky, depth))
        r = vlib.run_tlc(d, "MC_Sweep", cfg, workers=1, timeout=600, simulate="num=%d" % t["simnum"], extra=["-depth", str(depth + 1), "-seed", str(c.seed)])
        if "Error:" in r["out"] or "violated" in r["out"]:
            vlib.log(vlib.tlc_error_text(r["out"]))
            raise vlib.NoVerdict("MC_Sweep simulation reported a model-level error (not a verdict about the code)")
        with open(tfile, "a") as f:
            for l in r["out"].splitlines():
                if l.startswith('<<"T", '):
                    f.write(l + "\n")
    return tfile, stats


def produce(c, binhash):
    t = TIERS[c.tier]

    def producer(d):
        vlib.stage_spec(d, ["harbor", "sweep"])
        logf = os.path.join(d, "harbor.ndjson")
        sweepfile, mstats = sweep_models(c, d, t)
        # vault model: Init = projection of the real fixture root; TLC checks the M_* invariants to t["mdepth"] and prints the action set
        vlib.run_vh(["harbor", "--rootout", os.path.join(d, "root.ndjson")])
        with open(os.path.join(d, "MC_Harbor_run.cfg"), "w") as f:
            f.write('SPECIFICATION Spec\nCONSTANTS RootFile = "root.ndjson"  Depth = %d\n'
                    'INVARIANTS M_Custody M_Count M_Totals M_Backed M_Floor M_Ceiling M_NonNeg M_V1Held\nCONSTRAINT DepthBound\nVIEW StView\nCHECK_DEADLOCK FALSE\n' % t["mdepth"])
        actsfile = os.path.join(d, "acts.txt")
        r = vlib.model_check(d, "MC_Harbor", "MC_Harbor_run.cfg", workers=8, timeout=1500, tfile=actsfile, heap="6g")
        mstats["generated"] += r["generated"]; mstats["distinct"] += r["distinct"]
        mstats["configs"].append("MC_Harbor depth %d: %d generated / %d distinct states, invariants M_Custody M_Count M_Totals M_Backed M_Floor M_Ceiling M_NonNeg M_V1Held hold" % (t["mdepth"], r["generated"], r["distinct"]))
        vlib.run_vh(["harbor", "--acts", actsfile, "--out", logf, "--seed", str(c.seed), "--runs", str(t["runs"]), "--steps", str(t["steps"]),
                     "--depth", str(t["depth"]), "--maxnodes", str(t["maxnodes"]), "--sweep", sweepfile, "--sweepmax", str(t["sweepmax"]), "--esm"], timeout=3000)
        tr = vlib.trace_check_chunked(d, "Trace_Harbor", "Trace_Harbor.cfg", logf, chunk_nodes=12000, ptr_fields=["st.root"],
                                      workers=8 if c.tier == "thorough" else 4, timeout=3400, heap="8g")
        return dict(fails=tr["fails"], stats=tr["stats"], distinct=tr.get("distinct"), generated=tr.get("generated"), wall=tr["wall"], model=mstats)

    d, res, was_cached = vlib.cached("harbor", [binhash, vlib.spec_hash("harbor", "sweep"), c.tier, c.seed, TIERS[c.tier]], producer)
    return d, res, was_cached


def run(c, need):
    binhash = vlib.sha_file(vlib.BIN)
    d, res, was_cached = produce(c, binhash)
    logf = os.path.join(d, "harbor.ndjson")
    tr = dict(fails=[tuple(x) for x in res["fails"]], stats=res["stats"])
    c.judge(tr, logf)
    st = res["stats"]
    if not c.violations:  # a formula false on a real-code state is a verdict whatever the coverage; vacuity only guards an all-green result
        for k in need:
            if st.get(k, 0) == 0:
                raise vlib.NoVerdict("vacuous run: antecedent counter %s = 0 (%s)" % (k, st))
    nodes = vlib.read_log(logf)
    pick = [n for n in nodes if n["res"].get("ok") and n["a"] not in ("Init", "Block", "Price")][:400]
    c.samples = [dict(a=n["a"], args=n["args"], res=n["res"]) for n in pick[:: max(1, len(pick) // 6)]][:6]
    return c.finish("model_checking", dict(
        states=res["model"]["distinct"] + res["distinct"], transitions=res["model"]["generated"] + res["distinct"],
        traces_validated_against_impl=st.get("nodes", 0), sweep_model=res["model"]["configs"], trace_states=res["distinct"],
        antecedents=st, shared_log_cached=was_cached,
        predicted_actions=["Create", "Deposit", "Withdraw (incl. emergency-shutdown cool-off)", "Draw", "Repay", "Close", "DepositDraw", "SCreate", "SDeposit", "SWithdraw",
                           "Block: V2 vault sweep (Sweep.tla)", "V1Sweep (Sweep.tla)", "V1Liquidate", "V1Bid (relation)", "V1Tick outside shutdown", "EsmDeposit", "EsmExecute"],
        unpredicted_actions=["Liquidate / LiqExt / Bid / Reserve (V2 messages: monitored by the C09/C10 formulas)", "Block: V2 auction tick and settlement, esm begin blocker stages, V2 TriggerEsm",
                             "V1Tick under emergency shutdown (close-out)", "EsmRedeem", "InterestCalc and vault steps in configurations with stability-fee accrual (interest is an environment value)"],
        rule="every node of the recorded tree log (seeded multi-actor behaviours over 8 decimal/fee configurations incl. V1-biased and emergency-shutdown-biased runs + bounded "
             "breadth-first explorations of fixed action-instance sets on CacheContext branches: vault model action set, first-generation liquidation/auction, emergency shutdown with and "
             "without a stable-mint vault; MC_Sweep behaviours replayed on the V2 and the V1 sweep) is one TLC state of Trace_Harbor; "
             "formulas are evaluated on (pre-state, step, post-state) of the real keepers"),
        assumptions=["signatures/ante chain out of scope: signer = message's From", "oracle prices injected with MarketKeeper.SetTwa (environment action Price)",
                     "kill switch toggled through the esm keeper setter (admin check is C12)",
                     "V1 begin blockers (x/liquidation, x/auction) are not wired in app.go: called directly as environment actions V1Sweep / V1Tick, like the repository's tests",
                     "emergency-shutdown redemption relations (pay-out within the pro-rata share) are monitored in the antecedent counters only: no property of this family demands them"])
