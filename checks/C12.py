"""C12 — only the rightful party can act: owners on positions, authorities on controls.
spec/matrix/Auth.tla (+Catalogue.tla): owner matrix and privileged matrix as finite TLA+ cell sets; MC_Matrix enumerates them,
`vh matrix` executes every cell on the real msg router / custom wasm dispatcher from a fresh and from seeded non-fresh states,
Trace_Matrix judges every recorded cell."""
import os, sys
sys.path.insert(0, os.path.dirname(os.path.abspath(__file__)))
import vlib
import matrix_common as mx

META = dict(
    category="model_checking",
    technique="TLA+ authorisation matrices (Auth.tla) enumerated by TLC; every cell executed on the real handlers / wasm dispatcher; outcomes judged by a TLC trace spec",
    text="Auth.tla states who may succeed: for each of the 26 position messages (vault, locker, lend, borrow, order, farm, limit bid) x holder of the named "
         "position in {owner, other, risk} x signer in {every fixture account, a module account} x amount in {small, exactly the position's whole "
         "balance, more} x named pair/app in {home pair, another pair with colliding order ids, a second app with colliding ids}, and for the 20 custom contract messages x chain id x sender "
         "(designated contract 0/1 of the network, of the other network, unrelated) plus MsgKillSwitch x sender. TLC enumerates the cells (bounded, "
         "exhaustive for the tables) and checks the tables and the guards-as-coded against the property; the harness executes every cell on the real "
         "code from a fresh fixture and from seeded non-fresh states, recording result, full store digest before/after and the owner's position/balance "
         "view; TLC evaluates C12_OwnerOnly, C12_VictimUntouched, C12_RejectedChangesNothing, C12_Privileged, C12_PrivilegedRole, "
         "C12_PrivilegedOtherNetwork, C12_KillSwitch on every recorded cell. Exhaustive over the matrix, sampled over histories.",
    note="Round 4: the privileged cells also vary whom the payload's own address field names (caller / designated contract / third account); the kill switch "
         "runs under three states of the esm admin parameter (configured, rotated, empty) set through the params module's parameter-change proposal handler; "
         "opening messages by third parties are checked to leave every holder's positions untouched, also after an older position was removed (hole in the id "
         "sequence), and the whole matrix runs once more on such a 'holey' state. Signature verification is assumed (signer = msg.GetSigners()[0]); rejected messages are delivered with baseapp's cache-wrap atomicity; "
         "the designated contract addresses are network data; histories are seeded random prefixes of successful operations, not all reachable states.",
    design_ref="4 C12",
)


def run(c):
    logf, res, cached = mx.produce(c)
    c.judge(dict(fails=[tuple(x) for x in res["fails"]]), logf)
    st = res["stats"]
    if not c.violations:   # a violation on real-code states stands on its own; vacuity only matters for a clean result
        mx.need(st, ["ownForeign", "ownSignerKeyed", "ownOwnerOk", "privGuarded", "privAccepted", "privElsewhere", "killForeign", "killAccepted",
                     "ownForeignWhole", "ownForeignOver", "ownOtherScope", "ownScopeWitness",
                     "privPayloadNamesDesignated", "killRotatedAccepted", "killEmptyList", "openOk", "openAfterHole", "holeyStates"])
        mx.need_eq(st, [("ownRowsWitnessed", "ownRows"), ("variantsWitnessed", "variants"), ("openMsgsWitnessed", "openMsgs")])
    c.samples = mx.samples(logf, ("Own", "Open", "Priv", "Kill"))
    return c.finish("model_checking", dict(
        states=res["mc"]["distinct"], transitions=res["mc"]["generated"], traces_validated_against_impl=st["nodes"],
        cells_executed=st["own"] + st["privGuarded"] + st["privElsewhere"] + st["killForeign"] + st["killAccepted"],
        prepared_states=st["states"], antecedents=st, exhaustive=True, log_cached=cached,
        rule="every cell of the owner matrix (position message x signer) and of the privileged matrix (variant x chain id x sender; kill switch x sender) "
             "is one execution on the real code per prepared state (fresh fixture + seeded random prefixes); a cell counts as non-vacuous when the same "
             "message succeeds in the same state for the owner / without the sender guard"),
        assumptions=["transaction signatures are verified by the ante chain (not exercised): the signer is msg.GetSigners()[0]",
                     "custom contract messages are dispatched through wasm.CustomMessageDecorator(...).DispatchMsg without a wasm VM; a failed dispatch reverts the contract call"])
