"""XADM - administration modules every other family only uses as fixtures: x/tokenmint (supply book, genesis mint,
mint / burn for an app, emission, rebase) and x/asset administration (apps, assets, pairs, genesis-token configuration,
extended pair vaults).  Not one of the listed properties: run with `bin/extra admin`.
spec/admin/Tokenmint.tla + AssetAdmin.tla ; MC_Tokenmint / MC_AssetAdmin (bounded, exhaustive per profile, every law
checked on every model transition) ; every model transition is executed once on the real keepers / msg servers /
proposal handlers by a graph walk ; seeded behaviours ; TLC judges every recorded step (Trace_Tokenmint / Trace_AssetAdmin:
ADM_* laws, Conf_* conformance)."""
import json, os
import vlib

META = dict(
    property="XADM",
    category="model_checking",
    technique="TLA+ specs Tokenmint.tla / AssetAdmin.tla model-checked by TLC (every law evaluated on every transition of the as-is and of the repaired "
              "model); the complete transition graph of each bounded profile is walked on the real msg servers, keeper entry points, governance "
              "proposal handlers and wasm bindings (one CacheContext branch per edge); recorded steps validated by TLC trace specs",
    text="Tokenmint.tla: one functional operator per entry point (MsgMintNewTokens, MintNewTokensForApp, BurnTokensForApp as esm / the auctions call it, "
         "BurnGovTokensForApp, WasmMsgFoundationEmission, WasmMsgRebaseMint) over the supply book, bank supply and balances of the module account and "
         "recipients. Laws: the genesis mint of (app, asset) happens at most once, only for a configured asset, exactly the configured supply to the "
         "configured recipient; entries are never removed / duplicated; CurrentSupply = genesis + minted - burned per step; the bank supply of an asset "
         "moves exactly with the sum of its entries; the module account holds nothing between requests; burns never exceed the holder's balance or the "
         "book; MintNewTokensForApp / rebase deliver exactly the requested amount to the named address, emission everything it mints in equal shares to "
         "the listed addresses; one asset per request; a rejected request changes nothing (state and store digest). "
         "AssetAdmin.tla: AddApp, UpdateGovTimeInApp, AddAssetInApp, AddAsset / AddMultipleAssets / MsgAddAsset (registration fee), UpdateAsset, AddPair, "
         "UpdatePair, AddAssetPair, WasmAddExtendedPairsVaultRecords, WasmUpdatePairsVault with their ValidateBasic. Laws: ids strictly increasing and "
         "never reused, records never removed; unique app names / short names, asset names / denominations, (in, out) pairs incl. reverse; secondary "
         "indexes list exactly the records; decimals > 0, off-chain assets never CDP-mintable; extended pairs keep fees in [0,1), floor < ceiling, a "
         "CDP-mintable on-chain debt asset, unique (app, name); app governance settings stay valid; genesis-token configuration (existing on-chain "
         "non-mintable asset, supply > 0, listed once over all apps, one governance token per app); what an update may change (asset: name, "
         "denomination, decimals, oracle flag; pair: its assets unless a product uses it; extended pair: fees, penalty, ratio, activity, ceiling, floor; "
         "app: governance period and deposit) and that nothing else moves; adds never touch existing records; the registration fee; the band-oracle "
         "flag; a rejected request changes nothing. Exhaustive for the bounded profiles, sampled beyond them.",
    note="Trusted: TLC/Json module, the projection functions of harness/fam/admin, bank/store semantics. Governance proposals are executed as x/gov does "
         "(ValidateBasic, handler on a cache-wrapped context written on success); the wasm entry points are called through the exported binding functions "
         "behind the sender guard; BurnTokensForApp is driven together with the holder -> module transfer its callers make. Names come from a catalogue "
         "whose lexical attributes are tabulated in the spec.",
    design_ref="6 (growing the specification: asset administration, tokenmint)",
)

CHUNK = 40000
TM_INV = "InvSupply InvModuleEmpty InvNonNeg"
AA_INV = "InvState InvIds"


def _mc(d, module, name, constants, invariants, tfile, workers):
    cfg = "%s_%s.cfg" % (module, name)
    with open(os.path.join(d, cfg), "w") as f:
        f.write("SPECIFICATION Spec\nCONSTANTS %s\nINVARIANTS %s\nCHECK_DEADLOCK FALSE\n" % (constants, invariants))
    r = vlib.model_check(d, module, cfg, workers=workers, tfile=tfile, timeout=1700)
    return dict(model=module, config=name, generated=r["generated"], distinct=r["distinct"], wall=round(r["wall"], 1), dumped=r.get("transitions_dumped", 0))


def _tm_cfgs(tier):
    ops = 2 if tier == "quick" else 3
    return [("book", 'Profile = "book"  MaxOps = %d' % ops), ("wasm", 'Profile = "wasm"  MaxOps = %d' % ops)]


def _aa_cfgs(tier):
    if tier == "quick":
        return [("assets", 'Profile = "assets"  MaxUpd = 1  MaxAssets = 2  MaxPairs = 1  MaxApps = 2  MaxToks = 2  MaxExts = 2'),
                ("apps", 'Profile = "apps"  MaxUpd = 1  MaxAssets = 4  MaxPairs = 2  MaxApps = 2  MaxToks = 2  MaxExts = 2'),
                ("ext", 'Profile = "ext"  MaxUpd = 2  MaxAssets = 4  MaxPairs = 2  MaxApps = 2  MaxToks = 2  MaxExts = 2')]
    return [("assets", 'Profile = "assets"  MaxUpd = 1  MaxAssets = 3  MaxPairs = 2  MaxApps = 2  MaxToks = 2  MaxExts = 2'),
            ("apps", 'Profile = "apps"  MaxUpd = 2  MaxAssets = 4  MaxPairs = 2  MaxApps = 2  MaxToks = 3  MaxExts = 2'),
            ("ext", 'Profile = "ext"  MaxUpd = 3  MaxAssets = 4  MaxPairs = 2  MaxApps = 2  MaxToks = 2  MaxExts = 2')]


def sample_nodes(path, want):
    out, seen = [], set()
    with open(path) as f:
        for l in f:
            n = json.loads(l)
            if n["a"] in want and n["a"] not in seen and n.get("res", {}).get("ok", True):
                seen.add(n["a"])
                out.append(dict(run=n["run"], a=n["a"], args=n["args"], res=n["res"]))
            if len(seen) == len(want):
                break
    return out


def count_lines(path):
    with open(path) as f:
        return sum(1 for _ in f)


def _world(c, world, module, trace, cfgs, inv, runs, steps):
    d = c.wd
    tfile = os.path.join(d, "T%s.txt" % world)
    mcs = []
    for name, k in cfgs:
        # the code as it is: transition dump for the walk (laws may fail only on named deviations)
        mcs.append(_mc(d, module, name, "Fix = FALSE  Emit = TRUE  " + k, inv, tfile, 1))
        # the repaired module: every law on every transition (design-level result, no dump)
        mcs.append(_mc(d, module, name + "-fixed", "Fix = TRUE  Emit = FALSE  " + k, inv, None, 4))
    logf = os.path.join(d, "%s.ndjson" % world.lower())
    vlib.run_vh(["admin", "--world", world, "--tfile", tfile, "--out", logf, "--seed", str(c.seed), "--runs", str(runs), "--steps", str(steps),
                 "--chunk", str(CHUNK)], timeout=3000)
    os.remove(tfile)
    # the harness keeps the log closed under parent / root pointers every CHUNK nodes ("Resume" roots), so TLC can judge it piecewise
    tr = vlib.trace_check_chunked(d, trace, trace + ".cfg", logf, chunk_nodes=CHUNK, ptr_fields=("st.root",), workers=4, timeout=3000, heap="6g")
    props = {f: "XADM" for f, _ in tr["fails"] if f.startswith("ADM_")}
    c.judge(tr, logf, formula_props=props)
    return mcs, tr, logf


def run(c):
    c.stage("admin")
    quick = c.tier == "quick"
    mt, trt, lt = _world(c, "T", "MC_Tokenmint", "Trace_Tokenmint", _tm_cfgs(c.tier), TM_INV, *((30, 40) if quick else (400, 80)))
    ma, tra, la = _world(c, "A", "MC_AssetAdmin", "Trace_AssetAdmin", _aa_cfgs(c.tier), AA_INV, *((30, 60) if quick else (400, 100)))
    st, sa = trt["stats"], tra["stats"]
    need = {k: st.get(k, 0) for k in ("genesisMints", "genesisAgain", "genesisUnlisted", "mints", "burns", "burnsAtBook", "burnsOverBalance", "govBurns",
                                      "emissions", "emissionsExact", "rebases", "rejected", "thirdApp")}
    need.update({k: sa.get(k, 0) for k in ("appsAdded", "appsRefused", "govTimeUpdates", "tokensConfigured", "tokensRefused", "assetsAdded", "assetsRefused",
                                           "feePaid", "feeShort", "assetUpdates", "assetRenames", "assetUpdatesRefused", "pairsAdded", "pairsRefused",
                                           "pairUpdates", "pairUpdatesRefused", "extsAdded", "extsRefused", "extUpdates", "extUpdatesRefused", "multiRollback")})
    zero = [k for k, v in need.items() if v == 0]
    if zero and not c.violations:   # a law already found false on real-code states is a verdict; vacuity only guards an OK
        raise vlib.NoVerdict("vacuous run, antecedent counters are 0: %s" % zero)
    c.samples = sample_nodes(lt, {"MsgMint", "BurnForApp", "Emission", "Rebase"}) + sample_nodes(la, {"AddApp", "AddAssetInApp", "UpdateAsset", "AddExt", "UpdateExt"})
    mcs = mt + ma
    nt, na = count_lines(lt), count_lines(la)
    return c.finish("model_checking", dict(
        states=sum(m["distinct"] for m in mcs), transitions=sum(m["generated"] for m in mcs),
        traces_validated_against_impl=nt + na, trace_states=(trt.get("distinct") or 0) + (tra.get("distinct") or 0),
        transitions_executed_on_impl=sum(m["dumped"] for m in mcs),
        model_configs=["%s:%s" % (m["model"], m["config"]) for m in mcs], model_runs=mcs,
        antecedents=dict(tokenmint=st, asset=sa), exhaustive=True,
        rule="every transition of the bounded models MC_Tokenmint (profiles book / wasm: 3 apps, 4 assets, unknown app / asset probes, burn amounts below / "
             "at / above the book and the holder's balance, emission amounts negative / zero / divisible / indivisible over 0..3 addresses) and "
             "MC_AssetAdmin (profiles assets / apps / ext: request alphabets with one attribute wrong at a time, clashes with every existing record, "
             "multi-record proposals that must roll back, updates of live products) is executed once on the real code by a graph walk; plus seeded "
             "behaviours (random valid genesis configurations, a third app whose token also has external supply; mixed administration histories on one store); each log node is "
             "a TLC state of the trace spec"),
        assumptions=["governance proposals are executed the way x/gov executes a passed proposal (ValidateBasic at submission, handler on a cache-wrapped context)",
                     "wasm bindings are entered behind the sender guard (exported Msg* functions of app/wasm), atomic per dispatched message",
                     "BurnTokensForApp is driven together with the holder -> module transfer that x/esm and the auction modules perform first",
                     "nobody but x/tokenmint mints the denominations of the supply book during a behaviour"])
