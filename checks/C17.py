"""C17 — oracle averaging is exact and activates only on a full window.
spec/oracle/Oracle.tla (UpdatePriceList transcribed) ; MC_Oracle (exhaustive, N x Gap grid) ;
every model transition executed on the real keeper / market.BeginBlocker ; seeded behaviours incl. 2^64-1."""
import os
import vlib

META = dict(
    category="model_checking",
    technique="TLA+ spec Oracle.tla exhaustively model-checked by TLC; every model transition replayed on the real keeper; recorded behaviours validated by TLC trace spec; Apalache inductive step for the ring over unbounded values",
    text="Oracle.tla transcribes UpdatePriceList branch by branch; TLC checks the C17 invariants on the bounded model (window N, gap, sample grid), "
         "every generated transition is executed once on the real UpdatePriceList/market.BeginBlocker with the pre-state injected and TLC checks "
         "code step = spec step; seeded behaviours (zeros, repeats, 2^64-1, two priced assets) are judged by TLC with an independent ghost window. "
         "Exhaustive for the bounded grid, sampled beyond it; the ring/mean relation of the active branch is additionally discharged by Apalache as an inductive step for N=1..3 (thorough 1..6) over unbounded sample values, with a broken variant rejected as sanity. The 20-block band cadence (validation result, discard flag) is a second bounded model (Band.tla) whose transitions run through the real bandoracle+market begin blockers.",
    note="Trusted: TLC/Json module, the projection of TimeWeightedAverage records, band IBC fetch stubbed via the band keeper's setters; window size fixed within a behaviour.",
    design_ref="4 C17",
)


IND_TEMPLATE = """------------------------------ MODULE OracleInd%(n)d ------------------------------
(* Inductive invariant (Apalache, symbolic, UNBOUNDED sample values) for the sample ring of an ACTIVE    *)
(* TimeWeightedAverage record with window size N = %(n)d: the ring read from the cursor is the sequence of   *)
(* the last N samples and the published value is their integer mean.                                      *)
(* Next = the active-branch ring write of UpdatePriceList (Oracle.tla, Sample, branch w1.active), whose   *)
(* agreement with the real code is what Conf_Sample establishes on every recorded step.                   *)
EXTENDS Integers

VARIABLES
  \\* @type: Int -> Int;
  win,
  \\* @type: Int;
  idx,
  \\* @type: Int;
  val,
  \\* @type: Int -> Int;
  recent

N == %(n)d
\\* @type: (Int -> Int) => Int;
SumN(s) == %(sum)s

IndInv ==
  /\\ win \\in [1..%(n)d -> Nat] /\\ recent \\in [1..%(n)d -> Nat]
  /\\ idx \\in 0..(N - 1)
  /\\ \\A k \\in 1..%(n)d : win[((idx + k - 1) %% N) + 1] = recent[k]
  /\\ val = SumN(recent) \\div N

IndInit == IndInv
Init == IndInit

Next == \\E r \\in Nat :
  /\\ r > 0
  /\\ win' = [win EXCEPT ![idx + 1] = r]
  /\\ idx' = IF idx + 1 %(cmp)s N THEN 0 ELSE idx + 1
  /\\ recent' = [k \\in 1..%(n)d |-> IF k = N THEN r ELSE recent[k + 1]]
  /\\ val' = SumN(win') \\div N
=============================================================================
"""


def apalache_inductive(c, ns):
    """Inductive step IndInv /\\ Next => IndInv' for unbounded sample values (Apalache). Best effort: a tool failure is
    reported as not run; a deliberately broken variant must be REJECTED (sanity that the obligation bites)."""
    import subprocess
    out = []
    d = os.path.join(c.wd, "apalache")
    os.makedirs(d, exist_ok=True)
    for n, cmp_, expect_ok in [(k, ">=", True) for k in ns] + [(3, ">", False)]:
        name = "OracleInd%d" % n
        with open(os.path.join(d, name + ".tla"), "w") as f:
            f.write(IND_TEMPLATE % dict(n=n, sum=" + ".join("s[%d]" % k for k in range(1, n + 1)), cmp=cmp_))
        try:
            p = subprocess.run(["apalache-mc", "check", "--init=IndInit", "--inv=IndInv", "--length=1", "--out-dir=" + os.path.join(d, "out"), name + ".tla"],
                               cwd=d, stdout=subprocess.PIPE, stderr=subprocess.STDOUT, text=True, timeout=600)
        except Exception as e:
            out.append(dict(n=n, variant=cmp_, result="not run: %s" % e))
            continue
        ok = "EXITCODE: OK" in p.stdout
        out.append(dict(n=n, variant="wrap when idx+1 %s N" % cmp_, discharged=ok, expected=expect_ok))
        if ok != expect_ok and ("EXITCODE" in p.stdout):
            raise vlib.NoVerdict("Apalache inductive obligation N=%d variant %s: discharged=%s expected=%s (spec-level, not a verdict about the code)" % (n, cmp_, ok, expect_ok))
    return out


def run(c):
    c.stage("oracle")
    quick = c.tier == "quick"
    grid = [(1, 1), (2, 2), (3, 1)] if quick else [(n, g) for n in (1, 2, 3, 4) for g in (1, 2)] + [(2, 3)]
    tfile = os.path.join(c.wd, "T.txt")
    gen = dist = 0
    for n, g in grid:
        cfg = "MC_Oracle_N%dG%d.cfg" % (n, g)
        with open(os.path.join(c.wd, cfg), "w") as f:
            f.write("SPECIFICATION Spec\nCONSTANTS N = %d  Gap = %d  Samples = {0, 1, 2, 5}  Emit = TRUE\n"
                    "INVARIANTS NoPanic OnlyFull MeanExact IndexInWindow ZeroSwitchesOff\nCHECK_DEADLOCK FALSE\n" % (n, g))
        r = vlib.model_check(c.wd, "MC_Oracle", cfg, workers=1, tfile=tfile, timeout=1200)
        gen += r["generated"]
        dist += r["distinct"]
    # the 20-block cadence (band hook ; market hook) as a second bounded model, every transition a vector
    bfile = os.path.join(c.wd, "TB.txt")
    bgrid = [(1, 1), (2, 2)] if quick else [(1, 1), (2, 1), (2, 2), (3, 2), (2, 3)]
    for n, g in bgrid:
        cfg = "MC_Band_N%dG%d.cfg" % (n, g)
        with open(os.path.join(c.wd, cfg), "w") as f:
            f.write("SPECIFICATION Spec\nCONSTANTS N = %d  Gap = %d  Rates = {0, 1, 5}\n"
                    "INVARIANTS NoPanic OnlyFull MeanExact IndexInWindow\nVIEW View\nCHECK_DEADLOCK FALSE\n" % (n, g))
        r = vlib.model_check(c.wd, "MC_Band", cfg, workers=1, tfile=bfile, timeout=1200)
        gen += r["generated"]
        dist += r["distinct"]
    logf = os.path.join(c.wd, "oracle.ndjson")
    runs, steps = (60, 60) if quick else (600, 100)
    vlib.run_vh(["oracle", "--vectors", tfile, "--band", bfile, "--out", logf, "--seed", str(c.seed), "--runs", str(runs), "--steps", str(steps)])
    tr = vlib.trace_check_chunked(c.wd, "Trace_Oracle", "Trace_Oracle.cfg", logf, chunk_nodes=40000, workers=4 if quick else 8, heap="8g")
    c.judge(tr, logf)
    nodes = vlib.read_log(logf)
    c.samples = [nodes[0], nodes[len(nodes) // 2], nodes[-1]]
    ind = apalache_inductive(c, (1, 2, 3) if quick else (1, 2, 3, 4, 5, 6))
    st = tr["stats"]
    if not c.violations and min(st.get(k, 0) for k in ("meanChecked", "zeroSamples", "bigValues", "cycles", "discards", "reconfigs", "reactivations")) == 0:
        raise vlib.NoVerdict("vacuous run: %s" % st)
    return c.finish("model_checking", dict(
        states=dist, transitions=gen, traces_validated_against_impl=len(nodes),
        model_configs=["Oracle N=%d,Gap=%d" % x for x in grid] + ["Band N=%d,Gap=%d" % x for x in bgrid], trace_states=tr.get("distinct"), antecedents=st,
        exhaustive=True, apalache_inductive_ring=ind,
        rule="every transition of the bounded model (N x Gap grid, samples {0,1,2,5}) is one vector on the real UpdatePriceList / market.BeginBlocker; "
             "plus seeded behaviours with 0 / repeated / 2^64-1 samples for two priced assets; each node is a TLC state of Trace_Oracle"),
        assumptions=["band IBC fetch is stubbed: the fetch result is written with the band keeper's own setter",
                     "window size fixed during a behaviour (statement: 'for a fixed window size N')"])
