"""C17 — oracle averaging is exact and activates only on a full window.
spec/oracle/Oracle.tla (UpdatePriceList transcribed) ; MC_Oracle (exhaustive, N x Gap grid) ;
every model transition executed on the real keeper / market.BeginBlocker ; seeded behaviours incl. 2^64-1."""
import os
import vlib

META = dict(
    category="model_checking",
    technique="TLA+ spec Oracle.tla exhaustively model-checked by TLC; every model transition replayed on the real keeper; recorded behaviours validated by TLC trace spec",
    text="Oracle.tla transcribes UpdatePriceList branch by branch; TLC checks the C17 invariants on the bounded model (window N, gap, sample grid), "
         "every generated transition is executed once on the real UpdatePriceList/market.BeginBlocker with the pre-state injected and TLC checks "
         "code step = spec step; seeded behaviours (zeros, repeats, 2^64-1, two priced assets) are judged by TLC with an independent ghost window. "
         "Exhaustive for the bounded grid, sampled beyond it.",
    note="Trusted: TLC/Json module, the projection of TimeWeightedAverage records, band IBC fetch stubbed via the band keeper's setters; window size fixed within a behaviour.",
    design_ref="4 C17",
)


def run(c):
    c.stage("oracle")
    quick = c.tier == "quick"
    grid = [(1, 1), (2, 2), (3, 1)] if quick else [(n, g) for n in (1, 2, 3, 4) for g in (1, 2, 3)]
    tfile = os.path.join(c.wd, "T.txt")
    gen = dist = 0
    for n, g in grid:
        cfg = "MC_Oracle_N%dG%d.cfg" % (n, g)
        with open(os.path.join(c.wd, cfg), "w") as f:
            f.write("SPECIFICATION Spec\nCONSTANTS N = %d  Gap = %d  Samples = {0, 1, 2, 5}  Emit = TRUE\n"
                    "INVARIANTS NoPanic OnlyFull MeanExact IndexInWindow ZeroSwitchesOff\nCHECK_DEADLOCK FALSE\n" % (n, g))
        r = vlib.model_check(c.wd, "MC_Oracle", cfg, workers=1, tfile=tfile, timeout=1200)
        gen += r["generated"]
        dist += r["distinct"]
    # the 20-block cadence (band hook ; market hook) as a second bounded model, every transition a vector
    bfile = os.path.join(c.wd, "TB.txt")
    bgrid = [(1, 1), (2, 2)] if quick else [(n, g) for n in (1, 2, 3) for g in (1, 2, 3)]
    for n, g in bgrid:
        cfg = "MC_Band_N%dG%d.cfg" % (n, g)
        with open(os.path.join(c.wd, cfg), "w") as f:
            f.write("SPECIFICATION Spec\nCONSTANTS N = %d  Gap = %d  Rates = {0, 1, 5}\n"
                    "INVARIANTS NoPanic OnlyFull MeanExact IndexInWindow\nVIEW View\nCHECK_DEADLOCK FALSE\n" % (n, g))
        r = vlib.model_check(c.wd, "MC_Band", cfg, workers=1, tfile=bfile, timeout=1200)
        gen += r["generated"]
        dist += r["distinct"]
    logf = os.path.join(c.wd, "oracle.ndjson")
    runs, steps = (60, 60) if quick else (1500, 120)
    vlib.run_vh(["oracle", "--vectors", tfile, "--band", bfile, "--out", logf, "--seed", str(c.seed), "--runs", str(runs), "--steps", str(steps)])
    tr = vlib.trace_check(c.wd, "Trace_Oracle", "Trace_Oracle.cfg", logf, workers=4)
    c.judge(tr, logf)
    nodes = vlib.read_log(logf)
    c.samples = [nodes[0], nodes[len(nodes) // 2], nodes[-1]]
    st = tr["stats"]
    if min(st.get(k, 0) for k in ("meanChecked", "zeroSamples", "bigValues", "cycles", "discards")) == 0:
        raise vlib.NoVerdict("vacuous run: %s" % st)
    return c.finish("model_checking", dict(
        states=dist, transitions=gen, traces_validated_against_impl=len(nodes),
        model_configs=["Oracle N=%d,Gap=%d" % x for x in grid] + ["Band N=%d,Gap=%d" % x for x in bgrid], trace_states=tr.get("distinct"), antecedents=st,
        exhaustive=True,
        rule="every transition of the bounded model (N x Gap grid, samples {0,1,2,5}) is one vector on the real UpdatePriceList / market.BeginBlocker; "
             "plus seeded behaviours with 0 / repeated / 2^64-1 samples for two priced assets; each node is a TLC state of Trace_Oracle"),
        assumptions=["band IBC fetch is stubbed: the fetch result is written with the band keeper's own setter",
                     "window size fixed during a behaviour (statement: 'for a fixed window size N')"])
