"""C04 — liquidity custody: escrows, reserves and farmed pool coins are fully backed; pool-coin supply changes only
by pool creation / executed deposits / withdrawals.
spec/liquidity/Liquidity.tla (msg handlers + block hooks of x/liquidity) ; MC_Liquidity (bounded, exhaustive) ;
the model's alphabet explored exhaustively (bounded) on the real module + seeded multi-actor drivers ; every recorded
state judged by TLC (Trace_Liquidity).  The pipeline (one log, one TLC pass) is shared with C07."""
import json, os, shutil
import vlib

FAM = "liquidity"

META = dict(
    category="model_checking",
    technique="TLA+ spec Liquidity.tla model-checked by TLC (bounded); its action alphabet explored exhaustively on the real module through "
              "the msg router and the app's Begin/EndBlockers; seeded multi-actor runs; every recorded state/step judged by TLC (Trace_Liquidity)",
    text="Liquidity.tla restates every x/liquidity handler and the end/begin-block units over explicit records (requests, orders, farm records, "
         "pools, balances of global escrow / pair escrows / reserves / module account / collectors / users); batch matching, pool-share arithmetic "
         "and the MM tick split are environment choices read from the recorded post-state and constrained only by what C04/C07 need. "
         "C04 = global escrow >= pending requests (all apps), pair escrow >= remaining offer coins of live orders, module account == queued+active "
         "farmed pool coins per pool, zero supply => disabled, supply delta == executed deposits - withdrawals of that pool. "
         "TLC checks these on the bounded model and on every state the real code produced; conformance (code step = spec step) must be 0 failures.",
    note="Bounded: 2 apps x 2 pairs x <=3 pools, 4 users, small amounts (32-bit TLC), prices on a 1e-4 grid around 1 and 2, tick precision 3. "
         "Matching / share arithmetic is not re-computed (amm family C05/C06). Fee conversion orders (every 150th block) have no effect in the fixture "
         "(no pair contains the fee-distribution denom). Trusted: TLC + Json module, the projection (cross-checked against the SDK invariants: Conf_SdkAgree).",
    design_ref="4 C04",
)


def tier_params(tier):
    if tier == "quick":
        return dict(models=[("orders", 1, 2, 4, 1, 3, 2), ("pools", 1, 0, 0, 1, 3, 2), ("orders", 2, 2, 4, 1, 3, 2), ("pairs", 1, 2, 0, 1, 3, 1)], mc_timeout=420,
                    budget=1000, depth=7, runs=24, steps=170, trace_timeout=900)
    return dict(models=[("orders", 1, 3, 0, 1, 4, 2), ("orders", 1, 2, 4, 1, 4, 2), ("pools", 1, 0, 0, 1, 4, 2), ("orders", 2, 3, 0, 1, 3, 2), ("orders", 2, 2, 4, 1, 4, 2), ("pairs", 1, 2, 0, 1, 3, 2)], mc_timeout=1500,
                budget=5000, depth=8, runs=120, steps=220, trace_timeout=3000)


def pipeline(c):
    """Runs (or re-uses) the family pass: model runs, harness, trace run. Returns (dir, result)."""
    binhash = vlib.sha_file(vlib.BIN)
    P = tier_params(c.tier)

    def produce(d):
        wd = os.path.join(d, "wd")
        vlib.stage_spec(wd, [FAM])
        tfile = os.path.join(d, "alphabet.txt")
        models, emitted = [], set()
        for scope, app, maxoid, slack, maxreq, maxh, nusers in P["models"]:
            cfg = "MC_Liquidity_%s_%d_%d_%d.cfg" % (scope, app, maxoid, maxh)
            with open(os.path.join(wd, cfg), "w") as f:
                f.write("SPECIFICATION Spec\nCONSTANTS MApp = %d  MUsers = %s  Scope = \"%s\"  MaxOid = %d  MMMax = %d  MaxReq = %d  MaxH = %d  Swapped = FALSE  Emit = %s\n"
                        "CONSTANTS Accts <- MCAccts  Denoms <- MCDenoms\nINVARIANTS InvC04 InvC07 InvCancellable\nCHECK_DEADLOCK FALSE\n"
                        % (app, '{"u1", "u2"}' if nusers == 2 else '{"u1"}', scope, maxoid, slack, maxreq, maxh, "FALSE" if (scope, app) in emitted else "TRUE"))
            emitted.add((scope, app))
            r = vlib.model_check(wd, "MC_Liquidity", cfg, workers=4, tfile=tfile, timeout=P["mc_timeout"])
            models.append(dict(cfg="scope=%s app=%d users=%d MaxOid=%d MMMax=%d MaxReq=%d MaxH=%d" % (scope, app, nusers, maxoid, slack, maxreq, maxh),
                               generated=r["generated"], distinct=r["distinct"], depth=r.get("depth"), wall=round(r["wall"], 1)))
        # sanity of the model-level formulas: with the code's exchanged lookup (Swapped = TRUE) and app id != pair id the
        # MM-replace step property must FAIL on the model (the counterexample is the confirmed defect, reproduced on real code by the drivers)
        with open(os.path.join(wd, "MC_Liquidity_swapped.cfg"), "w") as f:
            f.write("SPECIFICATION Spec\nCONSTANTS MApp = 2  MUsers = {\"u1\", \"u2\"}  Scope = \"orders\"  MaxOid = 2  MMMax = 4  MaxReq = 1  MaxH = 3  Swapped = TRUE  Emit = FALSE\n"
                    "CONSTANTS Accts <- MCAccts  Denoms <- MCDenoms\nINVARIANTS InvC04 InvC07 InvCancellable\nCHECK_DEADLOCK FALSE\n")
        rs = vlib.run_tlc(wd, "MC_Liquidity", "MC_Liquidity_swapped.cfg", workers=4, timeout=600)
        bites = "step property violated by the model" in rs["out"] and ("CancelMM" in rs["out"] or "MMOrder" in rs["out"])
        if not bites:
            vlib.log(vlib.tlc_error_text(rs["out"]) or rs["out"][-2000:])
            raise vlib.NoVerdict("model sanity: the MM-replace formula does not fail on the model with the exchanged lookup")
        logf = os.path.join(d, "liquidity.ndjson")
        out = vlib.run_vh([FAM, "--model", tfile, "--out", logf, "--seed", str(c.seed), "--budget", str(P["budget"]), "--depth", str(P["depth"]),
                           "--runs", str(P["runs"]), "--steps", str(P["steps"])], timeout=1800)
        tr = vlib.trace_check(wd, "Trace_Liquidity", "Trace_Liquidity.cfg", logf, workers=4, timeout=P["trace_timeout"])
        shutil.rmtree(wd, ignore_errors=True)
        explored = [l for l in out.splitlines() if l.startswith("explore ")]
        return dict(models=models, swapped_lookup_counterexample_found=bites, fails=tr["fails"], stats=tr["stats"], distinct=tr.get("distinct"), trace_wall=round(tr["wall"], 1), explored=explored)

    d, res, was = vlib.cached(FAM, [binhash, vlib.spec_hash(FAM), vlib.sha_file(os.path.abspath(__file__)), c.tier, c.seed], produce)
    if was:
        vlib.log("[cache] re-using the %s family pass %s" % (FAM, d))
    return d, res


def vacuity(st, keys):
    zero = [k for k in keys if st.get(k, 0) == 0]
    if zero:
        raise vlib.NoVerdict("vacuous run, antecedent counters are 0: %s (%s)" % (zero, st))


def finish(c, d, res, keys, rule):
    logf = os.path.join(d, "liquidity.ndjson")
    tr = dict(fails=[tuple(x) for x in res["fails"]])
    c.judge(tr, logf)
    st = res["stats"]
    if not c.violations:      # a formula false on real-code states is a verdict whatever else the run did not reach
        vacuity(st, keys)
    nodes = vlib.read_log(logf)
    pick = [n for n in nodes if n["a"] in ("EndBlock", "CancelMM", "UnfarmAndWithdraw") and n["res"].get("ok")]
    c.samples = [dict(id=n["id"], run=n["run"], a=n["a"], args=n["args"], res=n["res"],
                      path=[(x["a"], x["args"]) for x in vlib.path_to(nodes, n["id"])][-8:]) for n in (pick[:1] + pick[len(pick) // 2:len(pick) // 2 + 1] + pick[-1:])]
    return c.finish("model_checking", dict(
        states=sum(m["distinct"] for m in res["models"]), transitions=sum(m["generated"] for m in res["models"]),
        traces_validated_against_impl=len(nodes), model_configs=res["models"], model_reproduces_swapped_mm_lookup_defect=res.get("swapped_lookup_counterexample_found"), implementation_exploration=res["explored"],
        trace_states=res.get("distinct"), antecedents=st, exhaustive=False, rule=rule),
        assumptions=["matching fills, pool-share arithmetic and the MM tick split are environment choices taken from the recorded post-state (amm family C05/C06)",
                     "message authentication assumed (signer = msg signer); gas infinite",
                     "farming queue duration = 24h (the only gauge duration in the fixture)"])


def run(c):
    d, res = pipeline(c)
    return finish(c, d, res, ["foreignCoin", "foreignOfferOnly", "farmed", "activeFarm", "pending", "rqOrder", "rqCrossing", "rqMMImproved", "rqReqExec", "rqWholeSupply", "rqFarmStaggered", "rqFarmTopUp", "rqFarmTopUpDiff", "rqActiveUnfarm", "rqActiveZeroedDiff"],
                  "bounded TLC model (3 configs) checked exhaustively; its alphabet explored breadth-first on the real module (dedup by projected state, "
                  "node budget); seeded random multi-actor runs over 2 apps / 2 pairs / pools (basic+ranged) / farming / all order types with a drain phase; "
                  "each recorded node is one TLC state of Trace_Liquidity (C04_* on every state, C04_SupplyOnlyByPoolOps on every step)")
